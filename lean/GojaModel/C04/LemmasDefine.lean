/-
  C04 helper lemmas, part 1: DefineOwn — exhaustive case analysis over flags / field presence with values abstract.
-/
import GojaModel.C04.ModelDefine
namespace GojaModel.C04
set_option linter.unusedSimpArgs false
set_option linter.unusedVariables false

macro "c04_desc_cases" d:ident hw:ident : tactic => `(tactic|
  (obtain ⟨v, w, e, c, g, s⟩ := $d
   cases g <;> cases s <;> cases v <;> cases w <;>
     simp [Desc.wellFormed, Desc.isAccessor, Desc.isData, Flag.isSet] at $hw:ident <;>
     cases e <;> cases c))

macro "c04_simp" : tactic => `(tactic|
  simp [defineOwn, rejects, objOf, validateAndApply, applyDesc, existingOf, absProp, Desc.isAccessor, Desc.isData,
        Desc.isGeneric, Flag.isSet, Flag.bool, Flag.getD, SProp.configurable, SProp.enumerable, SProp.isAcc,
        VProp.repInv, Stored.repInv])

macro "c04_finish" : tactic => `(tactic|
  (c04_simp <;> (try (split <;> simp_all [absProp, Stored.repInv, VProp.repInv]))))

/-- what "refines the spec and keeps the representation invariant" means for one cell -/
def CellOk {V} [DecidableEq V] (undef : V) (existing : Option (Stored V)) (d : Desc V) (ext : Bool) : Prop :=
  (defineOwn undef existing d ext).map (absProp undef) = validateAndApply undef (existing.map (absProp undef)) d ext
  ∧ ∀ s, defineOwn undef existing d ext = some s → s.repInv = true

theorem cell_new {V} [DecidableEq V] (undef : V) (d : Desc V) (ext : Bool) (hw : d.wellFormed = true) :
    CellOk undef none d ext := by
  unfold CellOk
  c04_desc_cases d hw <;> cases ext <;> c04_finish

theorem cell_plain {V} [DecidableEq V] (undef x : V) (d : Desc V) (ext : Bool) (hw : d.wellFormed = true):
    CellOk undef (some (.plain x)) d ext := by
  unfold CellOk
  c04_desc_cases d hw <;> c04_finish

theorem cell_data_cfg {V} [DecidableEq V] (undef x : V) (pw pe : Bool) (d : Desc V) (ext : Bool)
    (hw : d.wellFormed = true) :
    CellOk undef (some (.prop { value := some x, writable := pw, configurable := true, enumerable := pe, accessor := false, getterFunc := none, setterFunc := none })) d ext := by
  unfold CellOk
  c04_desc_cases d hw <;> cases pw <;> cases pe <;> c04_finish

theorem cell_data_ncfg {V} [DecidableEq V] (undef x : V) (pw pe : Bool) (d : Desc V) (ext : Bool)
    (hw : d.wellFormed = true) :
    CellOk undef (some (.prop { value := some x, writable := pw, configurable := false, enumerable := pe, accessor := false, getterFunc := none, setterFunc := none })) d ext := by
  unfold CellOk
  c04_desc_cases d hw <;> cases pw <;> cases pe <;> c04_finish

theorem cell_acc {V} [DecidableEq V] (undef : V) (pg ps : Option V) (pe pc : Bool) (d : Desc V) (ext : Bool)
    (hw : d.wellFormed = true) :
    CellOk undef (some (.prop { value := none, writable := false, configurable := pc, enumerable := pe, accessor := true, getterFunc := pg, setterFunc := ps })) d ext := by
  unfold CellOk
  c04_desc_cases d hw <;> cases pe <;> cases pc <;> c04_finish

end GojaModel.C04
