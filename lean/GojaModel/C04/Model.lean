/-
  C04 — essential object invariants, every object kind × key kind.
  Executable model, CORE LEAN ONLY (linked into model_c04).

  Part 1  DefineOwn   : in ModelDefine.lean — baseObject._defineOwnProperty (object.go:650) and ValidateAndApplyPropertyDescriptor.
  Part 2  SetPath     : setOwn*/_setForeign*/setForeign*/Object.set* transcribed as THREE separate copies, and
                        OrdinarySet (10.1.9.1/2) with Receiver.
  Part 3  PropOrder   : propNames / lastSortedPropLen / idxPropCount / _delete / ensurePropOrder / fixPropOrder.
  Part 4  Spec heap   : ordinary objects, all internal methods, integrity levels, op histories, snapshot monitor.
-/
import GojaModel.C04.ModelDefine
namespace GojaModel.C04

/-! ## Part 2 — SetPath -/

/-- Property keys after `toPropertyKey` canonicalisation: an array index (valueInt 0 ≤ n < 2^32-1, or the canonical
numeric string of one — `strToArrayIdx` runtime.go:2980), any other string, a symbol identity. -/
inductive Key where
  | idx (n : Nat)
  | str (s : String)
  | sym (n : Nat)
  deriving DecidableEq, Repr, Inhabited

def Key.isIdx : Key → Bool
  | .idx _ => true
  | _ => false
def Key.isSym : Key → Bool
  | .sym _ => true
  | _ => false
def Key.idxVal : Key → Nat
  | .idx n => n
  | _ => 0

/-- The Receiver of [[Set]]/[[Get]]: an object of the heap or a primitive. -/
inductive Recv where
  | obj (id : Nat)
  | prim
  deriving DecidableEq, Repr

/-- Outcome of a [[Set]]: `fail` = returns false (TypeError when `throw`); `call` = the setter `f` is called with
`this` and the value, result true; `write` = object `obj` gets `p` stored under `k` (key appended if `isNew`), result true. -/
inductive Act (P V : Type) where
  | fail
  | call (f : V) (this : Recv) (arg : V)
  | write (obj : Nat) (k : Key) (p : P) (isNew : Bool)
  deriving Repr, DecidableEq

def Act.map {P Q V} (f : P → Q) : Act P V → Act Q V
  | .fail => .fail
  | .call g t a => .call g t a
  | .write o k p n => .write o k (f p) n

/-- Read-only view of the heap that the [[Set]] walk sees (the heap is not mutated before the final action). -/
structure MView (V : Type) where
  own : Nat → Key → Option (Stored V)     -- o.values[name] / o.symValues.get(s)
  ext : Nat → Bool                        -- o.extensible
  idxCount : Nat → Nat                    -- o.idxPropCount after o.ensurePropOrder()

structure SView (V : Type) where
  own : Nat → Key → Option (SProp V)
  ext : Nat → Bool

def MView.abs {V} (undef : V) (mv : MView V) : SView V :=
  { own := fun o k => (mv.own o k).map (absProp undef), ext := mv.ext }

/-- `valueProperty.isWritable` value.go:509 -/
def VProp.isWritable {V} (p : VProp V) : Bool := p.writable || p.setterFunc.isSome

/-- `prop.set(this, v)` value.go:526 on the property stored in object `o` under `k`. -/
def VProp.setAct {V} (p : VProp V) (o : Nat) (k : Key) (this : Recv) (v : V) : Act (Stored V) V :=
  match p.setterFunc with
  | none => .write o k (.prop { p with value := some v }) false
  | some f => .call f this v

/-- `o.defineOwnPropertyStr/Sym(name, descr, throw)` (object.go:753 / :770) as an action. -/
def defineAct {V} [DecidableEq V] (undef : V) (mv : MView V) (o : Nat) (k : Key) (d : Desc V) :
    Act (Stored V) V :=
  match defineOwn undef (mv.own o k) d (mv.ext o) with
  | some s => .write o k s (mv.own o k).isNone
  | none => .fail

def descValue {V} (v : V) : Desc V :=
  { value := some v, writable := .notSet, enumerable := .notSet, configurable := .notSet, getter := none, setter := none }
def descFull {V} (v : V) : Desc V :=
  { value := some v, writable := .fTrue, enumerable := .fTrue, configurable := .fTrue, getter := none, setter := none }

/-- The tail of `Object.setStr/setIdx/setSym` after `setForeign*` returned `handled = false`
(object.go:1479-1503, 1537-1561, 1573-1597 — transcribed once per copy below). -/
def recvDefine {V} [DecidableEq V] (undef : V) (mv : MView V) (k : Key) (v : V) (receiver : Recv) :
    Act (Stored V) V :=
  match receiver with
  | .obj robj =>
    match mv.own robj k with
    | some (.prop desc) =>
      if desc.accessor then .fail
      else if !desc.writable then .fail
      else defineAct undef mv robj k (descValue v)
    | some (.plain _) => defineAct undef mv robj k (descValue v)
    | none => defineAct undef mv robj k (descFull v)
  | .prim => .fail

/-! ### copy 1: string keys (object.go:473 setOwnStr, :547 _setForeignStr, :593 setForeignStr, :1473 Object.setStr).
`chain = o :: (prototype chain of o)`; `none` from `setForeign*` = `(false, false)` (not handled). -/
mutual
def setOwnStr {V} (mv : MView V) : List Nat → Key → V → Act (Stored V) V
  | [], _, _ => .fail
  | o :: rest, name, val =>
    match mv.own o name with
    | none =>                                                                       -- :475
      match setForeignStr mv rest name val (.obj o) with                            -- :476-481 (rest = [] ⇔ prototype == nil)
      | some res => res
      | none => if !mv.ext o then .fail else .write o name (.plain val) true        -- :483-490
    | some (.prop prop) =>                                                          -- :493
      if !prop.isWritable then .fail else prop.setAct o name (.obj o) val
    | some (.plain _) => .write o name (.plain val) false                           -- :501
def setForeignStr {V} (mv : MView V) : List Nat → Key → V → Recv → Option (Act (Stored V) V)
  | [], _, _, _ => none
  | o :: rest, name, val, receiver =>
    match mv.own o name with                                                        -- :594 prop = o.values[name]
    | some (.prop prop) =>                                                          -- :549
      if !prop.isWritable then some .fail                                           -- :550
      else match prop.setterFunc with                                               -- :554
        | some f => some (.call f receiver val)
        | none => none
    | some (.plain _) => none                                                       -- :567
    | none =>
      match rest with                                                               -- :560
      | [] => none
      | proto :: _ =>
        if receiver != .obj proto then setForeignStr mv rest name val receiver      -- :561
        else some (setOwnStr mv rest name val)                                      -- :564
end

def objSetStr {V} [DecidableEq V] (undef : V) (mv : MView V) (chain : List Nat) (name : Key) (val : V)
    (receiver : Recv) : Act (Stored V) V :=
  match chain with
  | [] => .fail
  | o :: _ =>
    if receiver == .obj o then setOwnStr mv chain name val                          -- :1474
    else match setForeignStr mv chain name val receiver with                        -- :1478
      | some res => res
      | none =>
        match receiver with
        | .obj robj =>
          match mv.own robj name with                                               -- :1480
          | some (.prop desc) =>
            if desc.accessor then .fail                                             -- :1482
            else if !desc.writable then .fail                                       -- :1486
            else defineAct undef mv robj name (descValue val)                 -- :1491
          | some (.plain _) => defineAct undef mv robj name (descValue val)
          | none => defineAct undef mv robj name (descFull val)               -- :1494
        | .prim => .fail                                                            -- :1502

/-! ### copy 3: symbol keys (object.go:510 setOwnSym, :607 setForeignSym, :1567 Object.setSym). -/
mutual
def setOwnSym {V} (mv : MView V) : List Nat → Key → V → Act (Stored V) V
  | [], _, _ => .fail
  | o :: rest, name, val =>
    match mv.own o name with                                                        -- :512 o.symValues.get(name)
    | none =>
      match setForeignSym mv rest name val (.obj o) with                            -- :516-520
      | some res => res
      | none => if !mv.ext o then .fail else .write o name (.plain val) true        -- :523-531
    | some (.prop prop) =>                                                          -- :534
      if !prop.isWritable then .fail else prop.setAct o name (.obj o) val
    | some (.plain _) => .write o name (.plain val) false                           -- :542
def setForeignSym {V} (mv : MView V) : List Nat → Key → V → Recv → Option (Act (Stored V) V)
  | [], _, _, _ => none
  | o :: rest, name, val, receiver =>
    match mv.own o name with                                                        -- :609
    | some (.prop prop) =>                                                          -- :613
      if !prop.isWritable then some .fail
      else match prop.setterFunc with                                               -- :618
        | some f => some (.call f receiver val)
        | none => none
    | some (.plain _) => none
    | none =>
      match rest with                                                               -- :624
      | [] => none
      | proto :: _ =>
        if receiver != .obj proto then setForeignSym mv rest name val receiver      -- :625 (was `receiver != o.val` before f4bc093)
        else some (setOwnSym mv rest name val)                                      -- :628
end

def objSetSym {V} [DecidableEq V] (undef : V) (mv : MView V) (chain : List Nat) (name : Key) (val : V)
    (receiver : Recv) : Act (Stored V) V :=
  match chain with
  | [] => .fail
  | o :: _ =>
    if receiver == .obj o then setOwnSym mv chain name val                          -- :1568
    else match setForeignSym mv chain name val receiver with                        -- :1572
      | some res => res
      | none =>
        match receiver with
        | .obj robj =>
          match mv.own robj name with                                               -- :1574
          | some (.prop desc) =>
            if desc.accessor then .fail
            else if !desc.writable then .fail
            else defineAct undef mv robj name (descValue val)                 -- :1585
          | some (.plain _) => defineAct undef mv robj name (descValue val)
          | none => defineAct undef mv robj name (descFull val)               -- :1588
        | .prim => .fail

/-- The symbol copy as it was BEFORE commit f4bc093 (`receiver != o.val` at object.go:625): kept only to state the
witness theorem `setForeignSym_prefix_witness`. -/
def setForeignSymPre {V} (mv : MView V) : List Nat → Key → V → Recv → Option (Act (Stored V) V)
  | [], _, _, _ => none
  | o :: rest, name, val, receiver =>
    match mv.own o name with
    | some (.prop prop) =>
      if !prop.isWritable then some .fail
      else match prop.setterFunc with
        | some f => some (.call f receiver val)
        | none => none
    | some (.plain _) => none
    | none =>
      match rest with
      | [] => none
      | _ :: _ =>
        if receiver != .obj o then setForeignSymPre mv rest name val receiver       -- the defect: compares with o.val
        else some (setOwnSym mv rest name val)

/-! ### copy 2: index keys (object.go:506 setOwnIdx, :570 _setForeignIdx, :597 setForeignIdx, :1531 Object.setIdx).
`baseObject.setOwnIdx` delegates to `o.val.self.setOwnStr(idx.string())`; `setForeignIdx` has a fast path when the
object has no index-named own property (`idxPropCount == 0` after `ensurePropOrder`). -/
def setOwnIdx {V} (mv : MView V) (chain : List Nat) (idx : Key) (val : V) : Act (Stored V) V :=
  setOwnStr mv chain idx val                                                        -- :507

def setForeignIdx {V} (mv : MView V) : List Nat → Key → V → Recv → Option (Act (Stored V) V)
  | [], _, _, _ => none
  | o :: rest, idx, val, receiver =>
    if mv.idxCount o == 0 then                                                      -- :598-600  (toIdx(name) valid for Key.idx)
      -- _setForeignIdx(name, nil, val, receiver, throw)  :601 → :582 (prop == nil branch)
      match rest with
      | [] => none
      | proto :: _ =>
        if receiver != .obj proto then setForeignIdx mv rest idx val receiver       -- :584
        else some (setOwnIdx mv rest idx val)                                       -- :587
    else setForeignStr mv (o :: rest) idx val receiver                              -- :604

def objSetIdx {V} [DecidableEq V] (undef : V) (mv : MView V) (chain : List Nat) (name : Key) (val : V)
    (receiver : Recv) : Act (Stored V) V :=
  match chain with
  | [] => .fail
  | o :: _ =>
    if receiver == .obj o then setOwnIdx mv chain name val                          -- :1532
    else match setForeignIdx mv chain name val receiver with                        -- :1536
      | some res => res
      | none =>
        match receiver with
        | .obj robj =>
          match mv.own robj name with                                               -- :1538
          | some (.prop desc) =>
            if desc.accessor then .fail
            else if !desc.writable then .fail
            else defineAct undef mv robj name (descValue val)                 -- :1549
          | some (.plain _) => defineAct undef mv robj name (descValue val)
          | none => defineAct undef mv robj name (descFull val)               -- :1552
        | .prim => .fail

/-- `Object.set` (object.go:1509): dispatch on the key kind. -/
def objSet {V} [DecidableEq V] (undef : V) (mv : MView V) (chain : List Nat) (k : Key) (val : V)
    (receiver : Recv) : Act (Stored V) V :=
  match k with
  | .idx _ => objSetIdx undef mv chain k val receiver
  | .sym _ => objSetSym undef mv chain k val receiver
  | .str _ => objSetStr undef mv chain k val receiver

/-! ### Spec: OrdinarySet / OrdinarySetWithOwnDescriptor (ECMA-262 10.1.9.1-2) over a prototype chain. -/

/-- Steps 2.b-2.e of OrdinarySetWithOwnDescriptor (ownDesc is a writable data descriptor). -/
def setData {V} [DecidableEq V] (undef : V) (sv : SView V) (k : Key) (v : V) (receiver : Recv) : Act (SProp V) V :=
  match receiver with
  | .prim => .fail                                                                  -- 2.b
  | .obj r =>
    match sv.own r k with                                                           -- 2.c
    | some (.acc ..) => .fail                                                       -- 2.d.i
    | some (.data v0 w e c) =>
      if !w then .fail                                                              -- 2.d.ii
      else match validateAndApply undef (some (.data v0 w e c)) (descValue v) (sv.ext r) with   -- 2.d.iv
        | some p => .write r k p false
        | none => .fail
    | none =>                                                                       -- 2.e CreateDataProperty
      match validateAndApply undef none (descFull v) (sv.ext r) with
      | some p => .write r k p true
      | none => .fail

def ordinarySet {V} [DecidableEq V] (undef : V) (sv : SView V) : List Nat → Key → V → Recv → Act (SProp V) V
  | [], k, v, receiver => setData undef sv k v receiver             -- parent is null: ownDesc := {undefined, w,e,c = true}
  | o :: rest, k, v, receiver =>
    match sv.own o k with
    | none => ordinarySet undef sv rest k v receiver                -- 1.b parent.[[Set]](P, V, Receiver)
    | some (.data _ w _ _) =>
      if !w then .fail else setData undef sv k v receiver           -- 2.a / 2.b-e
    | some (.acc _ s _ _) =>
      match s with                                                  -- 4-7
      | none => .fail
      | some f => .call f receiver v

/-! ## Part 3 — PropOrder

`baseObject.propNames` with the two counters, as three segments:
  `A = propNames[0 : idxPropCount]`, `B = propNames[idxPropCount : lastSortedPropLen]`, `C = propNames[lastSortedPropLen :]`.
Names are `Key.idx`/`Key.str` (a name is an array index iff `strToArrayIdx(name) != MaxUint32`). -/
structure PO where
  A : List Key
  B : List Key
  C : List Key
  deriving Repr

def PO.names (s : PO) : List Key := s.A ++ s.B ++ s.C
def PO.idxPropCount (s : PO) : Nat := s.A.length
def PO.lastSortedPropLen (s : PO) : Nat := s.A.length + s.B.length
def PO.empty : PO := { A := [], B := [], C := [] }

/-- `o.propNames = append(names, name)` (object.go:489, :759, :788) guarded by "not already a key of `values`". -/
def PO.add (s : PO) (n : Key) : PO :=
  if n ∈ s.names then s else { s with C := s.C ++ [n] }

/-- `_delete` (object.go:399): remove the first occurrence; `lastSortedPropLen--` if it was below it, `idxPropCount--`
if it was below that. -/
def PO.delete (s : PO) (n : Key) : PO :=
  if n ∈ s.A then { s with A := s.A.erase n }
  else if n ∈ s.B then { s with B := s.B.erase n }
  else { s with C := s.C.erase n }

/-- `sort.Search(idxPropCount, func(j) { strToArrayIdx(names[j]) >= idx })` + `copy(names[k+1:i+1], names[k:i]); names[k] = name`
(object.go:1328-1342) on the sorted index segment: insert before the first element whose index is ≥ idx. -/
def insertAsc (x : Key) : List Key → List Key
  | [] => [x]
  | a :: as => if a.idxVal < x.idxVal then a :: insertAsc x as else x :: a :: as

/-- The loop of `fixPropOrder` (object.go:1325-1346) over the unsorted tail. -/
def fixLoop (A B : List Key) : List Key → List Key × List Key
  | [] => (A, B)
  | name :: C =>
    if name.isIdx then fixLoop (insertAsc name A) B C       -- :1327-1344 (idxPropCount++)
    else fixLoop A (B ++ [name]) C                          -- stays where it is

/-- `ensurePropOrder` (object.go:1310) → `fixPropOrder` (:1323); `lastSortedPropLen = len(names)`. -/
def PO.ensure (s : PO) : PO :=
  match s.C with
  | [] => s
  | _ => let r := fixLoop s.A s.B s.C; { A := r.1, B := r.2, C := [] }

/-- Creation order ghost state: the spec's "ascending chronological order of property creation". -/
def createdAdd (l : List Key) (n : Key) : List Key := if n ∈ l then l else l ++ [n]
def createdDelete (l : List Key) (n : Key) : List Key := l.erase n

inductive POOp where
  | add (n : Key) | delete (n : Key) | ensure
  deriving Repr

def PO.step (s : PO) : POOp → PO
  | .add n => s.add n
  | .delete n => s.delete n
  | .ensure => s.ensure
def createdStep (l : List Key) : POOp → List Key
  | .add n => createdAdd l n
  | .delete n => createdDelete l n
  | .ensure => l
def PO.run (s : PO) (ops : List POOp) : PO := ops.foldl PO.step s
def createdRun (l : List Key) (ops : List POOp) : List Key := ops.foldl createdStep l

/-- Strictly ascending by array index. -/
def Asc (l : List Key) : Prop := l.Pairwise (fun a b => a.idxVal < b.idxVal)

/-! ## Part 4 — spec heap of ordinary objects, internal methods, integrity levels -/

def lookup {α} : List (Key × α) → Key → Option α
  | [], _ => none
  | (k', a) :: rest, k => if k' = k then some a else lookup rest k

/-- store: replace in place, or append (property creation order). -/
def put {α} : List (Key × α) → Key → α → List (Key × α)
  | [], k, a => [(k, a)]
  | (k', a') :: rest, k, a => if k' = k then (k, a) :: rest else (k', a') :: put rest k a

def eraseKey {α} : List (Key × α) → Key → List (Key × α)
  | [], _ => []
  | (k', a') :: rest, k => if k' = k then rest else (k', a') :: eraseKey rest k

structure Obj (V : Type) where
  proto : Option Nat
  ext : Bool
  props : List (Key × SProp V)
  deriving Repr

abbrev Heap (V : Type) := Nat → Obj V

def Heap.upd {V} (h : Heap V) (i : Nat) (o : Obj V) : Heap V := fun j => if j = i then o else h j

def Heap.view {V} (h : Heap V) : SView V :=
  { own := fun o k => lookup (h o).props k, ext := fun o => (h o).ext }

/-- `[o, proto o, proto (proto o), …]` (fuel-bounded; the driver passes the number of objects + 1). -/
def chainOf {V} (h : Heap V) : Nat → Nat → List Nat
  | 0, _ => []
  | fuel + 1, o => o :: (match (h o).proto with
                         | some p => chainOf h fuel p
                         | none => [])

/-- [[DefineOwnProperty]] (OrdinaryDefineOwnProperty 10.1.6.1). -/
def sDefine {V} [DecidableEq V] (undef : V) (h : Heap V) (o : Nat) (k : Key) (d : Desc V) : Heap V × Bool :=
  match validateAndApply undef (lookup (h o).props k) d (h o).ext with
  | some p => (h.upd o { (h o) with props := put (h o).props k p }, true)
  | none => (h, false)

/-- [[Delete]] (OrdinaryDelete 10.1.10.1). -/
def sDelete {V} (h : Heap V) (o : Nat) (k : Key) : Heap V × Bool :=
  match lookup (h o).props k with
  | none => (h, true)
  | some p => if p.configurable then (h.upd o { (h o) with props := eraseKey (h o).props k }, true) else (h, false)

inductive GetRes (V : Type) where
  | val (v : V)
  | call (f : V) (this : Recv)
  deriving Repr

/-- [[Get]] (OrdinaryGet 10.1.8.1) along the chain. -/
def sGet {V} (undef : V) (h : Heap V) : List Nat → Key → Recv → GetRes V
  | [], _, _ => .val undef
  | o :: rest, k, r =>
    match lookup (h o).props k with
    | none => sGet undef h rest k r
    | some (.data v _ _ _) => .val v
    | some (.acc g _ _ _) => match g with
      | none => .val undef
      | some f => .call f r

/-- [[HasProperty]] (OrdinaryHasProperty 10.1.7.1). -/
def sHas {V} (h : Heap V) : List Nat → Key → Bool
  | [], _ => false
  | o :: rest, k => (lookup (h o).props k).isSome || sHas h rest k

def applyAct {V} (h : Heap V) : Act (SProp V) V → Heap V
  | .write o k p _ => h.upd o { (h o) with props := put (h o).props k p }
  | _ => h

/-- [[Set]] — heap effect and result; the setter call (if any) is reported to the caller. -/
def sSet {V} [DecidableEq V] (undef : V) (h : Heap V) (chain : List Nat) (k : Key) (v : V) (r : Recv) :
    Heap V × Act (SProp V) V :=
  let a := ordinarySet undef h.view chain k v r
  (applyAct h a, a)

def insertNat (x : Nat) : List Nat → List Nat
  | [] => [x]
  | a :: as => if a < x then a :: insertNat x as else x :: a :: as
def sortNat (l : List Nat) : List Nat := l.foldr insertNat []

/-- [[OwnPropertyKeys]] (OrdinaryOwnPropertyKeys 10.1.11.1): indices ascending, strings then symbols in creation order. -/
def ownKeys {α} (props : List (Key × α)) : List Key :=
  let ks := props.map (·.1)
  (sortNat ((ks.filter Key.isIdx).map Key.idxVal)).map Key.idx
    ++ ks.filter (fun k => !k.isIdx && !k.isSym) ++ ks.filter Key.isSym

def sPreventExt {V} (h : Heap V) (o : Nat) : Heap V := h.upd o { (h o) with ext := false }

/-- [[SetPrototypeOf]] (OrdinarySetPrototypeOf 10.1.2.1). -/
def sSetProto {V} (h : Heap V) (fuel : Nat) (o : Nat) (p : Option Nat) : Heap V × Bool :=
  if (h o).proto = p then (h, true)
  else if !(h o).ext then (h, false)
  else match p with
    | none => (h.upd o { (h o) with proto := none }, true)
    | some q => if o ∈ chainOf h fuel q then (h, false) else (h.upd o { (h o) with proto := some q }, true)

def sealProp {V} : SProp V → SProp V
  | .data v w e _ => .data v w e false
  | .acc g s e _ => .acc g s e false
def freezeProp {V} : SProp V → SProp V
  | .data v _ e _ => .data v false e false
  | .acc g s e _ => .acc g s e false

/-- SetIntegrityLevel (7.3.15) on an ordinary object: always succeeds. -/
def sSetIntegrity {V} (h : Heap V) (o : Nat) (frozen : Bool) : Heap V :=
  h.upd o { (h o) with ext := false,
                       props := (h o).props.map (fun kp => (kp.1, if frozen then freezeProp kp.2 else sealProp kp.2)) }

/-- TestIntegrityLevel (7.3.16). -/
def sTestIntegrity {V} (o : Obj V) (frozen : Bool) : Bool :=
  !o.ext && o.props.all (fun kp => !kp.2.configurable && (!frozen || kp.2.isAcc || !kp.2.writable))

/-! ## Part 2b — [[Get]], [[HasProperty]], [[Delete]]: the three key-kind copies and their specs -/

/-- `valueProperty.get(this)` value.go:513 -/
def VProp.getRes {V} (p : VProp V) (undef : V) (this : Recv) : GetRes V :=
  match p.getterFunc with
  | none => (match p.value with
             | some v => .val v
             | none => .val undef)
  | some f => .call f this

/-- `baseObject.getStr` object.go:347 (`receiver == nil` ⇒ the caller passes `.obj o`; a nil result is `undefined`). -/
def getStr {V} (undef : V) (mv : MView V) : List Nat → Key → Recv → GetRes V
  | [], _, _ => .val undef                                          -- prop == nil && prototype == nil  :363
  | o :: rest, name, receiver =>
    match mv.own o name with                                        -- :348
    | none => getStr undef mv rest name receiver                    -- :349-355
    | some (.prop p) => p.getRes undef receiver                     -- :357-362
    | some (.plain v) => .val v                                     -- :363

/-- `baseObject.getSym` object.go:343 = `getWithOwnProp(getOwnPropSym(s), s, receiver)` :307 -/
def getSym {V} (undef : V) (mv : MView V) : List Nat → Key → Recv → GetRes V
  | [], _, _ => .val undef
  | o :: rest, s, receiver =>
    match mv.own o s with                                           -- :370 getOwnPropSym
    | none => getSym undef mv rest s receiver                       -- :308-313 o.prototype.get(p, receiver)
    | some (.prop p) => p.getRes undef receiver                     -- :314-319
    | some (.plain v) => .val v                                     -- :320

/-- `baseObject.getIdx` object.go:339: `o.val.self.getStr(idx.string(), receiver)` -/
def getIdx {V} (undef : V) (mv : MView V) (chain : List Nat) (idx : Key) (receiver : Recv) : GetRes V :=
  getStr undef mv chain idx receiver

/-- OrdinaryGet (10.1.8.1) over a view -/
def ordinaryGet {V} (undef : V) (sv : SView V) : List Nat → Key → Recv → GetRes V
  | [], _, _ => .val undef
  | o :: rest, k, r =>
    match sv.own o k with
    | none => ordinaryGet undef sv rest k r
    | some (.data v _ _ _) => .val v
    | some (.acc g _ _ _) => (match g with
      | none => .val undef
      | some f => .call f r)

/-- `hasPropertyStr` object.go:283 / `hasPropertySym` :297 / `hasPropertyIdx` :293 (→ Str) -/
def hasPropertyStr {V} (mv : MView V) : List Nat → Key → Bool
  | [], _ => false
  | o :: rest, name => (mv.own o name).isSome || hasPropertyStr mv rest name       -- :284-290
def hasPropertySym {V} (mv : MView V) : List Nat → Key → Bool
  | [], _ => false
  | o :: rest, s => (mv.own o s).isSome || hasPropertySym mv rest s                -- :298-304
def hasPropertyIdx {V} (mv : MView V) (chain : List Nat) (idx : Key) : Bool :=
  hasPropertyStr mv chain idx                                                       -- :294

/-- OrdinaryHasProperty (10.1.7.1) over a view -/
def ordinaryHas {V} (sv : SView V) : List Nat → Key → Bool
  | [], _ => false
  | o :: rest, k => (sv.own o k).isSome || ordinaryHas sv rest k

/-- outcome of [[Delete]]: result and whether the slot is removed -/
structure DelRes where
  ok : Bool
  erase : Bool
  deriving DecidableEq, Repr

/-- `checkDelete` object.go:392 / `checkDeleteProp` :381 -/
def checkDelete {V} : Stored V → Bool
  | .prop p => p.configurable
  | .plain _ => true

/-- `deleteStr` object.go:441 -/
def deleteStr {V} (mv : MView V) (o : Nat) (name : Key) : DelRes :=
  match mv.own o name with
  | some val => if !checkDelete val then ⟨false, false⟩ else ⟨true, true⟩     -- :443-446
  | none => ⟨true, false⟩                                                      -- :448
/-- `deleteSym` object.go:429 -/
def deleteSym {V} (mv : MView V) (o : Nat) (s : Key) : DelRes :=
  match mv.own o s with                                                        -- :431
  | some val => if !checkDelete val then ⟨false, false⟩ else ⟨true, true⟩     -- :432-435
  | none => ⟨true, false⟩
/-- `deleteIdx` object.go:425 -/
def deleteIdx {V} (mv : MView V) (o : Nat) (idx : Key) : DelRes := deleteStr mv o idx

/-- OrdinaryDelete (10.1.10.1) over a view -/
def ordinaryDelete {V} (sv : SView V) (o : Nat) (k : Key) : DelRes :=
  match sv.own o k with
  | none => ⟨true, false⟩
  | some p => if p.configurable then ⟨true, true⟩ else ⟨false, false⟩

/-! ### Snapshot monitor — the essential invariants (6.1.7.3) between two observed states of ONE object.
Used (a) as a theorem about every spec step, (b) on the implementation's dumps for object kinds that are not modelled. -/

structure Snap (V : Type) where
  proto : Option Nat
  ext : Bool
  keys : List Key                    -- as reported by Reflect.ownKeys
  props : List (Key × SProp V)       -- getOwnPropertyDescriptor for each reported key
  deriving Repr

/-- a non-configurable property may only lose [[Writable]]; a non-writable one keeps its value. -/
def frozenStep {V} [DecidableEq V] : SProp V → SProp V → Bool
  | .data v w e _, .data v' w' e' c' => !c' && e' == e && (w || (!w' && v' == v))
  | .acc g s e _, .acc g' s' e' c' => !c' && e' == e && g' == g && s' == s
  | _, _ => false

def keyClass : Key → Nat
  | .idx _ => 0
  | .str _ => 1
  | .sym _ => 2

/-- own keys ordered: indices ascending, then strings, then symbols. -/
def keysOrdered : List Key → Bool
  | [] => true
  | [_] => true
  | a :: b :: rest =>
    (keyClass a < keyClass b || (keyClass a == keyClass b && (!a.isIdx || a.idxVal < b.idxVal))) && keysOrdered (b :: rest)

def keysNodup : List Key → Bool
  | [] => true
  | a :: rest => !rest.contains a && keysNodup rest

/-- a single snapshot is internally consistent: keys unique, ordered, and exactly the keys that have descriptors. -/
def snapOk {V} (s : Snap V) : Bool :=
  keysNodup s.keys && keysOrdered s.keys && s.keys == s.props.map (·.1)

/-- the step from `s` to `s'` respects the invariants. -/
def monitorStep {V} [DecidableEq V] (s s' : Snap V) : Bool :=
  -- non-configurable properties stay, with frozen shape
  s.props.all (fun kp => kp.2.configurable ||
      (match lookup s'.props kp.1 with
       | some p' => frozenStep kp.2 p'
       | none => false))
  -- non-extensible: no new keys, same prototype, stays non-extensible
  && (s.ext || (!s'.ext && s'.proto == s.proto && s'.keys.all (fun k => s.keys.contains k)))

def Obj.snap {V} (o : Obj V) : Snap V :=
  let ks := ownKeys o.props
  { proto := o.proto, ext := o.ext, keys := ks,
    props := ks.filterMap (fun k => (lookup o.props k).map (fun p => (k, p))) }

end GojaModel.C04
