/-
  C04 — essential object invariants, every object kind × key kind.
  Executable model, CORE LEAN ONLY (linked into model_c04).

  Part 1  DefineOwn   : baseObject._defineOwnProperty (object.go:650, after fix d72dab1) transcribed line by line,
                        and the spec's ValidateAndApplyPropertyDescriptor (ECMA-262 10.1.6.3).
  Part 2  SetPath     : setOwn*/_setForeign*/setForeign*/Object.set* transcribed as THREE separate copies, and
                        OrdinarySet (10.1.9.1/2) with Receiver.
  Part 3  PropOrder   : propNames / lastSortedPropLen / idxPropCount / _delete / ensurePropOrder / fixPropOrder.
  Part 4  Spec heap   : ordinary objects, all internal methods, integrity levels, op histories, snapshot monitor.
-/
namespace GojaModel.C04

/-! ## Part 1 — DefineOwn -/

/-- `Flag` (value.go): FLAG_NOT_SET / FLAG_TRUE / FLAG_FALSE. -/
inductive Flag where
  | notSet | fTrue | fFalse
  deriving DecidableEq, Repr, Inhabited

/-- `Flag.Bool()` -/
def Flag.bool : Flag → Bool
  | .fTrue => true
  | _ => false

def Flag.isSet : Flag → Bool
  | .notSet => false
  | _ => true

/-- `PropertyDescriptor` (object.go:55).  `value = none` ⇔ `descr.Value == nil`.
`getter = none` ⇔ `descr.Getter == nil` (field absent); `some none` ⇔ `_undefined`; `some (some f)` ⇔ a callable object. -/
structure Desc (V : Type) where
  value : Option V
  writable : Flag
  enumerable : Flag
  configurable : Flag
  getter : Option (Option V)
  setter : Option (Option V)
  deriving Repr

/-- `valueProperty` (value.go:132). -/
structure VProp (V : Type) where
  value : Option V
  writable : Bool
  configurable : Bool
  enumerable : Bool
  accessor : Bool
  getterFunc : Option V
  setterFunc : Option V
  deriving Repr, DecidableEq

/-- What a slot of `baseObject.values` / `symValues` holds: a plain value (= writable, enumerable, configurable data
property) or a `*valueProperty`. -/
inductive Stored (V : Type) where
  | plain (v : V)
  | prop (p : VProp V)
  deriving Repr, DecidableEq

/-- `IsAccessor()` object.go:70 -/
def Desc.isAccessor {V} (d : Desc V) : Bool := d.setter.isSome || d.getter.isSome
/-- `IsData()` object.go:74 -/
def Desc.isData {V} (d : Desc V) : Bool := d.value.isSome || d.writable.isSet
def Desc.isGeneric {V} (d : Desc V) : Bool := !d.isAccessor && !d.isData

/-- A descriptor that `toPropertyDescriptor` (builtin_object.go:196) or the Go API (value.go:854-900) can produce:
never both accessor and data fields. -/
def Desc.wellFormed {V} (d : Desc V) : Bool := !(d.isAccessor && d.isData)

/-- `getterObj, _ := descr.Getter.(*Object)` object.go:652 — nil for an absent field AND for `_undefined`. -/
def objOf {V} (g : Option (Option V)) : Option V := g.bind id

/-- existing slot → the `*valueProperty` the function works on (object.go:657-671).  `none` = rejected as non-extensible. -/
def existingOf {V} (existingValue : Option (Stored V)) : VProp V :=
  match existingValue with
  | none => { value := none, writable := false, configurable := false, enumerable := false, accessor := false,
              getterFunc := none, setterFunc := none }                                    -- &valueProperty{}  :662
  | some (.prop p) => p                                                                   -- :664
  | some (.plain v) => { value := some v, writable := true, configurable := true, enumerable := true,
                         accessor := false, getterFunc := none, setterFunc := none }      -- :665-670

/-- The validation part object.go:673-702 for an EXISTING property: `true` = `goto Reject`. -/
def rejects {V} [DecidableEq V] (existing : VProp V) (descr : Desc V) : Bool :=
  let getterObj := objOf descr.getter
  let setterObj := objOf descr.setter
  -- :673-680
  if !existing.configurable && (descr.configurable == .fTrue ||
        (descr.enumerable.isSet && descr.enumerable.bool != existing.enumerable)) then true
  else if (existing.accessor && descr.isData) || (!existing.accessor && descr.isAccessor) then   -- :681
    !existing.configurable                                                                 -- :682
  else if !existing.accessor then                                                          -- :685
    !existing.configurable && !existing.writable &&
      (descr.writable == .fTrue ||                                                         -- :688
       (match descr.value with                                                             -- :691  !descr.Value.SameAs(existing.value)
        | some v => !(existing.value == some v)
        | none => false))
  else                                                                                     -- :696
    !existing.configurable &&
      ((descr.getter.isSome && existing.getterFunc != getterObj) ||
       (descr.setter.isSome && existing.setterFunc != setterObj))                          -- :698

/-- The application part object.go:705-758. -/
def applyDesc {V} (undef : V) (existing : VProp V) (descr : Desc V) : Stored V :=
  match descr.value, descr.writable == .fTrue && descr.enumerable == .fTrue && descr.configurable == .fTrue with
  | some v, true => .plain v                                                               -- :705-707
  | _, _ =>
    let e := existing
    let e := if descr.writable.isSet then { e with writable := descr.writable.bool } else e           -- :709
    let e := if descr.enumerable.isSet then { e with enumerable := descr.enumerable.bool } else e     -- :712
    let e := if descr.configurable.isSet then { e with configurable := descr.configurable.bool } else e -- :715
    let e := match descr.value with                                                                   -- :719
      | some v => { e with value := some v, getterFunc := none, setterFunc := none }
      | none => e
    let e :=                                                                                          -- :725
      if descr.value.isSome || descr.writable.isSet then
        if e.accessor then
          -- :726-733 accessor → data: the accessor functions go away, [[Writable]] defaults to false
          { e with accessor := false, getterFunc := none, setterFunc := none,
                   writable := if descr.writable.isSet then e.writable else false }
        else { e with accessor := false }                                                             -- :734
      else e
    let e :=                                                                                          -- :737-740 data → accessor has no [[Writable]]
      if (descr.getter.isSome || descr.setter.isSome) && !e.accessor then { e with writable := false } else e
    let e := match descr.getter with                                                                  -- :742  propGetter(undefined) = nil
      | some g => { e with getterFunc := g, value := none, accessor := true }
      | none => e
    let e := match descr.setter with                                                                  -- :748
      | some s => { e with setterFunc := s, value := none, accessor := true }
      | none => e
    let e := if !e.accessor && e.value.isNone then { e with value := some undef } else e              -- :754
    .prop e

/-- `baseObject._defineOwnProperty` (object.go:650): `none` = `(nil, false)`; `some s` = `(s, true)`. -/
def defineOwn {V} [DecidableEq V] (undef : V) (existingValue : Option (Stored V)) (descr : Desc V)
    (extensible : Bool) : Option (Stored V) :=
  match existingValue with
  | none =>
    if !extensible then none                                                               -- :658
    else some (applyDesc undef (existingOf none) descr)
  | some ev =>
    if rejects (existingOf (some ev)) descr then none
    else some (applyDesc undef (existingOf (some ev)) descr)

/-! ### regression only: `_defineOwnProperty` as it was BEFORE commit d72dab1 (kept for the `…_prefix_witness` theorems) -/

def rejectsPre {V} [DecidableEq V] (existing : VProp V) (descr : Desc V) : Bool :=
  let getterObj := objOf descr.getter
  let setterObj := objOf descr.setter
  if !existing.configurable && (descr.configurable == .fTrue ||
        (descr.enumerable.isSet && descr.enumerable.bool != existing.enumerable)) then true
  else if (existing.accessor && descr.value.isSome) || (!existing.accessor && (getterObj.isSome || setterObj.isSome)) then
    !existing.configurable          -- the defect: tested `descr.Value != nil` / `getterObj != nil || setterObj != nil`
  else if !existing.accessor then
    !existing.configurable && !existing.writable &&
      (descr.writable == .fTrue ||
       (match descr.value with
        | some v => !(existing.value == some v)
        | none => false))
  else
    !existing.configurable &&
      ((descr.getter.isSome && existing.getterFunc != getterObj) ||
       (descr.setter.isSome && existing.setterFunc != setterObj))

def applyDescPre {V} (undef : V) (existing : VProp V) (descr : Desc V) : Stored V :=
  match descr.value, descr.writable == .fTrue && descr.enumerable == .fTrue && descr.configurable == .fTrue with
  | some v, true => .plain v
  | _, _ =>
    let e := existing
    let e := if descr.writable.isSet then { e with writable := descr.writable.bool } else e
    let e := if descr.enumerable.isSet then { e with enumerable := descr.enumerable.bool } else e
    let e := if descr.configurable.isSet then { e with configurable := descr.configurable.bool } else e
    let e := match descr.value with
      | some v => { e with value := some v, getterFunc := none, setterFunc := none }
      | none => e
    let e := if descr.value.isSome || descr.writable.isSet then { e with accessor := false } else e   -- the defect: stale fields
    let e := match descr.getter with
      | some g => { e with getterFunc := g, value := none, accessor := true }
      | none => e
    let e := match descr.setter with
      | some s => { e with setterFunc := s, value := none, accessor := true }
      | none => e
    let e := if !e.accessor && e.value.isNone then { e with value := some undef } else e
    .prop e

def defineOwnPre {V} [DecidableEq V] (undef : V) (existingValue : Option (Stored V)) (descr : Desc V)
    (extensible : Bool) : Option (Stored V) :=
  match existingValue with
  | none => if !extensible then none else some (applyDescPre undef (existingOf none) descr)
  | some ev =>
    if rejectsPre (existingOf (some ev)) descr then none
    else some (applyDescPre undef (existingOf (some ev)) descr)

/-- Spec-level property (ECMA-262 6.1.7.1): data or accessor, fully populated. -/
inductive SProp (V : Type) where
  | data (value : V) (writable enumerable configurable : Bool)
  | acc (get set : Option V) (enumerable configurable : Bool)
  deriving Repr, DecidableEq

def SProp.configurable {V} : SProp V → Bool
  | .data _ _ _ c => c
  | .acc _ _ _ c => c
def SProp.enumerable {V} : SProp V → Bool
  | .data _ _ e _ => e
  | .acc _ _ e _ => e
def SProp.isAcc {V} : SProp V → Bool
  | .data .. => false
  | .acc .. => true
/-- [[Writable]] of a data property; an accessor has none (false). -/
def SProp.writable {V} : SProp V → Bool
  | .data _ w _ _ => w
  | .acc .. => false

def Flag.getD (f : Flag) (d : Bool) : Bool :=
  match f with
  | .notSet => d
  | .fTrue => true
  | .fFalse => false

/-- ValidateAndApplyPropertyDescriptor (ECMA-262 10.1.6.3) with O ≠ undefined, on the value of the slot:
`none` = return false; `some p` = return true with the slot holding `p` afterwards. -/
def validateAndApply {V} [DecidableEq V] (undef : V) (current : Option (SProp V)) (d : Desc V) (extensible : Bool) :
    Option (SProp V) :=
  match current with
  | none =>                                                                     -- step 2
    if !extensible then none                                                    -- 2.a
    else if d.isAccessor then                                                   -- 2.c
      some (.acc ((d.getter.getD none)) ((d.setter.getD none)) (d.enumerable.getD false) (d.configurable.getD false))
    else                                                                        -- 2.d
      some (.data (d.value.getD undef) (d.writable.getD false) (d.enumerable.getD false) (d.configurable.getD false))
  | some cur =>
    -- step 5: current.[[Configurable]] is false
    let bad : Bool :=
      !cur.configurable &&
        ( d.configurable == .fTrue                                                           -- 5.a
        || (d.enumerable.isSet && d.enumerable.bool != cur.enumerable)                       -- 5.b
        || (!d.isGeneric && (d.isAccessor != cur.isAcc))                                     -- 5.c
        || (match cur with
            | .acc g s _ _ =>                                                                -- 5.d
              (match d.getter with | some g' => g != g' | none => false) ||
              (match d.setter with | some s' => s != s' | none => false)
            | .data v w _ _ =>                                                               -- 5.e
              !w && (d.writable == .fTrue || (match d.value with | some v' => v != v' | none => false))))
    if bad then none
    else
      let e := d.enumerable.getD cur.enumerable
      let c := d.configurable.getD cur.configurable
      match cur with
      | .data v w _ _ =>
        if d.isAccessor then                                                                 -- 6.a
          some (.acc (d.getter.getD none) (d.setter.getD none) e c)
        else some (.data (d.value.getD v) (d.writable.getD w) e c)                           -- 6.c
      | .acc g s _ _ =>
        if d.isData then                                                                     -- 6.b
          some (.data (d.value.getD undef) (d.writable.getD false) e c)
        else some (.acc (d.getter.getD g) (d.setter.getD s) e c)                             -- 6.c

/-- Abstraction: what `valuePropToDescriptorObject` (builtin_object.go:31) shows for a stored slot. -/
def absProp {V} (undef : V) : Stored V → SProp V
  | .plain v => .data v true true true
  | .prop p =>
    if p.accessor then .acc p.getterFunc p.setterFunc p.enumerable p.configurable
    else .data (p.value.getD undef) p.writable p.enumerable p.configurable

/-- Representation invariant of a `*valueProperty`: an accessor has no [[Writable]] residue and no value; a data
property has no getter/setter residue and a non-nil value.  `isWritable()` (value.go:509), `get`, `set` rely on it. -/
def VProp.repInv {V} (p : VProp V) : Bool :=
  if p.accessor then !p.writable && p.value.isNone
  else p.getterFunc.isNone && p.setterFunc.isNone && p.value.isSome

def Stored.repInv {V} : Stored V → Bool
  | .plain _ => true
  | .prop p => p.repInv

end GojaModel.C04
