/-
  C04 — Go wrapper kind: `objectGoMapSimple` (object_gomap.go), the wrapper of a Go `map[string]interface{}`.
  The string-keyed own properties ARE the map's entries (integer keys reach them through `idx.string()`; symbol keys live
  in the ordinary `symValues` of the embedded baseObject and are not modelled here).  A value read back is
  `ToValue(Export(v))`: the model takes that round trip as an arbitrary function `conv : V → V` (bridge semantics: C13).

  The wrapper is NOT a refinement of an ordinary object (a new key defined with `{value: v}` is created writable,
  enumerable, configurable; `{enumerable: false}` / `{configurable: false}` are accepted and ignored; `{configurable: true}`
  is rejected) — so what is proved are the ESSENTIAL INVARIANTS (ECMA-262 6.1.7.3) themselves, for arbitrary histories, and
  that the Lean monitor the check runs on observed states (`monitorStep`, `keysNodup`) accepts every step of the mechanism.
  Transcribed text: `Tie2.lean` (`gm_*`, `host_checkPropertyDescr`).
-/
import GojaModel.C04.HistKeys
namespace GojaModel.C04
set_option linter.unusedSimpArgs false
set_option linter.unusedVariables false

variable {V : Type}

structure GMap (V : Type) where
  data : List (Key × V)          -- o.data (insertion order is irrelevant: Go map iteration order is not specified)
  proto : Option Nat
  ext : Bool

/-- the descriptor `getOwnPropStr` object_gomap.go:36 stands for: a bare value = writable, enumerable, configurable data -/
def GMap.getOwn (m : GMap V) (k : Key) : Option (SProp V) := (lookup m.data k).map (fun v => .data v true true true)

/-- `hasOwnPropertyStr` :87 / `_hasStr` :82 -/
def GMap.has (m : GMap V) (k : Key) : Bool := (lookup m.data k).isSome

/-- `checkHostObjectPropertyDescr` object_goreflect.go:356 -/
def hostDescrOk (d : Desc V) : Bool :=
  !(d.getter.isSome || d.setter.isSome) && !(d.writable == .fFalse) && !(d.configurable == .fTrue)

/-- `defineOwnPropertyStr` :91-110 -/
def GMap.define (conv : V → V) (undef : V) (m : GMap V) (k : Key) (d : Desc V) : GMap V × Bool :=
  if !hostDescrOk d then (m, false)                                                     -- :92-94
  else if m.ext || m.has k then                                                         -- :97
    match d.value with
    | none => if !m.has k then ({ m with data := put m.data k (conv undef) }, true)     -- :100-102 o.data[n] = nil
              else (m, true)                                                            -- :103
    | some v => ({ m with data := put m.data k (conv v) }, true)                        -- :105-106
  else (m, false)                                                                       -- :108-109

/-- `deleteStr` :112: `delete(o.data, name)`, always true -/
def GMap.delete (m : GMap V) (k : Key) : GMap V × Bool := ({ m with data := eraseKey m.data k }, true)

/-- `setOwnStr` :43-63.  `foreign` = what `proto.self.setForeignStr` answered (`some res` = handled by the chain) -/
def GMap.setOwn (conv : V → V) (m : GMap V) (k : Key) (v : V) (foreign : Option Bool) : GMap V × Bool :=
  if m.has k then ({ m with data := put m.data k (conv v) }, true)                      -- :45-48
  else match foreign with
    | some res => (m, res)                                                              -- :49-54
    | none =>
      if !m.ext then (m, false)                                                         -- :56-58
      else ({ m with data := put m.data k (conv v) }, true)                             -- :59-61

/-- `baseObject.preventExtensions` object.go (inherited) -/
def GMap.preventExt (m : GMap V) : GMap V := { m with ext := false }

/-- `baseObject.setProto` (inherited): refused on a non-extensible object unless it is the same prototype -/
def GMap.setProto (m : GMap V) (p : Option Nat) : GMap V × Bool :=
  if m.proto = p then (m, true) else if !m.ext then (m, false) else ({ m with proto := p }, true)

inductive GOp (V : Type) where
  | define (k : Key) (d : Desc V)
  | delete (k : Key)
  | set (k : Key) (v : V) (foreign : Option Bool)
  | preventExt
  | setProto (p : Option Nat)

def GMap.step (conv : V → V) (undef : V) (m : GMap V) : GOp V → GMap V
  | .define k d => (m.define conv undef k d).1
  | .delete k => (m.delete k).1
  | .set k v f => (m.setOwn conv k v f).1
  | .preventExt => m.preventExt
  | .setProto p => (m.setProto p).1

/-- what the harness observes: `stringKeys` (:153, every key of the map) and the descriptor of each -/
def GMap.snap (m : GMap V) : Snap V :=
  { proto := m.proto, ext := m.ext, keys := keysOf m.data, props := m.data.map (fun kv => (kv.1, SProp.data kv.2 true true true)) }

def GMap.WF (m : GMap V) : Prop := (keysOf m.data).Nodup

/-! ### per-operation facts -/

theorem keys_put_has {α} (l : List (Key × α)) (k : Key) (a : α) (h : (lookup l k).isSome = true) :
    keysOf (put l k a) = keysOf l := by
  rw [keys_put]; simp [(mem_keys_iff l k).mpr h]

/-- every own property is reported writable, enumerable, configurable data — always -/
theorem gm_getOwn_shape (m : GMap V) (k : Key) (p : SProp V) (h : m.getOwn k = some p) :
    ∃ v, p = .data v true true true := by
  unfold GMap.getOwn at h
  cases hl : lookup m.data k with
  | none => rw [hl] at h; cases h
  | some v => rw [hl] at h; exact ⟨v, by cases h; rfl⟩

theorem gm_step_wf (conv : V → V) (undef : V) (m : GMap V) (h : m.WF) (op : GOp V) : (m.step conv undef op).WF := by
  cases op with
  | define k d =>
    simp only [GMap.step, GMap.define]
    split
    · exact h
    · split
      · split
        · split
          · exact nodup_put _ _ _ h
          · exact h
        · exact nodup_put _ _ _ h
      · exact h
  | delete k =>
    simp only [GMap.step, GMap.delete, GMap.WF]
    rw [keys_erase]; exact List.Nodup.erase _ h
  | set k v f =>
    simp only [GMap.step, GMap.setOwn]
    split
    · exact nodup_put _ _ _ h
    · split
      · exact h
      · split
        · exact h
        · exact nodup_put _ _ _ h
  | preventExt => exact h
  | setProto p =>
    simp only [GMap.step, GMap.setProto]
    split
    · exact h
    · split
      · exact h
      · exact h

theorem gm_define_fields (conv : V → V) (undef : V) (m : GMap V) (k : Key) (d : Desc V) :
    (m.define conv undef k d).1.ext = m.ext ∧ (m.define conv undef k d).1.proto = m.proto := by
  unfold GMap.define
  repeat' split
  all_goals exact ⟨rfl, rfl⟩

theorem gm_setOwn_fields (conv : V → V) (m : GMap V) (k : Key) (v : V) (f : Option Bool) :
    (m.setOwn conv k v f).1.ext = m.ext ∧ (m.setOwn conv k v f).1.proto = m.proto := by
  unfold GMap.setOwn
  repeat' split
  all_goals exact ⟨rfl, rfl⟩

theorem gm_define_keys_nonext (conv : V → V) (undef : V) (m : GMap V) (hext : m.ext = false) (k : Key) (d : Desc V) :
    ∀ k', k' ∈ keysOf (m.define conv undef k d).1.data → k' ∈ keysOf m.data := by
  intro k' hk
  unfold GMap.define at hk
  split at hk
  · exact hk
  · split at hk
    · rename_i hc
      have hh : m.has k = true := by simpa [hext] using hc
      split at hk
      · split at hk
        · rename_i hn; simp [hh] at hn
        · exact hk
      · simp only at hk
        rwa [keys_put_has _ _ _ hh] at hk
    · exact hk

theorem gm_setOwn_keys_nonext (conv : V → V) (m : GMap V) (hext : m.ext = false) (k : Key) (v : V) (f : Option Bool) :
    ∀ k', k' ∈ keysOf (m.setOwn conv k v f).1.data → k' ∈ keysOf m.data := by
  intro k' hk
  unfold GMap.setOwn at hk
  split at hk
  · rename_i hh
    simp only at hk
    rwa [keys_put_has _ _ _ hh] at hk
  · split at hk
    · exact hk
    · split at hk
      · exact hk
      · rename_i hn; simp [hext] at hn

/-- a non-extensible wrapper: stays non-extensible, keeps its prototype, gains no key — one step -/
theorem gm_step_nonext (conv : V → V) (undef : V) (m : GMap V) (hext : m.ext = false) (op : GOp V) :
    (m.step conv undef op).ext = false ∧ (m.step conv undef op).proto = m.proto
    ∧ ∀ k, k ∈ keysOf (m.step conv undef op).data → k ∈ keysOf m.data := by
  cases op with
  | define k d =>
    obtain ⟨h1, h2⟩ := gm_define_fields conv undef m k d
    exact ⟨h1.trans hext, h2, gm_define_keys_nonext conv undef m hext k d⟩
  | delete k =>
    refine ⟨hext, rfl, fun k' hk => ?_⟩
    simp only [GMap.step, GMap.delete, keys_erase] at hk
    exact List.mem_of_mem_erase hk
  | set k v f =>
    obtain ⟨h1, h2⟩ := gm_setOwn_fields conv m k v f
    exact ⟨h1.trans hext, h2, gm_setOwn_keys_nonext conv m hext k v f⟩
  | preventExt => exact ⟨rfl, rfl, fun _ hk => hk⟩
  | setProto p =>
    simp only [GMap.step, GMap.setProto]
    split
    · exact ⟨hext, rfl, fun _ hk => hk⟩
    · split
      · exact ⟨hext, rfl, fun _ hk => hk⟩
      · rename_i hn; simp [hext] at hn

/-- [[Delete]] answers true and the key is gone -/
theorem gm_delete_absent (m : GMap V) (h : m.WF) (k : Key) :
    (m.delete k).2 = true ∧ (m.delete k).1.getOwn k = none := by
  refine ⟨rfl, ?_⟩
  simp only [GMap.delete, GMap.getOwn]
  cases hl : lookup (eraseKey m.data k) k with
  | none => rfl
  | some x =>
    exfalso
    have hm : k ∈ keysOf (eraseKey m.data k) := (mem_keys_iff _ _).mpr (by rw [hl]; rfl)
    rw [keys_erase] at hm
    exact (List.Nodup.mem_erase_iff h).mp hm |>.1 rfl

/-- [[DefineOwnProperty]] answering true leaves the property present; with a [[Value]] field it holds that value
(after the export round trip) -/
theorem gm_define_true (conv : V → V) (undef : V) (m : GMap V) (k : Key) (d : Desc V)
    (h : (m.define conv undef k d).2 = true) :
    ((m.define conv undef k d).1.has k = true)
    ∧ ∀ v, d.value = some v → (m.define conv undef k d).1.getOwn k = some (.data (conv v) true true true) := by
  unfold GMap.define at h ⊢
  split
  · rename_i hc; simp [hc] at h
  · split
    · rename_i hc
      cases hv : d.value with
      | none =>
        simp only
        cases hh : m.has k with
        | true => simp only [Bool.not_true, Bool.false_eq_true, if_false]; exact ⟨hh, fun v hv' => by cases hv'⟩
        | false =>
          simp only [Bool.not_false, if_true]
          exact ⟨by simp [GMap.has, lookup_put_same], fun v hv' => by cases hv'⟩
      | some v =>
        simp only
        refine ⟨by simp [GMap.has, lookup_put_same], fun v' hv' => ?_⟩
        cases hv'
        simp [GMap.getOwn, lookup_put_same]
    · rename_i hc1 hc2; simp [hc1, hc2] at h

/-! ### the monitor of the check accepts every step; the snapshot is always consistent -/

theorem gm_snap_consistent (m : GMap V) (h : m.WF) :
    keysNodup m.snap.keys = true ∧ m.snap.keys = m.snap.props.map (·.1) := by
  refine ⟨(keysNodup_iff _).mpr h, ?_⟩
  simp [GMap.snap, keysOf, List.map_map, Function.comp_def]

theorem gm_monitor_step [DecidableEq V] (conv : V → V) (undef : V) (m : GMap V) (op : GOp V) :
    monitorStep m.snap (m.step conv undef op).snap = true := by
  simp only [monitorStep, Bool.and_eq_true, List.all_eq_true, Bool.or_eq_true]
  constructor
  · intro kp hm
    simp only [GMap.snap, List.mem_map] at hm
    obtain ⟨kv, _, e⟩ := hm
    left; rw [← e]; rfl
  · cases hext : m.ext with
    | true => left; simp [GMap.snap, hext]
    | false =>
      right
      obtain ⟨h1, h2, h3⟩ := gm_step_nonext conv undef m hext op
      simp only [GMap.snap, h1, h2, Bool.not_false, Bool.true_and, beq_self_eq_true, Bool.and_eq_true, List.all_eq_true,
        List.contains_iff_mem, true_and]
      simpa using h3

/-! ### histories -/

theorem gm_run_wf (conv : V → V) (undef : V) (ops : List (GOp V)) :
    ∀ m : GMap V, m.WF → (ops.foldl (GMap.step conv undef) m).WF := by
  induction ops with
  | nil => intro m h; exact h
  | cons op rest ih => intro m h; exact ih _ (gm_step_wf conv undef m h op)

theorem gm_run_nonext (conv : V → V) (undef : V) (ops : List (GOp V)) :
    ∀ m : GMap V, m.ext = false →
      (ops.foldl (GMap.step conv undef) m).ext = false ∧ (ops.foldl (GMap.step conv undef) m).proto = m.proto
      ∧ ∀ k, k ∈ keysOf (ops.foldl (GMap.step conv undef) m).data → k ∈ keysOf m.data := by
  induction ops with
  | nil => intro m h; exact ⟨h, rfl, fun _ hk => hk⟩
  | cons op rest ih =>
    intro m h
    obtain ⟨h1, h2, h3⟩ := gm_step_nonext conv undef m h op
    obtain ⟨i1, i2, i3⟩ := ih _ h1
    exact ⟨i1, i2.trans h2, fun k hk => h3 k (i3 k hk)⟩

/-- the monitor accepts every consecutive pair of states along ANY history, and every state is a consistent snapshot -/
theorem gm_run_monitor [DecidableEq V] (conv : V → V) (undef : V) (ops : List (GOp V)) :
    ∀ m : GMap V, m.WF →
      ∀ (pre : List (GOp V)) (op : GOp V) (post : List (GOp V)), ops = pre ++ op :: post →
        monitorStep (pre.foldl (GMap.step conv undef) m).snap ((pre ++ [op]).foldl (GMap.step conv undef) m).snap = true
        ∧ keysNodup ((pre ++ [op]).foldl (GMap.step conv undef) m).snap.keys = true := by
  intro m h pre op post _
  rw [List.foldl_append]
  simp only [List.foldl_cons, List.foldl_nil]
  refine ⟨gm_monitor_step conv undef _ op, ?_⟩
  exact (gm_snap_consistent _ (gm_step_wf conv undef _ (gm_run_wf conv undef pre m h) op)).1

end GojaModel.C04
