/-
  C04 — String exotic object over ARBITRARY histories of [[DefineOwnProperty]] / [[Delete]]: it is, at every moment, the
  ordinary object materialised with its character-index properties; the character-index properties never change.
-/
import GojaModel.C04.Exotic
namespace GojaModel.C04
set_option linter.unusedSimpArgs false
set_option linter.unusedVariables false

variable {V : Type}

inductive StrOp (V : Type) where
  | define (k : Key) (d : Desc V)
  | delete (k : Key)

def StrOp.wf : StrOp V → Bool
  | .define _ d => d.wellFormed
  | .delete _ => true

/-- the String exotic object's own operation on its ordinary part -/
def strStep [DecidableEq V] (undef : V) (chars : List V) (base : Obj V) : StrOp V → Obj V
  | .define k d => (strDefine undef base chars k d).1
  | .delete k => (strDelete base chars k).1

/-- OrdinaryDefineOwnProperty / OrdinaryDelete on an ordinary object -/
def ordObjStep [DecidableEq V] (undef : V) (o : Obj V) : StrOp V → Obj V
  | .define k d =>
    (match validateAndApply undef (lookup o.props k) d o.ext with
     | some p => { o with props := put o.props k p }
     | none => o)
  | .delete k =>
    (match lookup o.props k with
     | none => o
     | some p => if p.configurable then { o with props := eraseKey o.props k } else o)

theorem str_step_refines [DecidableEq V] (undef : V) (chars : List V) (base : Obj V) (hb : NoCharIdx base chars)
    (op : StrOp V) (hw : op.wf = true) :
    strMat (strStep undef chars base op) chars = ordObjStep undef (strMat base chars) op
    ∧ NoCharIdx (strStep undef chars base op) chars := by
  cases op with
  | define k d =>
    obtain ⟨h1, h2⟩ := stringExotic_define_aux undef base chars hb k d (by simpa [StrOp.wf] using hw)
    refine ⟨?_, h2⟩
    have := congrArg Prod.fst h1
    simp only [strStep, ordObjStep]
    show strMat (strDefine undef base chars k d).1 chars = _
    have e : strMat (strDefine undef base chars k d).1 chars = (strMat (strDefine undef base chars k d).1 chars, (strDefine undef base chars k d).2).1 := rfl
    rw [e, ← this]
    cases validateAndApply undef (lookup (strMat base chars).props k) d (strMat base chars).ext <;> rfl
  | delete k =>
    obtain ⟨h1, h2⟩ := stringExotic_delete_aux base chars hb k
    refine ⟨?_, h2⟩
    have := congrArg Prod.fst h1
    simp only [strStep, ordObjStep]
    have e : strMat (strDelete base chars k).1 chars = (strMat (strDelete base chars k).1 chars, (strDelete base chars k).2).1 := rfl
    rw [e, ← this]
    cases lookup (strMat base chars).props k with
    | none => rfl
    | some p => cases hc : p.configurable <;> simp [hc]

/-- histories: the String exotic object after any sequence of defines/deletes, materialised, IS the materialised object
after the same ordinary operations -/
theorem str_run_refines [DecidableEq V] (undef : V) (chars : List V) (ops : List (StrOp V)) (hw : ∀ op ∈ ops, op.wf = true) :
    ∀ base : Obj V, NoCharIdx base chars →
      strMat (ops.foldl (strStep undef chars) base) chars = ops.foldl (ordObjStep undef) (strMat base chars)
      ∧ NoCharIdx (ops.foldl (strStep undef chars) base) chars := by
  induction ops with
  | nil => intro base hb; exact ⟨rfl, hb⟩
  | cons op rest ih =>
    intro base hb
    obtain ⟨h1, h2⟩ := str_step_refines undef chars base hb op (hw op List.mem_cons_self)
    have := ih (fun o ho => hw o (List.mem_cons_of_mem _ ho)) _ h2
    simp only [List.foldl_cons]
    rw [h1] at this
    exact this

/-- the character-index properties of a String exotic object are immutable: after any history, [[GetOwnProperty]] of a
character index answers `{value: the character, writable: false, enumerable: true, configurable: false}` -/
theorem str_chars_immutable [DecidableEq V] (undef : V) (chars : List V) (ops : List (StrOp V)) (hw : ∀ op ∈ ops, op.wf = true)
    (base : Obj V) (hb : NoCharIdx base chars) (n : Nat) (hn : n < chars.length) :
    strGetOwn (ops.foldl (strStep undef chars) base) chars (.idx n) = some (.data chars[n] false true false) := by
  have h := (str_run_refines undef chars ops hw base hb).2 n hn
  simp only [strGetOwn, h, strIndexDesc]
  simp [List.getElem?_eq_getElem hn]

end GojaModel.C04
