/-
  C04 — operation histories on the spec heap (Model.lean part 4) and the essential invariants over ARBITRARY histories.
  (Not imported by the driver.)
-/
import GojaModel.C04.Model
import GojaModel.C04.LemmasDefine2
namespace GojaModel.C04
set_option linter.unusedSimpArgs false
set_option linter.unusedVariables false

/-- The mutating internal-method alphabet of an ordinary-object heap. `set` carries the prototype chain the caller
walked (`chainOf h fuel o` in the driver); the theorems hold for ANY chain. -/
inductive SOp (V : Type) where
  | define (o : Nat) (k : Key) (d : Desc V)                   -- [[DefineOwnProperty]]
  | set (chain : List Nat) (k : Key) (v : V) (r : Recv)       -- [[Set]] with Receiver
  | delete (o : Nat) (k : Key)                                -- [[Delete]]
  | preventExt (o : Nat)                                      -- [[PreventExtensions]]
  | setProto (fuel : Nat) (o : Nat) (p : Option Nat)          -- [[SetPrototypeOf]]
  | integrity (o : Nat) (frozen : Bool)                       -- Object.freeze / Object.seal

def SOp.wf {V} : SOp V → Bool
  | .define _ _ d => d.wellFormed
  | _ => true

def sStep {V} [DecidableEq V] (undef : V) (h : Heap V) : SOp V → Heap V
  | .define o k d => (sDefine undef h o k d).1
  | .set c k v r => (sSet undef h c k v r).1
  | .delete o k => (sDelete h o k).1
  | .preventExt o => sPreventExt h o
  | .setProto f o p => (sSetProto h f o p).1
  | .integrity o fr => sSetIntegrity h o fr

def sRun {V} [DecidableEq V] (undef : V) (h : Heap V) (ops : List (SOp V)) : Heap V := ops.foldl (sStep undef) h

/-! ### association-list lemmas -/
theorem lookup_put_same {α} (l : List (Key × α)) (k : Key) (a : α) : lookup (put l k a) k = some a := by
  induction l with
  | nil => simp [put, lookup]
  | cons x xs ih =>
    obtain ⟨k', a'⟩ := x
    by_cases h : k' = k <;> simp [put, lookup, h, ih]

theorem lookup_put_other {α} (l : List (Key × α)) (k k' : Key) (a : α) (hne : k' ≠ k) :
    lookup (put l k a) k' = lookup l k' := by
  induction l with
  | nil => simp [put, lookup, Ne.symm hne]
  | cons x xs ih =>
    obtain ⟨k0, a0⟩ := x
    by_cases h : k0 = k
    · subst h; simp [put, lookup, Ne.symm hne]
    · by_cases h2 : k0 = k'
      · subst h2; simp [put, lookup, h]
      · simp [put, lookup, h, h2, ih]

theorem lookup_erase_other {α} (l : List (Key × α)) (k k' : Key) (hne : k' ≠ k) :
    lookup (eraseKey l k) k' = lookup l k' := by
  induction l with
  | nil => simp [eraseKey, lookup]
  | cons x xs ih =>
    obtain ⟨k0, a0⟩ := x
    by_cases h : k0 = k
    · subst h; simp [eraseKey, lookup, Ne.symm hne]
    · by_cases h2 : k0 = k'
      · subst h2; simp [eraseKey, lookup, h]
      · simp [eraseKey, lookup, h, h2, ih]

theorem lookup_map {α β} (f : α → β) (l : List (Key × α)) (k : Key) :
    lookup (l.map (fun kp => (kp.1, f kp.2))) k = (lookup l k).map f := by
  induction l with
  | nil => simp [lookup]
  | cons x xs ih =>
    obtain ⟨k0, a0⟩ := x
    by_cases h : k0 = k <;> simp [lookup, h, ih]

theorem lookup_erase_isSome {α} (l : List (Key × α)) (k k' : Key) :
    (lookup (eraseKey l k) k').isSome = true → (lookup l k').isSome = true := by
  induction l with
  | nil => simp [eraseKey, lookup]
  | cons x xs ih =>
    obtain ⟨k0, a0⟩ := x
    by_cases h : k0 = k
    · subst h
      by_cases h2 : k0 = k' <;> simp [eraseKey, lookup, h2]
    · by_cases h2 : k0 = k' <;> simp [eraseKey, lookup, h, h2]
      exact ih

theorem upd_same {V} (h : Heap V) (i : Nat) (o : Obj V) : (h.upd i o) i = o := by simp [Heap.upd]
theorem upd_other {V} (h : Heap V) (i j : Nat) (o : Obj V) (hne : j ≠ i) : (h.upd i o) j = h j := by
  simp [Heap.upd, hne]

/-! ### `frozenStep` is a preorder on non-configurable properties -/
theorem frozenStep_refl {V} [DecidableEq V] (p : SProp V) (hc : p.configurable = false) : frozenStep p p = true := by
  cases p <;> simp_all [frozenStep, SProp.configurable]

theorem frozenStep_nonconfig {V} [DecidableEq V] (p q : SProp V) (h : frozenStep p q = true) : q.configurable = false := by
  cases p <;> cases q <;> simp_all [frozenStep, SProp.configurable]

theorem frozenStep_trans {V} [DecidableEq V] (p q r : SProp V) (h1 : frozenStep p q = true) (h2 : frozenStep q r = true) :
    frozenStep p r = true := by
  cases p with
  | data v w e c =>
    cases q with
    | acc => simp [frozenStep] at h1
    | data v' w' e' c' =>
      cases r with
      | acc => simp [frozenStep] at h2
      | data v'' w'' e'' c'' =>
        simp only [frozenStep, Bool.and_eq_true, Bool.or_eq_true, Bool.not_eq_true', beq_iff_eq] at h1 h2 ⊢
        obtain ⟨⟨hc1, he1⟩, hw1⟩ := h1
        obtain ⟨⟨hc2, he2⟩, hw2⟩ := h2
        refine ⟨⟨hc2, by rw [he2, he1]⟩, ?_⟩
        cases w with
        | true => exact Or.inl rfl
        | false =>
          right
          rcases hw1 with h | ⟨hw', hv'⟩
          · cases h
          · subst hw'
            rcases hw2 with h | ⟨hw'', hv''⟩
            · cases h
            · exact ⟨hw'', by rw [hv'', hv']⟩
  | acc g s e c =>
    cases q with
    | data => simp [frozenStep] at h1
    | acc g' s' e' c' =>
      cases r with
      | data => simp [frozenStep] at h2
      | acc g'' s'' e'' c'' =>
        simp only [frozenStep, Bool.and_eq_true, Bool.not_eq_true', beq_iff_eq] at h1 h2 ⊢
        obtain ⟨⟨⟨hc1, he1⟩, hg1⟩, hs1⟩ := h1
        obtain ⟨⟨⟨hc2, he2⟩, hg2⟩, hs2⟩ := h2
        exact ⟨⟨⟨hc2, by rw [he2, he1]⟩, by rw [hg2, hg1]⟩, by rw [hs2, hs1]⟩

/-- ValidateAndApply on a non-configurable property (slot-level fact, proved by exhaustive case analysis). -/
theorem vaa_frozen {V} [DecidableEq V] (undef : V) (p p' : SProp V) (d : Desc V) (ext : Bool)
    (hw : d.wellFormed = true) (hc : p.configurable = false)
    (h : validateAndApply undef (some p) d ext = some p') : frozenStep p p' = true := by
  obtain ⟨v, w, e, c, g, s⟩ := d
  cases p with
  | data pv pw pe pc =>
    simp [SProp.configurable] at hc; subst hc
    cases g <;> cases s <;> cases v <;> cases w <;>
      simp [Desc.wellFormed, Desc.isAccessor, Desc.isData, Flag.isSet] at hw <;>
      cases e <;> cases c <;> cases pw <;> cases pe <;>
      simp [validateAndApply, Desc.isAccessor, Desc.isData, Desc.isGeneric, Flag.isSet, Flag.bool, Flag.getD,
        SProp.configurable, SProp.enumerable, SProp.isAcc] at h <;>
      (try (obtain ⟨h1, h2⟩ := h)) <;> (try subst h) <;> (try subst h2) <;> simp_all [frozenStep]
  | acc pg ps pe pc =>
    simp [SProp.configurable] at hc; subst hc
    cases g <;> cases s <;> cases v <;> cases w <;>
      simp [Desc.wellFormed, Desc.isAccessor, Desc.isData, Flag.isSet] at hw <;>
      cases e <;> cases c <;> cases pe <;>
      simp [validateAndApply, Desc.isAccessor, Desc.isData, Desc.isGeneric, Flag.isSet, Flag.bool, Flag.getD,
        SProp.configurable, SProp.enumerable, SProp.isAcc] at h <;>
      (try (obtain ⟨h1, h2⟩ := h)) <;> (try subst h) <;> (try subst h2) <;> simp_all [frozenStep]

/-! ### what a [[Set]] can write: only the result of ValidateAndApply on the receiver's own slot -/
theorem setData_write {V} [DecidableEq V] (undef : V) (sv : SView V) (k : Key) (v : V) (r : Recv)
    (o' : Nat) (k' : Key) (q : SProp V) (n : Bool) (h : setData undef sv k v r = .write o' k' q n) :
    k' = k ∧ r = .obj o' ∧ ∃ d : Desc V, d.wellFormed = true ∧ validateAndApply undef (sv.own o' k) d (sv.ext o') = some q := by
  cases r with
  | prim => simp [setData] at h
  | obj ro =>
    simp only [setData] at h
    cases hown : sv.own ro k with
    | none =>
      rw [hown] at h
      simp only at h
      cases hv : validateAndApply undef none (descFull v) (sv.ext ro) with
      | none => rw [hv] at h; simp at h
      | some p =>
        rw [hv] at h
        simp only [Act.write.injEq] at h
        obtain ⟨h1, h2, h3, _⟩ := h
        subst h1; subst h2; subst h3
        exact ⟨rfl, rfl, descFull v, by simp [descFull, Desc.wellFormed, Desc.isAccessor], by rw [hown]; exact hv⟩
    | some cur =>
      rw [hown] at h
      cases cur with
      | acc g s e c => simp at h
      | data v0 w e c =>
        simp only at h
        cases w with
        | false => simp at h
        | true =>
          simp only [Bool.not_true, Bool.false_eq_true, if_false] at h
          cases hv : validateAndApply undef (some (SProp.data v0 true e c)) (descValue v) (sv.ext ro) with
          | none => rw [hv] at h; simp at h
          | some p =>
            rw [hv] at h
            simp only [Act.write.injEq] at h
            obtain ⟨h1, h2, h3, _⟩ := h
            subst h1; subst h2; subst h3
            exact ⟨rfl, rfl, descValue v, by simp [descValue, Desc.wellFormed, Desc.isAccessor], by rw [hown]; exact hv⟩

theorem ordinarySet_write {V} [DecidableEq V] (undef : V) (sv : SView V) (k : Key) (v : V) (r : Recv)
    (o' : Nat) (k' : Key) (q : SProp V) (n : Bool) :
    ∀ chain, ordinarySet undef sv chain k v r = .write o' k' q n →
      k' = k ∧ r = .obj o' ∧ ∃ d : Desc V, d.wellFormed = true ∧ validateAndApply undef (sv.own o' k) d (sv.ext o') = some q := by
  intro chain
  induction chain with
  | nil => intro h; exact setData_write undef sv k v r o' k' q n (by simpa [ordinarySet] using h)
  | cons o rest ih =>
    intro h
    simp only [ordinarySet] at h
    cases hown : sv.own o k with
    | none => rw [hown] at h; exact ih h
    | some cur =>
      rw [hown] at h
      cases cur with
      | data v0 w e c =>
        cases w with
        | false => simp at h
        | true =>
          simp only [Bool.not_true, Bool.false_eq_true, if_false] at h
          exact setData_write undef sv k v r o' k' q n h
      | acc g s e c =>
        cases s <;> simp at h

theorem sSetProto_props {V} (h : Heap V) (f o' : Nat) (pr : Option Nat) (o : Nat) :
    ((sSetProto h f o' pr).1 o).props = (h o).props := by
  unfold sSetProto
  split
  · rfl
  · split
    · rfl
    · cases pr with
      | none => by_cases ho : o = o' <;> simp [Heap.upd, ho]
      | some q =>
        simp only
        split
        · rfl
        · by_cases ho : o = o' <;> simp [Heap.upd, ho]

/-! ### one step keeps every non-configurable property, with frozen shape -/
theorem write_frozen {V} [DecidableEq V] (undef : V) (h : Heap V) (o k) (p : SProp V)
    (hl : lookup (h o).props k = some p) (hc : p.configurable = false)
    (o' : Nat) (k' : Key) (q : SProp V) (d : Desc V) (hw : d.wellFormed = true)
    (hv : validateAndApply undef (lookup (h o').props k') d (h o').ext = some q) :
    ∃ p', lookup ((h.upd o' { (h o') with props := put (h o').props k' q }) o).props k = some p' ∧ frozenStep p p' = true := by
  by_cases ho : o = o'
  · subst ho
    rw [upd_same]
    by_cases hk : k = k'
    · subst hk
      refine ⟨q, lookup_put_same _ _ _, ?_⟩
      rw [hl] at hv
      exact vaa_frozen undef p q d _ hw hc hv
    · exact ⟨p, by simp only; rw [lookup_put_other _ _ _ _ hk]; exact hl, frozenStep_refl p hc⟩
  · rw [upd_other _ _ _ _ ho]
    exact ⟨p, hl, frozenStep_refl p hc⟩

theorem step_frozen {V} [DecidableEq V] (undef : V) (h : Heap V) (op : SOp V) (hwf : op.wf = true) (o : Nat) (k : Key)
    (p : SProp V) (hl : lookup (h o).props k = some p) (hc : p.configurable = false) :
    ∃ p', lookup ((sStep undef h op) o).props k = some p' ∧ frozenStep p p' = true := by
  cases op with
  | define o' k' d =>
    simp only [sStep, sDefine]
    cases hv : validateAndApply undef (lookup (h o').props k') d (h o').ext with
    | none => exact ⟨p, hl, frozenStep_refl p hc⟩
    | some q => exact write_frozen undef h o k p hl hc o' k' q d (by simpa [SOp.wf] using hwf) hv
  | set chain k0 v r =>
    simp only [sStep, sSet]
    cases ha : ordinarySet undef h.view chain k0 v r with
    | fail => exact ⟨p, hl, frozenStep_refl p hc⟩
    | call f t a => exact ⟨p, hl, frozenStep_refl p hc⟩
    | write o' k' q n =>
      obtain ⟨hk, _, d, hw, hv⟩ := ordinarySet_write undef h.view k0 v r o' k' q n chain ha
      subst hk
      simp only [applyAct]
      exact write_frozen undef h o k p hl hc o' k' q d hw (by simpa [Heap.view] using hv)
  | delete o' k' =>
    simp only [sStep, sDelete]
    cases hq : lookup (h o').props k' with
    | none => exact ⟨p, hl, frozenStep_refl p hc⟩
    | some q =>
      by_cases hqc : q.configurable = true
      · simp only [hqc, if_true]
        by_cases ho : o = o'
        · subst ho
          rw [upd_same]
          by_cases hk : k = k'
          · subst hk; rw [hl] at hq; cases hq; rw [hc] at hqc; cases hqc
          · exact ⟨p, by simp only; rw [lookup_erase_other _ _ _ hk]; exact hl, frozenStep_refl p hc⟩
        · rw [upd_other _ _ _ _ ho]; exact ⟨p, hl, frozenStep_refl p hc⟩
      · simp only [hqc, Bool.false_eq_true, if_false]
        exact ⟨p, hl, frozenStep_refl p hc⟩
  | preventExt o' =>
    simp only [sStep, sPreventExt]
    by_cases ho : o = o'
    · subst ho; rw [upd_same]; exact ⟨p, hl, frozenStep_refl p hc⟩
    · rw [upd_other _ _ _ _ ho]; exact ⟨p, hl, frozenStep_refl p hc⟩
  | setProto f o' pr =>
    simp only [sStep]
    rw [sSetProto_props]
    exact ⟨p, hl, frozenStep_refl p hc⟩
  | integrity o' fr =>
    simp only [sStep, sSetIntegrity]
    by_cases ho : o = o'
    · subst ho
      rw [upd_same]
      simp only
      rw [lookup_map (fun q => if fr then freezeProp q else sealProp q), hl]
      refine ⟨_, rfl, ?_⟩
      cases p <;> cases fr <;> simp_all [frozenStep, freezeProp, sealProp, SProp.configurable]
    · rw [upd_other _ _ _ _ ho]; exact ⟨p, hl, frozenStep_refl p hc⟩

theorem run_frozen {V} [DecidableEq V] (undef : V) (ops : List (SOp V)) :
    ∀ (h : Heap V) (hwf : ∀ op ∈ ops, op.wf = true) (o : Nat) (k : Key) (p : SProp V),
      lookup (h o).props k = some p → p.configurable = false →
      ∃ p', lookup ((sRun undef h ops) o).props k = some p' ∧ frozenStep p p' = true := by
  induction ops with
  | nil => intro h _ o k p hl hc; exact ⟨p, hl, frozenStep_refl p hc⟩
  | cons op ops ih =>
    intro h hwf o k p hl hc
    obtain ⟨p1, hl1, hf1⟩ := step_frozen undef h op (hwf op (List.mem_cons_self)) o k p hl hc
    obtain ⟨p2, hl2, hf2⟩ := ih (sStep undef h op) (fun op' hm => hwf op' (List.mem_cons_of_mem _ hm)) o k p1 hl1
      (frozenStep_nonconfig p p1 hf1)
    exact ⟨p2, by simpa [sRun] using hl2, frozenStep_trans p p1 p2 hf1 hf2⟩

/-! ### non-extensible objects: no new keys, fixed prototype, stays non-extensible -/

theorem lookup_put_isSome {α} (l : List (Key × α)) (k k' : Key) (a : α) (hk : (lookup l k).isSome = true) :
    (lookup (put l k a) k').isSome = true → (lookup l k').isSome = true := by
  by_cases h : k' = k
  · subst h; intro _; exact hk
  · rw [lookup_put_other _ _ _ _ h]; exact id

/-- the facts about object `o` that a non-extensible object keeps -/
def NonExtKeeps {V} (h h' : Heap V) (o : Nat) : Prop :=
  (h' o).ext = false ∧ (h' o).proto = (h o).proto ∧ ∀ k, (lookup (h' o).props k).isSome = true → (lookup (h o).props k).isSome = true

theorem nonExtKeeps_refl {V} (h : Heap V) (o : Nat) (he : (h o).ext = false) : NonExtKeeps h h o :=
  ⟨he, rfl, fun _ hk => hk⟩

theorem write_nonext {V} [DecidableEq V] (undef : V) (h : Heap V) (o : Nat) (he : (h o).ext = false)
    (o' : Nat) (k' : Key) (q : SProp V) (d : Desc V)
    (hv : validateAndApply undef (lookup (h o').props k') d (h o').ext = some q) :
    NonExtKeeps h (h.upd o' { (h o') with props := put (h o').props k' q }) o := by
  by_cases ho : o = o'
  · subst ho
    rw [NonExtKeeps, upd_same]
    refine ⟨he, rfl, ?_⟩
    intro k
    cases hcur : lookup (h o).props k' with
    | none => rw [hcur, he] at hv; simp [validateAndApply] at hv
    | some c => exact lookup_put_isSome _ _ _ _ (by simp [hcur])
  · rw [NonExtKeeps, upd_other _ _ _ _ ho]; exact nonExtKeeps_refl h o he

theorem step_nonext {V} [DecidableEq V] (undef : V) (h : Heap V) (op : SOp V) (o : Nat) (he : (h o).ext = false) :
    NonExtKeeps h (sStep undef h op) o := by
  cases op with
  | define o' k' d =>
    simp only [sStep, sDefine]
    cases hv : validateAndApply undef (lookup (h o').props k') d (h o').ext with
    | none => exact nonExtKeeps_refl h o he
    | some q => exact write_nonext undef h o he o' k' q d hv
  | set chain k0 v r =>
    simp only [sStep, sSet]
    cases ha : ordinarySet undef h.view chain k0 v r with
    | fail => exact nonExtKeeps_refl h o he
    | call f t a => exact nonExtKeeps_refl h o he
    | write o' k' q n =>
      obtain ⟨hk, _, d, hw, hv⟩ := ordinarySet_write undef h.view k0 v r o' k' q n chain ha
      subst hk
      simp only [applyAct]
      exact write_nonext undef h o he o' k' q d (by simpa [Heap.view] using hv)
  | delete o' k' =>
    simp only [sStep, sDelete]
    cases hq : lookup (h o').props k' with
    | none => exact nonExtKeeps_refl h o he
    | some q =>
      by_cases hqc : q.configurable = true
      · simp only [hqc, if_true]
        by_cases ho : o = o'
        · subst ho
          rw [NonExtKeeps, upd_same]
          exact ⟨he, rfl, fun k => lookup_erase_isSome _ _ _⟩
        · rw [NonExtKeeps, upd_other _ _ _ _ ho]; exact nonExtKeeps_refl h o he
      · simp only [hqc, Bool.false_eq_true, if_false]
        exact nonExtKeeps_refl h o he
  | preventExt o' =>
    simp only [sStep, sPreventExt]
    by_cases ho : o = o'
    · subst ho; rw [NonExtKeeps, upd_same]; exact ⟨rfl, rfl, fun _ hk => hk⟩
    · rw [NonExtKeeps, upd_other _ _ _ _ ho]; exact nonExtKeeps_refl h o he
  | setProto f o' pr =>
    simp only [sStep, sSetProto]
    split
    · exact nonExtKeeps_refl h o he
    · split
      · exact nonExtKeeps_refl h o he
      · rename_i hne hext
        have ho : o ≠ o' := by
          intro heq; subst heq; rw [he] at hext; simp at hext
        cases pr with
        | none => simp only; rw [NonExtKeeps, upd_other _ _ _ _ ho]; exact nonExtKeeps_refl h o he
        | some q =>
          simp only
          split
          · exact nonExtKeeps_refl h o he
          · show NonExtKeeps h (h.upd o' _) o
            rw [NonExtKeeps, upd_other _ _ _ _ ho]; exact nonExtKeeps_refl h o he
  | integrity o' fr =>
    simp only [sStep, sSetIntegrity]
    by_cases ho : o = o'
    · subst ho
      rw [NonExtKeeps, upd_same]
      refine ⟨rfl, rfl, ?_⟩
      intro k
      simp only
      rw [lookup_map (fun q => if fr then freezeProp q else sealProp q)]
      cases lookup (h o).props k <;> simp
    · rw [NonExtKeeps, upd_other _ _ _ _ ho]; exact nonExtKeeps_refl h o he

theorem run_nonext {V} [DecidableEq V] (undef : V) (ops : List (SOp V)) :
    ∀ (h : Heap V) (o : Nat), (h o).ext = false → NonExtKeeps h (sRun undef h ops) o := by
  induction ops with
  | nil => intro h o he; exact nonExtKeeps_refl h o he
  | cons op ops ih =>
    intro h o he
    obtain ⟨he1, hp1, hk1⟩ := step_nonext undef h op o he
    obtain ⟨he2, hp2, hk2⟩ := ih (sStep undef h op) o he1
    exact ⟨by simpa [sRun] using he2, by simpa [sRun] using hp2.trans hp1, fun k hk => hk1 k (hk2 k (by simpa [sRun] using hk))⟩

/-! ### integrity levels (7.3.15 SetIntegrityLevel, 7.3.16 TestIntegrityLevel) -/

/-- The descriptor SetIntegrityLevel passes to DefinePropertyOrThrow for a property currently described by `p`. -/
def integrityDesc {V} (frozen : Bool) (p : SProp V) : Desc V :=
  { value := none, writable := if frozen && !p.isAcc then .fFalse else .notSet, enumerable := .notSet,
    configurable := .fFalse, getter := none, setter := none }

theorem integrityDesc_wf {V} (frozen : Bool) (p : SProp V) : (integrityDesc frozen p).wellFormed = true := by
  simp [integrityDesc, Desc.wellFormed, Desc.isAccessor]

/-- each DefinePropertyOrThrow of SetIntegrityLevel succeeds on an ordinary object and yields `freezeProp`/`sealProp` -/
theorem integrity_prop_spec {V} [DecidableEq V] (undef : V) (frozen : Bool) (p : SProp V) (ext : Bool) :
    validateAndApply undef (some p) (integrityDesc frozen p) ext = some (if frozen then freezeProp p else sealProp p) := by
  cases p with
  | data v w e c => cases frozen <;> cases w <;> cases e <;> cases c <;>
      simp [validateAndApply, integrityDesc, freezeProp, sealProp, Desc.isAccessor, Desc.isData, Desc.isGeneric, Flag.isSet,
        Flag.bool, Flag.getD, SProp.configurable, SProp.enumerable, SProp.isAcc]
  | acc g s e c => cases frozen <;> cases e <;> cases c <;>
      simp [validateAndApply, integrityDesc, freezeProp, sealProp, Desc.isAccessor, Desc.isData, Desc.isGeneric, Flag.isSet,
        Flag.bool, Flag.getD, SProp.configurable, SProp.enumerable, SProp.isAcc]

theorem test_after_set {V} (h : Heap V) (o : Nat) (frozen : Bool) :
    sTestIntegrity ((sSetIntegrity h o frozen) o) frozen = true := by
  simp only [sSetIntegrity, upd_same, sTestIntegrity, Bool.not_false, Bool.true_and, List.all_map]
  apply List.all_eq_true.mpr
  intro kp _
  obtain ⟨k, p⟩ := kp
  cases p <;> cases frozen <;> simp [freezeProp, sealProp, SProp.configurable, SProp.isAcc, SProp.writable]

theorem frozen_is_sealed {V} (o : Obj V) (h : sTestIntegrity o true = true) : sTestIntegrity o false = true := by
  simp only [sTestIntegrity, Bool.and_eq_true, List.all_eq_true] at h ⊢
  refine ⟨h.1, ?_⟩
  intro kp hm
  have := h.2 kp hm
  exact ⟨this.1, by simp⟩

/-- TestIntegrityLevel says exactly what 7.3.16 says: not extensible, every property non-configurable and (for
"frozen") every data property non-writable. -/
theorem testIntegrity_iff {V} (o : Obj V) (frozen : Bool) :
    sTestIntegrity o frozen = true ↔
      (o.ext = false ∧ ∀ k p, (k, p) ∈ o.props → p.configurable = false ∧ (frozen = true → p.isAcc = false → p.writable = false)) := by
  simp only [sTestIntegrity, Bool.and_eq_true, List.all_eq_true, Bool.not_eq_true', Bool.or_eq_true]
  constructor
  · rintro ⟨he, hall⟩
    refine ⟨he, ?_⟩
    intro k p hm
    have := hall (k, p) hm
    refine ⟨this.1, ?_⟩
    intro hf ha
    rcases this.2 with (h1 | h1) | h1
    · rw [hf] at h1; cases h1
    · rw [ha] at h1; cases h1
    · exact h1
  · rintro ⟨he, hall⟩
    refine ⟨he, ?_⟩
    intro kp hm
    obtain ⟨k, p⟩ := kp
    have := hall k p hm
    refine ⟨this.1, ?_⟩
    cases hf : frozen with
    | false => exact Or.inl (Or.inl rfl)
    | true =>
      cases ha : p.isAcc with
      | true => exact Or.inl (Or.inr rfl)
      | false => exact Or.inr (this.2 hf ha)

end GojaModel.C04
