/-
  C04 supporting tie, second part (second deepening round) — regenerated statement skeletons of
    * `typedArrayObject.deleteStr/deleteIdx` (typedarrays.go, after 4b86f46: the error message is built only when `throw`),
    * `argumentsObject.stringKeys/iterateStringKeys`, `argumentsPropIter.next` (object_args.go, after 52d9686: a mapped slot
      with non-default flags is shown to the key enumeration as a property, not as a bare value),
    * every own-property method of the Go map wrapper `objectGoMapSimple` (object_gomap.go) and
      `Runtime.checkHostObjectPropertyDescr` — the text `GoMap.lean` transcribes,
  against the hand-written expectation.  A failing theorem names the function that drifted.
-/
import GojaModel.Generated.C04_KeyKindCopies
namespace GojaModel.C04.Tie2
open GojaModel.Generated.C04

namespace Expected
def ta_deleteStr : List String := [
  "idx, ok := strToIntNum(KEY)",
  "if ok",
  "if a.isValidIntegerIndex(idx)",
  "if throw",
  "panic(a.val.runtime.NewTypeError(\"Cannot delete property '%d' of %s\", idx, a.val.String()))",
  "end",
  "return false",
  "end",
  "return true",
  "end",
  "if idx == 0",
  "return true",
  "end",
  "return a.baseObject.delete(KEY, throw)"
]

def ta_deleteIdx : List String := [
  "if a.viewedArrayBuf.ensureNotDetached(false) && KEY >= 0 && int64(KEY) < int64(a.length)",
  "if throw",
  "panic(a.val.runtime.NewTypeError(\"Cannot delete property '%d' of %s\", KEY, a.val.String()))",
  "end",
  "return false",
  "end",
  "return true"
]

def args_stringKeys : List String := [
  "a.ensurePropOrder()",
  "for range a.propNames",
  "if !KEY",
  "typeswitch prop := a.values[k].(type)",
  "case *valueProperty",
  "if !prop.enumerable",
  "continue",
  "end",
  "case *mappedProperty",
  "if !prop.enumerable",
  "continue",
  "end",
  "end",
  "end",
  "accum = append(accum, stringValueFromRaw(k))",
  "end",
  "return accum"
]

def args_iterateStringKeys : List String := [
  "return (&argumentsPropIter{ wrapped: a.baseObject.iterateStringKeys(), }).next"
]

def args_propIterNext : List String := [
  "var item propIterItem",
  "item, i.wrapped = i.wrapped()",
  "if i.wrapped == nil",
  "return propIterItem{}, nil",
  "end",
  "prop, ok := item.value.(*mappedProperty)",
  "if ok",
  "if prop.writable && prop.enumerable && prop.configurable",
  "item.value = *prop.v",
  "else",
  "item.value = nil",
  "end",
  "end",
  "return item, i.next"
]

def gm_getStr0 : List String := [
  "v, exists := o.data[KEY]",
  "if !exists",
  "return nil",
  "end",
  "return o.val.runtime.ToValue(v)"
]

def gm_hasStr0 : List String := [
  "_, exists := o.data[KEY]",
  "return exists"
]

def gm_getStr : List String := [
  "v := o._get(KEY.String())",
  "if v != nil",
  "return v",
  "end",
  "return o.baseObject.get(KEY, receiver)"
]

def gm_getOwnPropStr : List String := [
  "v := o._get(KEY.String())",
  "if v != nil",
  "return v",
  "end",
  "return nil"
]

def gm_setOwnStr : List String := [
  "n := KEY.String()",
  "_, exists := o.data[n]",
  "if exists",
  "o.data[n] = val.Export()",
  "return true",
  "end",
  "proto := o.prototype",
  "if proto != nil",
  "res, ok := proto.self.setForeign(KEY, val, o.val, throw)",
  "if ok",
  "return res",
  "end",
  "end",
  "if !o.extensible",
  "typeErrorResult(throw)",
  "return false",
  "else",
  "o.data[n] = val.Export()",
  "end",
  "return true"
]

def gm_setForeignStr : List String := [
  "return o._setForeign(KEY, trueValIfPresent(o._has(KEY.String())), val, receiver, throw)"
]

def gm_setForeignIdx : List String := [
  "return o.setForeign(KEY.string(), val, receiver, throw)"
]

def gm_hasOwnPropertyStr : List String := [
  "return o._has(KEY.String())"
]

def gm_defineOwnPropertyStr : List String := [
  "if !o.val.runtime.checkHostObjectPropertyDescr(KEY, descr, throw)",
  "return false",
  "end",
  "n := KEY.String()",
  "if o.extensible || o._has(n)",
  "if descr.Value == nil",
  "if !o._has(n)",
  "o.data[n] = nil",
  "end",
  "return true",
  "end",
  "o.data[n] = descr.Value.Export()",
  "return true",
  "end",
  "typeErrorResult(throw)",
  "return false"
]

def gm_deleteStr : List String := [
  "delete(o.data, KEY.String())",
  "return true"
]

def gm_stringKeys : List String := [
  "for range o.data",
  "accum = append(accum, newStringValue(key))",
  "end",
  "return accum"
]

def gm_iterateStringKeys : List String := [
  "propNames := make([]string, len(o.data))",
  "i := 0",
  "for range o.data",
  "propNames[i] = key",
  "i++",
  "end",
  "return (&gomapPropIter{ o: o, propNames: propNames, }).next"
]

def gm_propIterNext : List String := [
  "for i.idx < len(i.propNames)",
  "name := i.propNames[i.idx]",
  "i.idx++",
  "_, exists := i.o.data[name]",
  "if exists",
  "return propIterItem{name: newStringValue(name), enumerable: _ENUM_TRUE}, i.next",
  "end",
  "end",
  "return propIterItem{}, nil"
]

def host_checkPropertyDescr : List String := [
  "if descr.Getter != nil || descr.Setter != nil",
  "typeErrorResult(throw)",
  "return false",
  "end",
  "if descr.Writable == FLAG_FALSE",
  "typeErrorResult(throw)",
  "return false",
  "end",
  "if descr.Configurable == FLAG_TRUE",
  "typeErrorResult(throw)",
  "return false",
  "end",
  "return true"
]

end Expected

theorem ta_deleteStr_expected : ta_deleteStr = Expected.ta_deleteStr := by rfl
theorem ta_deleteIdx_expected : ta_deleteIdx = Expected.ta_deleteIdx := by rfl
theorem args_stringKeys_expected : args_stringKeys = Expected.args_stringKeys := by rfl
theorem args_iterateStringKeys_expected : args_iterateStringKeys = Expected.args_iterateStringKeys := by rfl
theorem args_propIterNext_expected : args_propIterNext = Expected.args_propIterNext := by rfl
theorem gm_getStr0_expected : gm_getStr0 = Expected.gm_getStr0 := by rfl
theorem gm_hasStr0_expected : gm_hasStr0 = Expected.gm_hasStr0 := by rfl
theorem gm_getStr_expected : gm_getStr = Expected.gm_getStr := by rfl
theorem gm_getOwnPropStr_expected : gm_getOwnPropStr = Expected.gm_getOwnPropStr := by rfl
theorem gm_setOwnStr_expected : gm_setOwnStr = Expected.gm_setOwnStr := by rfl
theorem gm_setForeignStr_expected : gm_setForeignStr = Expected.gm_setForeignStr := by rfl
theorem gm_setForeignIdx_expected : gm_setForeignIdx = Expected.gm_setForeignIdx := by rfl
theorem gm_hasOwnPropertyStr_expected : gm_hasOwnPropertyStr = Expected.gm_hasOwnPropertyStr := by rfl
theorem gm_defineOwnPropertyStr_expected : gm_defineOwnPropertyStr = Expected.gm_defineOwnPropertyStr := by rfl
theorem gm_deleteStr_expected : gm_deleteStr = Expected.gm_deleteStr := by rfl
theorem gm_stringKeys_expected : gm_stringKeys = Expected.gm_stringKeys := by rfl
theorem gm_iterateStringKeys_expected : gm_iterateStringKeys = Expected.gm_iterateStringKeys := by rfl
theorem gm_propIterNext_expected : gm_propIterNext = Expected.gm_propIterNext := by rfl
theorem host_checkPropertyDescr_expected : host_checkPropertyDescr = Expected.host_checkPropertyDescr := by rfl

end GojaModel.C04.Tie2
