/-
  C04 — essential invariants of the mapped `arguments` object over ARBITRARY histories, at MECHANISM level
  (object_args.go: slot list of `*mappedProperty` / ordinary slots + the parameter environment).  Obtained from the
  object-level refinement `args_run_refines` (Args.lean) and the same invariants of the ordinary property list.
-/
import GojaModel.C04.Args
namespace GojaModel.C04
set_option linter.unusedSimpArgs false
set_option linter.unusedVariables false

/-- one ordinary own-property operation keeps a non-configurable property, with frozen shape -/
theorem specStep_frozen {V} [DecidableEq V] (undef : V) (ext : Bool) (l : List (Key × SProp V)) (op : AOp V)
    (hw : op.wf = true) (k : Key) (p : SProp V) (hl : lookup l k = some p) (hc : p.configurable = false) :
    ∃ p', lookup (specStep undef ext l op) k = some p' ∧ frozenStep p p' = true := by
  cases op with
  | define k' d =>
    simp only [specStep]
    by_cases hk : k = k'
    · subst hk
      rw [hl]
      cases hv : validateAndApply undef (some p) d ext with
      | none => exact ⟨p, hl, frozenStep_refl p hc⟩
      | some q => exact ⟨q, lookup_put_same _ _ _, vaa_frozen undef p q d ext (by simpa [AOp.wf] using hw) hc hv⟩
    · cases hv : validateAndApply undef (lookup l k') d ext with
      | none => exact ⟨p, hl, frozenStep_refl p hc⟩
      | some q => exact ⟨p, by rw [lookup_put_other _ _ _ _ hk]; exact hl, frozenStep_refl p hc⟩
  | setOwn k' v =>
    simp only [specStep]
    by_cases hk : k = k'
    · subst hk
      rw [hl]
      cases p with
      | data v0 w e c =>
        simp only [SProp.configurable] at hc
        subst hc
        cases w with
        | true => exact ⟨.data v true e false, lookup_put_same _ _ _, by simp [frozenStep]⟩
        | false => exact ⟨_, hl, by simp [frozenStep]⟩
      | acc g s e c => exact ⟨_, hl, frozenStep_refl _ hc⟩
    · split
      · exact ⟨p, by rw [lookup_put_other _ _ _ _ hk]; exact hl, frozenStep_refl p hc⟩
      · exact ⟨p, hl, frozenStep_refl p hc⟩
  | delete k' =>
    simp only [specStep]
    by_cases hk : k = k'
    · subst hk
      rw [hl]
      simp only [hc, Bool.false_eq_true, if_false]
      exact ⟨p, hl, frozenStep_refl p hc⟩
    · split
      · split
        · exact ⟨p, by rw [lookup_erase_other _ _ _ hk]; exact hl, frozenStep_refl p hc⟩
        · exact ⟨p, hl, frozenStep_refl p hc⟩
      · exact ⟨p, hl, frozenStep_refl p hc⟩

theorem specRun_frozen {V} [DecidableEq V] (undef : V) (ext : Bool) (ops : List (AOp V)) (hw : ∀ op ∈ ops, op.wf = true)
    (k : Key) : ∀ (l : List (Key × SProp V)) (p : SProp V), lookup l k = some p → p.configurable = false →
      ∃ p', lookup (ops.foldl (specStep undef ext) l) k = some p' ∧ frozenStep p p' = true := by
  induction ops with
  | nil => intro l p hl hc; exact ⟨p, hl, frozenStep_refl p hc⟩
  | cons op rest ih =>
    intro l p hl hc
    obtain ⟨q, hq, hf⟩ := specStep_frozen undef ext l op (hw op List.mem_cons_self) k p hl hc
    obtain ⟨r, hr, hf2⟩ := ih (fun o ho => hw o (List.mem_cons_of_mem _ ho)) _ q hq (frozenStep_nonconfig p q hf)
    exact ⟨r, by simpa [List.foldl_cons] using hr, frozenStep_trans p q r hf hf2⟩

/-- one ordinary own-property operation on a non-extensible property list creates no key -/
theorem specStep_nonext {V} [DecidableEq V] (undef : V) (l : List (Key × SProp V)) (op : AOp V) (k : Key)
    (hl : lookup l k = none) : lookup (specStep undef false l op) k = none := by
  have herase : ∀ k', lookup (eraseKey l k') k = none := by
    intro k'
    cases hx : lookup (eraseKey l k') k with
    | none => rfl
    | some x =>
      have := lookup_erase_isSome l k' k (by rw [hx]; rfl)
      rw [hl] at this; cases this
  cases op with
  | define k' d =>
    simp only [specStep]
    by_cases hk : k = k'
    · subst hk
      rw [hl]
      have : validateAndApply undef (none : Option (SProp V)) d false = none := by simp [validateAndApply]
      rw [this]; exact hl
    · split
      · rw [lookup_put_other _ _ _ _ hk]; exact hl
      · exact hl
  | setOwn k' v =>
    simp only [specStep]
    by_cases hk : k = k'
    · subst hk; rw [hl]; exact hl
    · split
      · rw [lookup_put_other _ _ _ _ hk]; exact hl
      · exact hl
  | delete k' =>
    simp only [specStep]
    split
    · split
      · exact herase k'
      · exact hl
    · exact hl

theorem specRun_nonext {V} [DecidableEq V] (undef : V) (ops : List (AOp V)) (k : Key) :
    ∀ (l : List (Key × SProp V)), lookup l k = none → lookup (ops.foldl (specStep undef false) l) k = none := by
  induction ops with
  | nil => intro l hl; exact hl
  | cons op rest ih => intro l hl; exact ih _ (specStep_nonext undef l op k hl)

/-- MECHANISM level, arbitrary histories: a slot of an arguments object (mapped or not) that stands for a non-configurable
property is still there after any sequence of defineProperty / own [[Set]] / [[Delete]], and what it stands for then has
the frozen shape of what it stood for at the start (same kind, enumerability, accessor functions; writable only
true → false; value fixed once non-writable — the value being read through the parameter variable for a mapped slot). -/
theorem args_hist_frozen {V} [DecidableEq V] (undef : V) (a : AObj V) (h : a.WF) (ops : List (AOp V))
    (hw : ∀ op ∈ ops, op.wf = true) (k : Key) (slot : ASlot V) (hl : lookup a.slots k = some slot)
    (hc : (slot.spec undef a.env).configurable = false) :
    ∃ slot', lookup (ops.foldl (AObj.step undef) a).slots k = some slot' ∧
      frozenStep (slot.spec undef a.env) (slot'.spec undef (ops.foldl (AObj.step undef) a).env) = true := by
  obtain ⟨href, _⟩ := args_run_refines undef ops hw a h
  have h0 : lookup (a.spec undef) k = some (slot.spec undef a.env) := by
    simp only [AObj.spec]; rw [lookup_map_spec, hl]; rfl
  obtain ⟨p', hp', hf⟩ := specRun_frozen undef a.ext ops hw k (a.spec undef) _ h0 hc
  rw [← href] at hp'
  simp only [AObj.spec] at hp'
  rw [lookup_map_spec] at hp'
  cases hx : lookup (ops.foldl (AObj.step undef) a).slots k with
  | none => rw [hx] at hp'; cases hp'
  | some s' =>
    rw [hx] at hp'
    simp only [Option.map_some, Option.some.injEq] at hp'
    exact ⟨s', rfl, by rw [hp']; exact hf⟩

/-- MECHANISM level, arbitrary histories: a non-extensible arguments object gains no key. -/
theorem args_hist_nonext {V} [DecidableEq V] (undef : V) (a : AObj V) (h : a.WF) (hext : a.ext = false)
    (ops : List (AOp V)) (hw : ∀ op ∈ ops, op.wf = true) (k : Key) (hl : lookup a.slots k = none) :
    lookup (ops.foldl (AObj.step undef) a).slots k = none := by
  obtain ⟨href, _⟩ := args_run_refines undef ops hw a h
  have h0 : lookup (a.spec undef) k = none := by
    simp only [AObj.spec]; rw [lookup_map_spec, hl]; rfl
  have := specRun_nonext undef ops k (a.spec undef) h0
  rw [hext] at href
  rw [← href] at this
  simp only [AObj.spec] at this
  rw [lookup_map_spec] at this
  cases hx : lookup (ops.foldl (AObj.step undef) a).slots k with
  | none => rfl
  | some s' => rw [hx] at this; cases this

end GojaModel.C04
