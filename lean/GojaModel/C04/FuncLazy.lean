/-
  C04 — exotic delta: ordinary functions create their `prototype` property lazily (func.go:173 `_addProto`, :214
  `addPrototype`): the slot is appended to the END of the own string keys when it is first needed (a lookup / write / define /
  delete of "prototype", or any key enumeration).
-/
import GojaModel.C04.Templ
import GojaModel.C04.Exotic
namespace GojaModel.C04
set_option linter.unusedSimpArgs false
set_option linter.unusedVariables false

variable {V : Type}

def kProto : Key := .str "prototype"

structure FuncLazy (V : Type) where
  props : List (Key × Stored V)     -- values + propNames of the funcObject
  mat : Bool                        -- `prototype` ∈ values
  ext : Bool

/-- `_addProto(n)` func.go:173: materialise iff the key is "prototype" and the slot is not there yet -/
def FuncLazy.addProto (protoProp : Stored V) (f : FuncLazy V) (k : Key) : FuncLazy V :=
  if k = kProto ∧ f.mat = false then { f with props := f.props ++ [(kProto, protoProp)], mat := true } else f

/-- `getOwnPropStr` func.go:185 -/
def FuncLazy.getOwn (protoProp : Stored V) (f : FuncLazy V) (k : Key) : Option (Stored V) × FuncLazy V :=
  let f' := f.addProto protoProp k
  (lookup f'.props k, f')

/-- PRE-FIX (before fcdbd47) `defineOwnPropertyStr`: `_addProto(name)` then `baseObject.defineOwnPropertyStr` — the slot
was materialised only when the key WAS "prototype", so a key added earlier ended up before it.  Kept for the regression
witness only. -/
def FuncLazy.definePre [DecidableEq V] (undef : V) (protoProp : Stored V) (f : FuncLazy V) (k : Key) (d : Desc V) :
    FuncLazy V × Bool :=
  let f' := f.addProto protoProp k
  match defineOwn undef (lookup f'.props k) d f'.ext with
  | some v => ({ f' with props := put f'.props k v }, true)
  | none => (f', false)

/-- `_addProtoBeforeNewKey(n)` func.go:175 (fcdbd47): materialise before a NEW string key is created -/
def FuncLazy.addProtoNew (protoProp : Stored V) (f : FuncLazy V) (k : Key) : FuncLazy V :=
  if f.mat = false ∧ lookup f.props k = none then { f with props := f.props ++ [(kProto, protoProp)], mat := true } else f

/-- `defineOwnPropertyStr` func.go:213 (and `setOwnStr` :204): `_addProtoBeforeNewKey(name)` then the baseObject method -/
def FuncLazy.define [DecidableEq V] (undef : V) (protoProp : Stored V) (f : FuncLazy V) (k : Key) (d : Desc V) :
    FuncLazy V × Bool :=
  let f' := f.addProtoNew protoProp k
  match defineOwn undef (lookup f'.props k) d f'.ext with
  | some v => ({ f' with props := put f'.props k v }, true)
  | none => (f', false)

/-- the function that has had `prototype` from the start, as far as lookups go: the slot at the end of the current keys -/
def FuncLazy.eager (protoProp : Stored V) (f : FuncLazy V) : List (Key × Stored V) :=
  if f.mat then f.props else f.props ++ [(kProto, protoProp)]

/-- invariant: `prototype` is in the list iff materialised -/
def FuncLazy.WF (f : FuncLazy V) : Prop := (f.mat = false → lookup f.props kProto = none)

theorem lookup_append_single {α} (l : List (Key × α)) (k k' : Key) (a : α) :
    lookup (l ++ [(k, a)]) k' = match lookup l k' with
      | some x => some x
      | none => if k = k' then some a else none := by
  induction l with
  | nil => simp [lookup]
  | cons x xs ih =>
    obtain ⟨k0, a0⟩ := x
    by_cases h : k0 = k' <;> simp [lookup, h, ih]

theorem put_append_absent {α} (l : List (Key × α)) (k0 : Key) (a0 : α) (k : Key) (v : α) (hne : k ≠ k0)
    (hk : (lookup l k).isSome = true) : put (l ++ [(k0, a0)]) k v = put l k v ++ [(k0, a0)] := by
  induction l with
  | nil => simp [lookup] at hk
  | cons x xs ih =>
    obtain ⟨k1, a1⟩ := x
    by_cases h : k1 = k
    · subst h; simp [put]
    · simp only [lookup, h, if_false] at hk
      simp [put, h, ih hk]

theorem funcLazyPre_refines [DecidableEq V] (undef : V) (protoProp : Stored V) (f : FuncLazy V) (hwf : f.WF) (k : Key) (d : Desc V) :
    (f.getOwn protoProp k).1 = lookup (f.eager protoProp) k
    ∧ (f.getOwn protoProp k).2.WF ∧ (f.getOwn protoProp k).2.eager protoProp = f.eager protoProp
    ∧ ((f.definePre undef protoProp k d).2 = (defineOwn undef (lookup (f.eager protoProp) k) d f.ext).isSome)
    ∧ (∀ v, defineOwn undef (lookup (f.eager protoProp) k) d f.ext = some v →
         ((f.definePre undef protoProp k d).1.eager protoProp).Perm (put (f.eager protoProp) k v)
         ∧ ∀ k', lookup ((f.definePre undef protoProp k d).1.eager protoProp) k' = lookup (put (f.eager protoProp) k v) k') := by
  cases hm : f.mat with
  | true =>
    have hadd : f.addProto protoProp k = f := by simp [FuncLazy.addProto, hm]
    have he : f.eager protoProp = f.props := by simp [FuncLazy.eager, hm]
    refine ⟨by simp [FuncLazy.getOwn, hadd, he], by simpa [FuncLazy.getOwn, hadd] using hwf, by simp [FuncLazy.getOwn, hadd], ?_, ?_⟩
    · simp only [FuncLazy.definePre, hadd, he]
      cases defineOwn undef (lookup f.props k) d f.ext <;> simp
    · intro v hv
      rw [he] at hv
      simp only [FuncLazy.definePre, hadd, hv, he, FuncLazy.eager, hm, if_true]
      exact ⟨List.Perm.refl _, by simp⟩
  | false =>
    have hno : lookup f.props kProto = none := hwf hm
    have he : f.eager protoProp = f.props ++ [(kProto, protoProp)] := by simp [FuncLazy.eager, hm]
    by_cases hk : k = kProto
    · -- the key is "prototype": materialise, then everything is the ordinary operation on the same list
      subst hk
      have hadd : f.addProto protoProp kProto = { f with props := f.props ++ [(kProto, protoProp)], mat := true } := by
        simp [FuncLazy.addProto, hm]
      refine ⟨by simp [FuncLazy.getOwn, hadd, he], by simp [FuncLazy.getOwn, hadd, FuncLazy.WF], by simp [FuncLazy.getOwn, hadd, FuncLazy.eager, hm], ?_, ?_⟩
      · simp only [FuncLazy.definePre, hadd, he]
        cases defineOwn undef (lookup (f.props ++ [(kProto, protoProp)]) kProto) d f.ext <;> simp
      · intro v hv
        rw [he] at hv
        simp only [FuncLazy.definePre, hadd, hv, he, FuncLazy.eager, if_true]
        exact ⟨by simp [hm], by intro k'; simp [hm]⟩
    · have hadd : f.addProto protoProp k = f := by simp [FuncLazy.addProto, hk]
      have hlk : lookup (f.eager protoProp) k = lookup f.props k := by
        rw [he, lookup_append_single]
        cases lookup f.props k with
        | some x => rfl
        | none => simp [Ne.symm hk]
      refine ⟨by simp [FuncLazy.getOwn, hadd, hlk], by simpa [FuncLazy.getOwn, hadd] using hwf, by simp [FuncLazy.getOwn, hadd], ?_, ?_⟩
      · simp only [FuncLazy.definePre, hadd, hlk]
        cases defineOwn undef (lookup f.props k) d f.ext <;> simp
      · intro v hv
        rw [hlk] at hv
        simp only [FuncLazy.definePre, hadd, hv, FuncLazy.eager, hm, Bool.false_eq_true, if_false, he]
        cases hex : lookup f.props k with
        | some x =>
          rw [put_append_absent f.props kProto protoProp k v hk (by simp [hex])]
          exact ⟨List.Perm.refl _, fun _ => rfl⟩
        | none =>
          have hnone : lookup (f.props ++ [(kProto, protoProp)]) k = none := by
            rw [lookup_append_single, hex]; simp [Ne.symm hk]
          rw [put_absent f.props k v hex, put_absent _ k v hnone]
          refine ⟨?_, ?_⟩
          · simpa [List.append_assoc] using (List.perm_append_comm (l₁ := [(k, v)]) (l₂ := [(kProto, protoProp)])).append_left f.props
          · intro k'
            simp only [List.append_assoc, lookup_append]
            cases lookup f.props k' with
            | some y => rfl
            | none =>
              simp only [lookup]
              by_cases h1 : k = k'
              · by_cases h2 : kProto = k'
                · exact absurd (h1.trans h2.symm) hk
                · simp [h1, h2]
              · by_cases h2 : kProto = k' <;> simp [h1, h2]

/-! ### current code (fcdbd47): `prototype` is materialised before any NEW string key — exact refinement -/

theorem addProtoNew_eager (protoProp : Stored V) (f : FuncLazy V) (k : Key) :
    (f.addProtoNew protoProp k).eager protoProp = f.eager protoProp := by
  unfold FuncLazy.addProtoNew
  split
  · rename_i hc; simp [FuncLazy.eager, hc.1]
  · rfl

theorem addProtoNew_ext (protoProp : Stored V) (f : FuncLazy V) (k : Key) : (f.addProtoNew protoProp k).ext = f.ext := by
  unfold FuncLazy.addProtoNew; split <;> rfl

theorem addProtoNew_wf (protoProp : Stored V) (f : FuncLazy V) (k : Key) (h : f.WF) : (f.addProtoNew protoProp k).WF := by
  unfold FuncLazy.addProtoNew
  split
  · intro hm; simp at hm
  · exact h

/-- after `_addProtoBeforeNewKey(k)` the own lookup of `k` is the eager function's, and either the slot is materialised
or `k` is an existing key other than "prototype" -/
theorem addProtoNew_lookup (protoProp : Stored V) (f : FuncLazy V) (hwf : f.WF) (k : Key) :
    lookup (f.addProtoNew protoProp k).props k = lookup (f.eager protoProp) k
    ∧ ((f.addProtoNew protoProp k).mat = true ∨
        ((f.addProtoNew protoProp k).mat = false ∧ f.addProtoNew protoProp k = f ∧ (lookup f.props k).isSome = true ∧ k ≠ kProto)) := by
  cases hm : f.mat with
  | true =>
    have : f.addProtoNew protoProp k = f := by simp [FuncLazy.addProtoNew, hm]
    rw [this]
    exact ⟨by simp [FuncLazy.eager, hm], Or.inl hm⟩
  | false =>
    cases hl : lookup f.props k with
    | none =>
      have : f.addProtoNew protoProp k = { f with props := f.props ++ [(kProto, protoProp)], mat := true } := by
        simp [FuncLazy.addProtoNew, hm, hl]
      rw [this]
      exact ⟨by simp [FuncLazy.eager, hm], Or.inl rfl⟩
    | some x =>
      have : f.addProtoNew protoProp k = f := by simp [FuncLazy.addProtoNew, hm, hl]
      rw [this]
      have hk : k ≠ kProto := by
        intro e; rw [e, hwf hm] at hl; cases hl
      refine ⟨?_, Or.inr ⟨hm, rfl, by simp [hl], hk⟩⟩
      simp [FuncLazy.eager, hm, lookup_append_single, hl]

theorem funcLazy_define_refines [DecidableEq V] (undef : V) (protoProp : Stored V) (f : FuncLazy V) (hwf : f.WF) (k : Key)
    (d : Desc V) :
    ((f.define undef protoProp k d).2 = (defineOwn undef (lookup (f.eager protoProp) k) d f.ext).isSome)
    ∧ (∀ v, defineOwn undef (lookup (f.eager protoProp) k) d f.ext = some v →
         (f.define undef protoProp k d).1.eager protoProp = put (f.eager protoProp) k v)
    ∧ (defineOwn undef (lookup (f.eager protoProp) k) d f.ext = none →
         (f.define undef protoProp k d).1.eager protoProp = f.eager protoProp)
    ∧ (f.define undef protoProp k d).1.WF ∧ (f.define undef protoProp k d).1.ext = f.ext := by
  obtain ⟨hlk, hcase⟩ := addProtoNew_lookup protoProp f hwf k
  have hE := addProtoNew_eager protoProp f k
  have hX := addProtoNew_ext protoProp f k
  have hW := addProtoNew_wf protoProp f k hwf
  unfold FuncLazy.define
  simp only [hlk, hX]
  cases hd : defineOwn undef (lookup (f.eager protoProp) k) d f.ext with
  | none =>
    refine ⟨rfl, fun v hv => (by cases hv), fun _ => hE, hW, hX⟩
  | some v =>
    refine ⟨rfl, ?_, fun h => (by cases h), ?_, rfl⟩
    · intro v' hv'
      cases hv'
      rcases hcase with hm | ⟨hm, hsame, hsome, hk⟩
      · rw [← hE]
        simp [FuncLazy.eager, hm]
      · rw [← hE]
        simp only [FuncLazy.eager, hm, Bool.false_eq_true, if_false]
        rw [hsame] at hm ⊢
        exact (put_append_absent f.props kProto protoProp k v hk hsome).symm
    · intro hm
      simp only at hm
      rcases hcase with hm' | ⟨_, hsame, _, hk⟩
      · rw [hm'] at hm; cases hm
      · simp only
        rw [lookup_put_other _ _ _ _ (Ne.symm hk)]
        exact hW hm

end GojaModel.C04
