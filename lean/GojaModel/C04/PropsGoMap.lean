/-
  C04 — property theorems for the Go map wrapper `objectGoMapSimple` (every `theorem` here is one audited obligation).
  Mechanism model: `GoMap.lean` (transcribed text tied by `Tie2.lean`: `gm_*`, `host_checkPropertyDescr`).  The value read
  back is `conv v` (= ToValue(Export(v)), bridge semantics: C13), `conv` arbitrary.  The wrapper does not refine an ordinary
  object (attributes of a new key are forced to true; `enumerable:false`/`configurable:false` are accepted and ignored), so the
  ESSENTIAL INVARIANTS of ECMA-262 6.1.7.3 are proved directly, over arbitrary histories of
  defineProperty / delete / [[Set]] (own, new, or handled by the chain) / preventExtensions / setPrototypeOf.
-/
import GojaModel.C04.GoMap
namespace GojaModel.C04
set_option linter.unusedSimpArgs false
set_option linter.unusedVariables false

/-- [[GetOwnProperty]] never reports a non-configurable or non-writable property: every own property of the wrapper is
`{value, writable: true, enumerable: true, configurable: true}` — so every "previously observed non-configurable /
non-writable" clause of the essential invariants holds vacuously, in every reachable state. -/
theorem goMap_properties_always_configurable_writable {V} (conv : V → V) (undef : V) (m : GMap V) (ops : List (GOp V))
    (k : Key) (p : SProp V) (h : (ops.foldl (GMap.step conv undef) m).getOwn k = some p) :
    ∃ v, p = .data v true true true :=
  gm_getOwn_shape _ k p h

/-- [[Delete]] answers true and the property is gone (keys unique). -/
theorem goMap_delete_removes_key {V} (m : GMap V) (h : m.WF) (k : Key) :
    (m.delete k).2 = true ∧ (m.delete k).1.getOwn k = none :=
  gm_delete_absent m h k

/-- [[DefineOwnProperty]] answering true leaves the property present, holding the descriptor's value (after the export
round trip) when it has a [[Value]] field. -/
theorem goMap_define_true_installs_value {V} (conv : V → V) (undef : V) (m : GMap V) (k : Key) (d : Desc V)
    (h : (m.define conv undef k d).2 = true) :
    ((m.define conv undef k d).1.has k = true)
    ∧ ∀ v, d.value = some v → (m.define conv undef k d).1.getOwn k = some (.data (conv v) true true true) :=
  gm_define_true conv undef m k d h

/-- Own keys stay duplicate-free over any history. -/
theorem goMap_hist_keys_unique {V} (conv : V → V) (undef : V) (m : GMap V) (h : m.WF) (ops : List (GOp V)) :
    (keysOf (ops.foldl (GMap.step conv undef) m).data).Nodup :=
  gm_run_wf conv undef ops m h

/-- Once non-extensible: stays non-extensible, keeps its prototype, gains no key — whatever the history. -/
theorem goMap_hist_nonextensible_no_new_keys_fixed_proto {V} (conv : V → V) (undef : V) (m : GMap V) (hext : m.ext = false)
    (ops : List (GOp V)) :
    (ops.foldl (GMap.step conv undef) m).ext = false ∧ (ops.foldl (GMap.step conv undef) m).proto = m.proto
    ∧ ∀ k, k ∈ keysOf (ops.foldl (GMap.step conv undef) m).data → k ∈ keysOf m.data :=
  gm_run_nonext conv undef ops m hext

/-- The monitor the check runs on observed states (`monitorStep`, `keysNodup`; key ORDER is not judged for a Go map, whose
iteration order is unspecified) accepts every consecutive pair of states along ANY history of the mechanism, and every
state is a consistent snapshot: the essential invariants, as monitored, hold for the Go map wrapper. -/
theorem goMap_monitor_accepts_every_history {V} [DecidableEq V] (conv : V → V) (undef : V) (m : GMap V) (h : m.WF)
    (pre : List (GOp V)) (op : GOp V) :
    monitorStep (pre.foldl (GMap.step conv undef) m).snap ((pre ++ [op]).foldl (GMap.step conv undef) m).snap = true
    ∧ keysNodup ((pre ++ [op]).foldl (GMap.step conv undef) m).snap.keys = true
    ∧ ((pre ++ [op]).foldl (GMap.step conv undef) m).snap.keys = ((pre ++ [op]).foldl (GMap.step conv undef) m).snap.props.map (·.1) := by
  obtain ⟨h1, h2⟩ := gm_run_monitor conv undef (pre ++ op :: []) m h pre op [] rfl
  exact ⟨h1, h2, (gm_snap_consistent _ (gm_run_wf conv undef (pre ++ [op]) m h)).2⟩

end GojaModel.C04
