/-
  C04 helper lemmas, part 3: PropOrder — the lazily sorted name list is, after `ensurePropOrder`, the spec's order.
-/
import GojaModel.C04.Model
namespace GojaModel.C04
set_option linter.unusedSimpArgs false
set_option linter.unusedVariables false

def nonIdx (k : Key) : Bool := !k.isIdx

/-- The relation between the segmented name list and the creation-order ghost list. -/
structure Rel (A B C : List Key) (cr : List Key) : Prop where
  asc : Asc A
  aIdx : ∀ a ∈ A, a.isIdx = true
  bStr : ∀ b ∈ B, b.isIdx = false
  nodup : (A ++ B ++ C).Nodup
  crNodup : cr.Nodup
  mem : ∀ n, n ∈ A ++ B ++ C ↔ n ∈ cr
  strs : (A ++ B ++ C).filter nonIdx = cr.filter nonIdx

theorem idx_inj {a b : Key} (ha : a.isIdx = true) (hb : b.isIdx = true) (h : a.idxVal = b.idxVal) : a = b := by
  cases a <;> cases b <;> simp_all [Key.isIdx, Key.idxVal]

theorem mem_insertAsc (x n : Key) (A : List Key) : n ∈ insertAsc x A ↔ n = x ∨ n ∈ A := by
  induction A with
  | nil => simp [insertAsc]
  | cons a as ih =>
    simp only [insertAsc]
    split
    · simp [ih]; constructor
      · rintro (h | h | h) <;> simp [h]
      · rintro (h | h | h) <;> simp [h]
    · simp

theorem perm_insertAsc (x : Key) (A : List Key) : (insertAsc x A).Perm (x :: A) := by
  induction A with
  | nil => simp [insertAsc]
  | cons a as ih =>
    simp only [insertAsc]
    split
    · exact (List.Perm.cons a ih).trans (List.Perm.swap x a as)
    · exact List.Perm.refl _

theorem asc_insertAsc (x : Key) (A : List Key) (hA : Asc A) (hne : ∀ a ∈ A, a.idxVal ≠ x.idxVal) :
    Asc (insertAsc x A) := by
  induction A with
  | nil => simp [insertAsc, Asc]
  | cons a as ih =>
    simp only [insertAsc]
    have hA' : Asc as := (List.pairwise_cons.mp hA).2
    have hlt : ∀ b ∈ as, a.idxVal < b.idxVal := (List.pairwise_cons.mp hA).1
    split
    · rename_i hax
      apply List.pairwise_cons.mpr
      constructor
      · intro b hb
        rcases (mem_insertAsc x b as).mp hb with h | h
        · subst h; exact hax
        · exact hlt b h
      · exact ih hA' (fun b hb => hne b (List.mem_cons_of_mem a hb))
    · rename_i hax
      have hxa : x.idxVal < a.idxVal := by
        have := hne a (List.mem_cons_self)
        omega
      apply List.pairwise_cons.mpr
      constructor
      · intro b hb
        rcases List.mem_cons.mp hb with h | h
        · subst h; exact hxa
        · exact Nat.lt_trans hxa (hlt b h)
      · exact hA

theorem filter_nonIdx_of_allIdx (A : List Key) (h : ∀ a ∈ A, a.isIdx = true) : A.filter nonIdx = [] := by
  apply List.filter_eq_nil_iff.mpr
  intro a ha; simp [nonIdx, h a ha]

theorem filter_nonIdx_of_noIdx (B : List Key) (h : ∀ b ∈ B, b.isIdx = false) : B.filter nonIdx = B := by
  apply List.filter_eq_self.mpr
  intro b hb; simp [nonIdx, h b hb]

theorem rel_idx {A B C cr : List Key} {x : Key} (h : Rel A B (x :: C) cr) (hx : x.isIdx = true) :
    Rel (insertAsc x A) B C cr := by
  have hperm : (insertAsc x A ++ B ++ C).Perm (A ++ B ++ x :: C) := by
    have h1 : (insertAsc x A ++ (B ++ C)).Perm ((x :: A) ++ (B ++ C)) := List.Perm.append_right _ (perm_insertAsc x A)
    have h2 : ((x :: A) ++ (B ++ C)).Perm (A ++ B ++ x :: C) := by
      have : A ++ B ++ x :: C = (A ++ B) ++ ([x] ++ C) := by simp
      rw [this]
      have : (x :: A) ++ (B ++ C) = [x] ++ ((A ++ B) ++ C) := by simp
      rw [this]
      exact (List.perm_append_comm_assoc [x] (A ++ B) C)
    simpa [List.append_assoc] using h1.trans h2
  have hnd := h.nodup
  refine ⟨?_, ?_, h.bStr, ?_, h.crNodup, ?_, ?_⟩
  · apply asc_insertAsc x A h.asc
    intro a ha heq
    have hax : a = x := idx_inj (h.aIdx a ha) hx heq
    subst hax
    have : a ∈ A ++ B := List.mem_append_left B ha
    have hd := (List.nodup_append.mp hnd).2.2
    exact hd a this a (List.mem_cons_self) rfl
  · intro a ha
    rcases (mem_insertAsc x a A).mp ha with h1 | h1
    · subst h1; exact hx
    · exact h.aIdx a h1
  · exact (List.Perm.nodup_iff hperm).mpr hnd
  · intro n
    rw [← h.mem n]
    exact List.Perm.mem_iff hperm
  · rw [← h.strs]
    have hxn : nonIdx x = false := by simp [nonIdx, hx]
    have e1 : (insertAsc x A).filter nonIdx = [] :=
      filter_nonIdx_of_allIdx _ (by
        intro a ha
        rcases (mem_insertAsc x a A).mp ha with h1 | h1
        · subst h1; exact hx
        · exact h.aIdx a h1)
    have e2 : A.filter nonIdx = [] := filter_nonIdx_of_allIdx _ h.aIdx
    simp [List.filter_append, e1, e2, List.filter_cons, hxn]

theorem rel_str {A B C cr : List Key} {x : Key} (h : Rel A B (x :: C) cr) (hx : x.isIdx = false) :
    Rel A (B ++ [x]) C cr := by
  have e : A ++ (B ++ [x]) ++ C = A ++ B ++ x :: C := by simp
  refine ⟨h.asc, h.aIdx, ?_, ?_, h.crNodup, ?_, ?_⟩
  · intro b hb
    rcases List.mem_append.mp hb with h1 | h1
    · exact h.bStr b h1
    · simp at h1; subst h1; exact hx
  · rw [e]; exact h.nodup
  · intro n; rw [e]; exact h.mem n
  · rw [e]; exact h.strs

theorem rel_fixLoop (cr : List Key) : ∀ (C A B : List Key), Rel A B C cr →
    Rel (fixLoop A B C).1 (fixLoop A B C).2 [] cr := by
  intro C
  induction C with
  | nil => intro A B h; simpa [fixLoop] using h
  | cons x C ih =>
    intro A B h
    simp only [fixLoop]
    by_cases hx : x.isIdx = true
    · simp only [hx, if_true]; exact ih _ _ (rel_idx h hx)
    · have hx' : x.isIdx = false := by simpa using hx
      simp only [hx', Bool.false_eq_true, if_false]; exact ih _ _ (rel_str h hx')

theorem rel_ensure {s : PO} {cr : List Key} (h : Rel s.A s.B s.C cr) :
    Rel s.ensure.A s.ensure.B s.ensure.C cr := by
  unfold PO.ensure
  cases hC : s.C with
  | nil => simpa [hC] using h
  | cons x C => simp only; rw [hC] at h; exact rel_fixLoop cr _ _ _ h

theorem ensure_C (s : PO) : s.ensure.C = [] := by
  unfold PO.ensure
  cases hC : s.C <;> simp [hC]

theorem rel_add {s : PO} {cr : List Key} (h : Rel s.A s.B s.C cr) (n : Key) :
    Rel (s.add n).A (s.add n).B (s.add n).C (createdAdd cr n) := by
  unfold PO.add createdAdd
  by_cases hn : n ∈ s.names
  · have : n ∈ cr := (h.mem n).mp hn
    simpa [hn, this] using h
  · have hn' : n ∉ cr := fun hc => hn ((h.mem n).mpr hc)
    simp only [hn, hn', if_false]
    have e : s.A ++ s.B ++ (s.C ++ [n]) = (s.A ++ s.B ++ s.C) ++ [n] := by simp
    refine ⟨h.asc, h.aIdx, h.bStr, ?_, ?_, ?_, ?_⟩
    · rw [e]
      apply List.nodup_append.mpr
      refine ⟨h.nodup, by simp, ?_⟩
      intro a ha b hb hab
      simp at hb; subst hb; subst hab
      exact hn ha
    · apply List.nodup_append.mpr
      refine ⟨h.crNodup, by simp, ?_⟩
      intro a ha b hb hab
      simp at hb; subst hb; subst hab
      exact hn' ha
    · intro m; rw [e]; simp only [List.mem_append, List.mem_singleton]
      have := h.mem m
      simp only [List.mem_append] at this
      rw [this]
    · rw [e, List.filter_append, h.strs, List.filter_append]

theorem names_delete (s : PO) (n : Key) : (s.delete n).names = s.names.erase n := by
  unfold PO.delete PO.names
  by_cases hA : n ∈ s.A
  · simp [hA, List.erase_append_left]
  · by_cases hB : n ∈ s.B
    · simp [hA, hB, List.erase_append_left, List.erase_append_right]
    · simp only [hA, hB, if_false, List.append_assoc]
      rw [List.erase_append_right _ hA, List.erase_append_right _ hB]

theorem filter_erase_nodup (p : Key → Bool) (l : List Key) (n : Key) (hl : l.Nodup) :
    (l.erase n).filter p = (l.filter p).erase n := by
  rw [List.Nodup.erase_eq_filter hl, List.Nodup.erase_eq_filter (List.Nodup.sublist List.filter_sublist hl)]
  simp [List.filter_filter, Bool.and_comm]

theorem rel_delete {s : PO} {cr : List Key} (h : Rel s.A s.B s.C cr) (n : Key) :
    Rel (s.delete n).A (s.delete n).B (s.delete n).C (createdDelete cr n) := by
  have hnames := names_delete s n
  unfold PO.names at hnames
  have hA : (s.delete n).A.Sublist s.A := by
    unfold PO.delete; split
    · exact List.erase_sublist
    · split <;> exact List.Sublist.refl _
  have hB : (s.delete n).B.Sublist s.B := by
    unfold PO.delete; split
    · exact List.Sublist.refl _
    · split
      · exact List.erase_sublist
      · exact List.Sublist.refl _
  refine ⟨List.Pairwise.sublist hA h.asc, fun a ha => h.aIdx a (hA.subset ha), fun b hb => h.bStr b (hB.subset hb),
    ?_, ?_, ?_, ?_⟩
  · rw [hnames]; exact List.Nodup.erase n h.nodup
  · exact List.Nodup.erase n h.crNodup
  · intro m
    rw [hnames]
    unfold createdDelete
    rw [List.Nodup.mem_erase_iff h.nodup, List.Nodup.mem_erase_iff h.crNodup, h.mem m]
  · rw [hnames]
    unfold createdDelete
    rw [filter_erase_nodup _ _ _ h.nodup, filter_erase_nodup _ _ _ h.crNodup, h.strs]

theorem rel_step {s : PO} {cr : List Key} (h : Rel s.A s.B s.C cr) (op : POOp) :
    Rel (s.step op).A (s.step op).B (s.step op).C (createdStep cr op) := by
  cases op with
  | add n => exact rel_add h n
  | delete n => exact rel_delete h n
  | ensure => exact rel_ensure h

theorem rel_run (ops : List POOp) : ∀ {s : PO} {cr : List Key}, Rel s.A s.B s.C cr →
    Rel (s.run ops).A (s.run ops).B (s.run ops).C (createdRun cr ops) := by
  induction ops with
  | nil => intro s cr h; simpa [PO.run, createdRun] using h
  | cons op ops ih =>
    intro s cr h
    simp only [PO.run, createdRun, List.foldl_cons]
    exact ih (rel_step h op)

theorem rel_empty : Rel PO.empty.A PO.empty.B PO.empty.C [] := by
  refine ⟨?_, ?_, ?_, ?_, ?_, ?_, ?_⟩ <;> simp [PO.empty, Asc]

end GojaModel.C04
