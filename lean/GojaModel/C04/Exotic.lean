/-
  C04 — exotic delta: the String exotic object (ECMA-262 10.4.3) is observationally an ORDINARY object whose property
  list starts with the frozen character-index properties.  This is what lets the correspondence treat `new String("ab")`
  as an ordinary object with initial own properties (Driver.lean `initProps "strobj"`).
-/
import GojaModel.C04.HistIntegrity
namespace GojaModel.C04
set_option linter.unusedSimpArgs false
set_option linter.unusedVariables false

/-- StringGetOwnProperty (10.4.3.5): the virtual property of a string index -/
def strIndexDesc {V} (chars : List V) : Key → Option (SProp V)
  | .idx n => (chars[n]?).map (fun c => .data c false true false)
  | _ => none

/-- [[GetOwnProperty]] of a String exotic object (10.4.3.1): ordinary own property first, else the string index -/
def strGetOwn {V} (base : Obj V) (chars : List V) (k : Key) : Option (SProp V) :=
  match lookup base.props k with
  | some p => some p
  | none => strIndexDesc chars k

/-- [[DefineOwnProperty]] (10.4.3.2): a string index is only checked for compatibility (IsCompatiblePropertyDescriptor =
ValidateAndApply without an object), anything else is OrdinaryDefineOwnProperty on the ordinary part. -/
def strDefine {V} [DecidableEq V] (undef : V) (base : Obj V) (chars : List V) (k : Key) (d : Desc V) : Obj V × Bool :=
  match strIndexDesc chars k with
  | some sd => (base, (validateAndApply undef (some sd) d base.ext).isSome)
  | none =>
    match validateAndApply undef (lookup base.props k) d base.ext with
    | some p => ({ base with props := put base.props k p }, true)
    | none => (base, false)

/-- the character-index properties `start, start+1, …` -/
def strIdxProps {V} : List V → Nat → List (Key × SProp V)
  | [], _ => []
  | c :: cs, start => (Key.idx start, SProp.data c false true false) :: strIdxProps cs (start + 1)

/-- the ordinary object that the String exotic object is observationally equal to -/
def strMat {V} (base : Obj V) (chars : List V) : Obj V := { base with props := strIdxProps chars 0 ++ base.props }

/-- StringCreate and `strDefine` never store a character index in the ordinary part -/
def NoCharIdx {V} (base : Obj V) (chars : List V) : Prop := ∀ n, n < chars.length → lookup base.props (.idx n) = none

theorem lookup_append {α} (a b : List (Key × α)) (k : Key) :
    lookup (a ++ b) k = match lookup a k with | some p => some p | none => lookup b k := by
  induction a with
  | nil => simp [lookup]
  | cons x xs ih =>
    obtain ⟨k0, a0⟩ := x
    by_cases h : k0 = k <;> simp [lookup, h, ih]

theorem lookup_strIdxProps {V} (chars : List V) (start : Nat) (k : Key) :
    lookup (strIdxProps chars start) k =
      match k with
      | .idx n => if start ≤ n then (chars[n - start]?).map (fun c => SProp.data c false true false) else none
      | _ => none := by
  induction chars generalizing start with
  | nil => cases k <;> simp [strIdxProps, lookup]
  | cons c cs ih =>
    cases k with
    | idx n =>
      simp only [strIdxProps, lookup, Key.idx.injEq]
      by_cases h : start = n
      · subst h; simp
      · simp only [h, if_false, ih]
        by_cases h2 : start ≤ n
        · have h3 : start + 1 ≤ n := by omega
          have h4 : n - start = (n - (start + 1)) + 1 := by omega
          simp [h2, h3, h4]
        · have h3 : ¬ start + 1 ≤ n := by omega
          simp [h2, h3]
    | str s => simp [strIdxProps, lookup, ih]
    | sym s => simp [strIdxProps, lookup, ih]

theorem lookup_strIdx_eq {V} (chars : List V) (k : Key) : lookup (strIdxProps chars 0) k = strIndexDesc chars k := by
  rw [lookup_strIdxProps]
  cases k <;> simp [strIndexDesc]

/-- [[GetOwnProperty]]: exotic = ordinary on the materialised object -/
theorem stringExotic_getOwn_aux {V} (base : Obj V) (chars : List V) (hb : NoCharIdx base chars) (k : Key) :
    strGetOwn base chars k = lookup (strMat base chars).props k := by
  simp only [strGetOwn, strMat, lookup_append, lookup_strIdx_eq]
  cases hs : strIndexDesc chars k with
  | none => cases lookup base.props k <;> rfl
  | some sd =>
    cases k with
    | idx n =>
      have hlt : n < chars.length := by
        simp only [strIndexDesc] at hs
        cases hg : chars[n]? with
        | none => rw [hg] at hs; simp at hs
        | some c => exact (List.getElem?_eq_some_iff.mp hg).1
      rw [hb n hlt]
    | str s => simp [strIndexDesc] at hs
    | sym s => simp [strIndexDesc] at hs

theorem put_same_noop {α} (l : List (Key × α)) (k : Key) (a : α) (h : lookup l k = some a) : put l k a = l := by
  induction l with
  | nil => simp [lookup] at h
  | cons x xs ih =>
    obtain ⟨k0, a0⟩ := x
    by_cases hk : k0 = k
    · subst hk; simp [lookup] at h; subst h; simp [put]
    · simp only [lookup, hk, if_false] at h
      simp [put, hk, ih h]

theorem put_append_right {α} (a b : List (Key × α)) (k : Key) (x : α) (h : lookup a k = none) :
    put (a ++ b) k x = a ++ put b k x := by
  induction a with
  | nil => simp
  | cons y ys ih =>
    obtain ⟨k0, a0⟩ := y
    by_cases hk : k0 = k
    · subst hk; simp [lookup] at h
    · simp only [lookup, hk, if_false] at h
      simp [put, hk, ih h]

/-- [[DefineOwnProperty]]: exotic = OrdinaryDefineOwnProperty on the materialised object (same result, same resulting
object), and the invariant `NoCharIdx` is kept. -/
theorem stringExotic_define_aux {V} [DecidableEq V] (undef : V) (base : Obj V) (chars : List V) (hb : NoCharIdx base chars)
    (k : Key) (d : Desc V) (hw : d.wellFormed = true) :
    let r := strDefine undef base chars k d
    (match validateAndApply undef (lookup (strMat base chars).props k) d (strMat base chars).ext with
      | some p => ({ (strMat base chars) with props := put (strMat base chars).props k p }, true)
      | none => (strMat base chars, false)) = (strMat r.1 chars, r.2)
    ∧ NoCharIdx r.1 chars := by
  intro r
  have hget := stringExotic_getOwn_aux base chars hb k
  simp only [strGetOwn] at hget
  cases hs : strIndexDesc chars k with
  | some sd =>
    have hbase : lookup base.props k = none := by
      cases k with
      | idx n =>
        have hlt : n < chars.length := by
          simp only [strIndexDesc] at hs
          cases hg : chars[n]? with
          | none => rw [hg] at hs; simp at hs
          | some c => exact (List.getElem?_eq_some_iff.mp hg).1
        exact hb n hlt
      | str s => simp [strIndexDesc] at hs
      | sym s => simp [strIndexDesc] at hs
    rw [hbase, hs] at hget
    simp only at hget
    have hr : r = (base, (validateAndApply undef (some sd) d base.ext).isSome) := by simp [r, strDefine, hs]
    rw [hr, ← hget]
    refine ⟨?_, hb⟩
    have hext : (strMat base chars).ext = base.ext := rfl
    rw [hext]
    cases hv : validateAndApply undef (some sd) d base.ext with
    | none => rfl
    | some q =>
      have hsd : ∃ c, sd = SProp.data c false true false := by
        cases k with
        | idx n => simp only [strIndexDesc] at hs; cases hg : chars[n]? <;> simp [hg] at hs; exact ⟨_, hs.symm⟩
        | str s => simp [strIndexDesc] at hs
        | sym s => simp [strIndexDesc] at hs
      obtain ⟨c, rfl⟩ := hsd
      have hf := vaa_frozen undef _ q d base.ext hw rfl hv
      have hq : q = SProp.data c false true false := by
        cases q <;> simp_all [frozenStep]
      subst hq
      simp only [Option.isSome]
      congr 1
      rw [put_same_noop _ _ _ hget.symm]
  | none =>
    rw [hs] at hget
    have hA : lookup (strIdxProps chars 0) k = none := by rw [lookup_strIdx_eq, hs]
    have hmat : lookup (strMat base chars).props k = lookup base.props k := by
      simp only [strMat, lookup_append, hA]
    have hext : (strMat base chars).ext = base.ext := rfl
    rw [hmat, hext]
    cases hv : validateAndApply undef (lookup base.props k) d base.ext with
    | none =>
      have hr : r = (base, false) := by simp [r, strDefine, hs, hv]
      rw [hr]; exact ⟨rfl, hb⟩
    | some p =>
      have hr : r = ({ base with props := put base.props k p }, true) := by simp [r, strDefine, hs, hv]
      rw [hr]
      refine ⟨?_, ?_⟩
      · simp only [strMat, put_append_right _ _ _ _ hA]
      · intro n hn
        have hne : Key.idx n ≠ k := by
          intro e; subst e
          simp only [strIndexDesc] at hs
          have : chars[n]? = some chars[n] := List.getElem?_eq_getElem hn
          simp [this] at hs
        simp only
        rw [lookup_put_other _ _ _ _ hne]
        exact hb n hn

/-- [[Delete]] of a String exotic object: OrdinaryDelete (10.1.10.1) driven by the exotic [[GetOwnProperty]] — a
character index is non-configurable, everything else lives in the ordinary part. -/
def strDelete {V} (base : Obj V) (chars : List V) (k : Key) : Obj V × Bool :=
  match strGetOwn base chars k with
  | none => (base, true)
  | some p => if p.configurable then ({ base with props := eraseKey base.props k }, true) else (base, false)

theorem erase_append_right {α} (a b : List (Key × α)) (k : Key) (h : lookup a k = none) :
    eraseKey (a ++ b) k = a ++ eraseKey b k := by
  induction a with
  | nil => simp
  | cons y ys ih =>
    obtain ⟨k0, a0⟩ := y
    by_cases hk : k0 = k
    · subst hk; simp [lookup] at h
    · simp only [lookup, hk, if_false] at h
      simp [eraseKey, hk, ih h]

theorem lookup_erase_same_none {α} (l : List (Key × α)) (k k' : Key) (h : lookup l k' = none) :
    lookup (eraseKey l k) k' = none := by
  cases hx : lookup (eraseKey l k) k' with
  | none => rfl
  | some a =>
    have := lookup_erase_isSome l k k' (by simp [hx])
    rw [h] at this; cases this

/-- [[Delete]]: exotic = OrdinaryDelete on the materialised object (same boolean, same resulting object), and the
ordinary part still holds no character index. -/
theorem stringExotic_delete_aux {V} (base : Obj V) (chars : List V) (hb : NoCharIdx base chars) (k : Key) :
    (match lookup (strMat base chars).props k with
      | none => (strMat base chars, true)
      | some p => if p.configurable then ({ (strMat base chars) with props := eraseKey (strMat base chars).props k }, true)
                  else (strMat base chars, false))
      = (strMat (strDelete base chars k).1 chars, (strDelete base chars k).2)
    ∧ NoCharIdx (strDelete base chars k).1 chars := by
  have hget := stringExotic_getOwn_aux base chars hb k
  rw [← hget]
  simp only [strDelete]
  cases hg : strGetOwn base chars k with
  | none => exact ⟨rfl, hb⟩
  | some p =>
    simp only
    cases hc : p.configurable with
    | false => simp only [Bool.false_eq_true, if_false]; exact ⟨by trivial, hb⟩
    | true =>
      simp only [if_true]
      -- a configurable own property is not a character index, so it lives in the ordinary part
      have hA : lookup (strIdxProps chars 0) k = none := by
        rw [lookup_strIdx_eq]
        cases hs : strIndexDesc chars k with
        | none => rfl
        | some sd =>
          have hbase : lookup base.props k = none := by
            cases k with
            | idx n =>
              have hlt : n < chars.length := by
                simp only [strIndexDesc] at hs
                cases hq : chars[n]? with
                | none => rw [hq] at hs; simp at hs
                | some c => exact (List.getElem?_eq_some_iff.mp hq).1
              exact hb n hlt
            | str s => simp [strIndexDesc] at hs
            | sym s => simp [strIndexDesc] at hs
          simp only [strGetOwn, hbase, hs] at hg
          cases hg
          cases k with
          | idx n => simp only [strIndexDesc] at hs; cases hq : chars[n]? <;> simp [hq] at hs; subst hs; simp [SProp.configurable] at hc
          | str s => simp [strIndexDesc] at hs
          | sym s => simp [strIndexDesc] at hs
      refine ⟨?_, ?_⟩
      · simp only [strMat, erase_append_right _ _ _ hA]
      · intro n hn
        exact lookup_erase_same_none _ _ _ (hb n hn)

/-! ### [[OwnPropertyKeys]] of a String exotic object (10.4.3.3) -/

def seqFrom : Nat → Nat → List Nat
  | _, 0 => []
  | s, n + 1 => s :: seqFrom (s + 1) n

/-- 10.4.3.3: the string indices ascending, then the integer-index keys, string keys and symbol keys of the ordinary part
in OrdinaryOwnPropertyKeys order -/
def strOwnKeys {V} (base : Obj V) (chars : List V) : List Key :=
  (seqFrom 0 chars.length).map Key.idx ++ ownKeys base.props

theorem keys_strIdxProps {V} (chars : List V) (s : Nat) :
    (strIdxProps chars s).map (·.1) = (seqFrom s chars.length).map Key.idx := by
  induction chars generalizing s with
  | nil => rfl
  | cons c cs ih => simp [strIdxProps, seqFrom, ih]

theorem insertNat_lt_head (x : Nat) (l : List Nat) (h : ∀ y ∈ l, x < y) : insertNat x l = x :: l := by
  cases l with
  | nil => rfl
  | cons a as =>
    have := h a (List.mem_cons_self)
    simp [insertNat, Nat.not_lt.mpr (Nat.le_of_lt this)]

theorem mem_seqFrom (s n y : Nat) : y ∈ seqFrom s n ↔ s ≤ y ∧ y < s + n := by
  induction n generalizing s with
  | zero => simp [seqFrom]
  | succ n ih =>
    simp only [seqFrom, List.mem_cons, ih]
    omega

theorem foldr_insert_seq (acc : List Nat) : ∀ (n s : Nat), (∀ y ∈ acc, s + n ≤ y) →
    (seqFrom s n).foldr insertNat acc = seqFrom s n ++ acc := by
  intro n
  induction n with
  | zero => intro s _; rfl
  | succ n ih =>
    intro s h
    simp only [seqFrom, List.foldr_cons]
    rw [ih (s + 1) (fun y hy => by have := h y hy; omega)]
    rw [insertNat_lt_head]
    · rfl
    · intro y hy
      rcases List.mem_append.mp hy with h1 | h1
      · have := (mem_seqFrom (s + 1) n y).mp h1; omega
      · have := h y h1; omega

theorem sortNat_append (a b : List Nat) : sortNat (a ++ b) = a.foldr insertNat (sortNat b) := by
  simp [sortNat, List.foldr_append]

/-- [[OwnPropertyKeys]]: exotic = OrdinaryOwnPropertyKeys of the materialised object -/
theorem stringExotic_ownKeys_aux {V} (base : Obj V) (chars : List V) (hb : NoCharIdx base chars) :
    strOwnKeys base chars = ownKeys (strMat base chars).props := by
  have hk : (strMat base chars).props.map (·.1) = (seqFrom 0 chars.length).map Key.idx ++ base.props.map (·.1) := by
    simp [strMat, keys_strIdxProps]
  simp only [strOwnKeys, ownKeys, hk, List.filter_append, List.map_append]
  have hI : ((seqFrom 0 chars.length).map Key.idx).filter Key.isIdx = (seqFrom 0 chars.length).map Key.idx := by
    apply List.filter_eq_self.mpr
    intro k hk'
    obtain ⟨n, _, rfl⟩ := List.mem_map.mp hk'
    rfl
  have hS : ((seqFrom 0 chars.length).map Key.idx).filter (fun k => !k.isIdx && !k.isSym) = [] := by
    apply List.filter_eq_nil_iff.mpr
    intro k hk'
    obtain ⟨n, _, rfl⟩ := List.mem_map.mp hk'
    simp [Key.isIdx]
  have hY : ((seqFrom 0 chars.length).map Key.idx).filter Key.isSym = [] := by
    apply List.filter_eq_nil_iff.mpr
    intro k hk'
    obtain ⟨n, _, rfl⟩ := List.mem_map.mp hk'
    simp [Key.isSym]
  have hV : ((seqFrom 0 chars.length).map Key.idx).map Key.idxVal = seqFrom 0 chars.length := by
    simp [List.map_map, Function.comp_def, Key.idxVal]
  rw [hI, hS, hY, hV, sortNat_append]
  have hge : ∀ y ∈ sortNat ((base.props.map (·.1)).filter Key.isIdx |>.map Key.idxVal), 0 + chars.length ≤ y := by
    intro y hy
    have hy' := (List.Perm.mem_iff (perm_sortNat _)).mp hy
    obtain ⟨k, hk1, hk2⟩ := List.mem_map.mp hy'
    have hk3 := List.mem_filter.mp hk1
    cases k with
    | idx n =>
      simp only [Key.idxVal] at hk2; subst hk2
      apply Nat.le_of_not_lt
      intro hlt
      have hnone := hb n (by omega)
      have hsome := (mem_keys_iff base.props (Key.idx n)).mp hk3.1
      rw [hnone] at hsome; cases hsome
    | str s => simp [Key.isIdx] at hk3
    | sym s => simp [Key.isIdx] at hk3
  rw [foldr_insert_seq _ _ 0 hge]
  simp [List.map_append, List.append_assoc]

end GojaModel.C04
