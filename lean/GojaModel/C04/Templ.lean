/-
  C04 — exotic delta: lazily-templated built-ins (object_template.go: Function.prototype, Array.prototype, Math, the
  global object, …).  The own properties come from a shared template and are materialised on demand: a string property when
  it is first looked up, the name list when it first changes, ALL symbol properties at the first symbol-keyed operation.
  Theorem: the lazy object is, at every moment, the ordinary object that has all template properties from the start.
-/
import GojaModel.C04.HistKeys
namespace GojaModel.C04
set_option linter.unusedSimpArgs false
set_option linter.unusedVariables false

/-- `objectTemplate` (object_template.go:13): string properties in `propNames` order, symbol properties in `symPropNames`
order; the factories are deterministic, so a template is the list of the values they produce. -/
structure Tmpl (V : Type) where
  strs : List (Key × Stored V)
  syms : List (Key × Stored V)

/-- the lazily filled part of a `templatedObject` -/
structure TObj (V : Type) where
  values : List (Key × Option (Stored V))    -- o.values: materialised / own string props; `none` = "white hole" (:264)
  propNames : Option (List Key)              -- o.propNames: nil until `materialisePropNames` (:134)
  symValues : Option (List (Key × Stored V)) -- o.symValues: nil until `materialiseSymbols` (:118)
  ext : Bool

variable {V : Type}

/-- `getOwnPropStr` :107-116 (the materialisation `o.values[p] = v` does not change what is observable) -/
def TObj.getOwnStr (t : Tmpl V) (o : TObj V) (k : Key) : Option (Stored V) :=
  match lookup o.values k with
  | some v => v
  | none => lookup t.strs k

/-- `materialisePropNames` :134-138 -/
def TObj.names (t : Tmpl V) (o : TObj V) : List Key := o.propNames.getD (keysOf t.strs)

/-- `materialiseSymbols` :118-125 -/
def TObj.syms (t : Tmpl V) (o : TObj V) : List (Key × Stored V) := o.symValues.getD t.syms

/-- `getOwnPropSym` :127-133: the fast path answers "absent" without materialising iff the table is not materialised and
the key is not a template symbol — the same answer as after materialising -/
def TObj.getOwnSym (t : Tmpl V) (o : TObj V) (s : Key) : Option (Stored V) :=
  if o.symValues.isNone && (lookup t.syms s).isNone then none
  else lookup (o.syms t) s

/-- `defineOwnPropertySym` :242-245: materialiseSymbols, then `baseObject.defineOwnPropertySym` (object.go:770) -/
def TObj.defineSym [DecidableEq V] (undef : V) (t : Tmpl V) (o : TObj V) (s : Key) (d : Desc V) : TObj V × Bool :=
  let syms := o.syms t                                                   -- o.materialiseSymbols()
  match defineOwn undef (lookup syms s) d o.ext with
  | some v => ({ o with symValues := some (put syms s v) }, true)
  | none => ({ o with symValues := some syms }, false)

/-- `deleteSym` :269-272 + object.go:429 -/
def TObj.deleteSym (t : Tmpl V) (o : TObj V) (s : Key) : TObj V × Bool :=
  let syms := o.syms t
  match lookup syms s with
  | none => ({ o with symValues := some syms }, true)
  | some v => if checkDelete v then ({ o with symValues := some (eraseKey syms s) }, true)
              else ({ o with symValues := some syms }, false)

/-- `setOwnSym` :148-152 (own-slot part, new or plain data; the prototype walk is `SetPath`): materialiseSymbols first -/
def TObj.putSym (t : Tmpl V) (o : TObj V) (s : Key) (v : Stored V) : TObj V :=
  { o with symValues := some (put (o.syms t) s v) }

/-- `defineOwnPropertyStr` :228-240 -/
def TObj.defineStr [DecidableEq V] (undef : V) (t : Tmpl V) (o : TObj V) (k : Key) (d : Desc V) : TObj V × Bool :=
  let existingVal := o.getOwnStr t k                                       -- :229
  match defineOwn undef existingVal d o.ext with                           -- :230
  | some v =>
    let o1 := { o with values := put o.values k (some v) }                 -- :231
    if existingVal.isNone then
      ({ o1 with propNames := some (o.names t ++ [k]) }, true)             -- :232-236 materialisePropNames; append
    else (o1, true)
  | none => (o, false)

/-- `deleteStr` :248-261 -/
def TObj.deleteStr (t : Tmpl V) (o : TObj V) (k : Key) : TObj V × Bool :=
  match o.getOwnStr t k with
  | none => (o, true)
  | some val =>
    if !checkDelete val then (o, false)                                    -- :250
    else
      let names := (o.names t).erase k                                     -- :253-254 materialisePropNames; _delete
      let values := if (lookup t.strs k).isSome then put o.values k none   -- :255-257 white hole
                    else eraseKey o.values k                               -- `_delete` removes it from the map
      ({ o with values := values, propNames := some names }, true)

/-- the ordinary (mechanism-level) property lists the lazy object stands for: strings in `propNames` order, then symbols -/
def TObj.absStr (t : Tmpl V) (o : TObj V) : List (Key × Stored V) :=
  (o.names t).filterMap (fun k => (o.getOwnStr t k).map (fun v => (k, v)))
def TObj.absSym (t : Tmpl V) (o : TObj V) : List (Key × Stored V) := o.syms t

/-- invariant: the name list is duplicate-free and lists exactly the keys that have a value; while it is not materialised
no key has been added or deleted -/
structure TObj.WF (t : Tmpl V) (o : TObj V) : Prop where
  tmplNodup : (keysOf t.strs).Nodup
  valuesNodup : (keysOf o.values).Nodup
  namesNodup : (o.names t).Nodup
  namesIff : ∀ k, k ∈ o.names t ↔ (o.getOwnStr t k).isSome = true

/-! ### symbols: the lazy table is the template's table until the first symbol-keyed write -/

theorem getOwnSym_eq (t : Tmpl V) (o : TObj V) (s : Key) : o.getOwnSym t s = lookup (o.absSym t) s := by
  unfold TObj.getOwnSym TObj.absSym TObj.syms
  cases h : o.symValues with
  | some l => simp
  | none =>
    cases h2 : lookup t.syms s with
    | none => simp [h2]
    | some v => simp [h2]

theorem defineSym_abs [DecidableEq V] (undef : V) (t : Tmpl V) (o : TObj V) (s : Key) (d : Desc V) :
    ((o.defineSym undef t s d).1.absSym t, (o.defineSym undef t s d).2) =
      (match defineOwn undef (lookup (o.absSym t) s) d o.ext with
       | some v => (put (o.absSym t) s v, true)
       | none => (o.absSym t, false)) := by
  unfold TObj.defineSym TObj.absSym TObj.syms
  generalize o.symValues.getD t.syms = syms
  cases hd : defineOwn undef (lookup syms s) d o.ext <;> simp [hd]

theorem deleteSym_abs (t : Tmpl V) (o : TObj V) (s : Key) :
    ((o.deleteSym t s).1.absSym t, (o.deleteSym t s).2) =
      (match lookup (o.absSym t) s with
       | none => (o.absSym t, true)
       | some v => if checkDelete v then (eraseKey (o.absSym t) s, true) else (o.absSym t, false)) := by
  unfold TObj.deleteSym TObj.absSym TObj.syms
  generalize o.symValues.getD t.syms = syms
  cases h : lookup syms s with
  | none => simp [h]
  | some v => by_cases hc : checkDelete v = true <;> simp [h, hc]

theorem putSym_abs (t : Tmpl V) (o : TObj V) (s : Key) (v : Stored V) :
    (o.putSym t s v).absSym t = put (o.absSym t) s v := by
  simp [TObj.putSym, TObj.absSym, TObj.syms]

/-! ### strings -/

theorem lookup_filterMap_gen {α} (g : Key → Option α) (ks : List Key) (k : Key) :
    lookup (ks.filterMap (fun k => (g k).map (fun p => (k, p)))) k = if k ∈ ks then g k else none := by
  induction ks with
  | nil => simp [lookup]
  | cons k0 ks ih =>
    cases hl : g k0 with
    | none =>
      simp only [List.filterMap_cons, hl, Option.map_none, ih, List.mem_cons]
      by_cases h : k = k0
      · subst h; simp [hl]
      · simp [h]
    | some p =>
      simp only [List.filterMap_cons, hl, Option.map_some, lookup, List.mem_cons]
      by_cases h : k0 = k
      · subst h; simp [hl]
      · have h' : ¬ k = k0 := fun e => h e.symm
        simp [h, h', ih]

theorem lookup_absStr (t : Tmpl V) (o : TObj V) (h : o.WF t) (k : Key) : lookup (o.absStr t) k = o.getOwnStr t k := by
  unfold TObj.absStr
  rw [lookup_filterMap_gen]
  by_cases hm : k ∈ o.names t
  · simp [hm]
  · simp only [hm, if_false]
    cases hg : o.getOwnStr t k with
    | none => rfl
    | some v => exact absurd ((h.namesIff k).mpr (by simp [hg])) hm

theorem put_absent {α} (l : List (Key × α)) (k : Key) (a : α) (h : lookup l k = none) : put l k a = l ++ [(k, a)] := by
  induction l with
  | nil => rfl
  | cons x xs ih =>
    obtain ⟨k0, a0⟩ := x
    by_cases hk : k0 = k
    · subst hk; simp [lookup] at h
    · simp only [lookup, hk, if_false] at h
      simp [put, hk, ih h]

theorem filterMap_congr_mem {α} (g g' : Key → Option α) (ks : List Key) (h : ∀ k ∈ ks, g k = g' k) :
    ks.filterMap (fun k => (g k).map (fun p => (k, p))) = ks.filterMap (fun k => (g' k).map (fun p => (k, p))) := by
  induction ks with
  | nil => rfl
  | cons k0 ks ih =>
    simp only [List.filterMap_cons, h k0 (List.mem_cons_self)]
    rw [ih (fun k hk => h k (List.mem_cons_of_mem _ hk))]

/-- replacing the value of a listed key = `put` on the abstract list -/
theorem put_filterMap {α} (g : Key → Option α) (ks : List Key) (k : Key) (a : α) (hnd : ks.Nodup) (hk : k ∈ ks)
    (hg : (g k).isSome = true) :
    put (ks.filterMap (fun k => (g k).map (fun p => (k, p)))) k a =
      ks.filterMap (fun k' => ((if k' = k then some a else g k')).map (fun p => (k', p))) := by
  induction ks with
  | nil => cases hk
  | cons k0 ks ih =>
    have hnd' := List.nodup_cons.mp hnd
    by_cases h0 : k0 = k
    · subst h0
      cases hgk : g k0 with
      | none => rw [hgk] at hg; cases hg
      | some p =>
        simp only [List.filterMap_cons, hgk, Option.map_some, put, if_true]
        congr 1
        apply filterMap_congr_mem
        intro k' hk'
        have : k' ≠ k0 := fun e => hnd'.1 (e ▸ hk')
        simp [this]
    · have hk' : k ∈ ks := by
        rcases List.mem_cons.mp hk with e | e
        · exact absurd e.symm h0
        · exact e
      cases hg0 : g k0 with
      | none =>
        simp only [List.filterMap_cons, hg0, Option.map_none, h0, if_false]
        exact ih hnd'.2 hk'
      | some p =>
        simp only [List.filterMap_cons, hg0, Option.map_some, h0, if_false, put]
        congr 1
        exact ih hnd'.2 hk'

theorem getOwnStr_put (t : Tmpl V) (o : TObj V) (k k' : Key) (v : Option (Stored V)) :
    TObj.getOwnStr t { o with values := put o.values k v } k' = if k' = k then v else o.getOwnStr t k' := by
  unfold TObj.getOwnStr
  by_cases h : k' = k
  · subst h; simp [lookup_put_same]
  · simp [h, lookup_put_other _ _ _ _ h]

/-- `defineOwnPropertyStr` on the lazy object = the ordinary define on the object it stands for; the invariant is kept -/
theorem defineStr_abs [DecidableEq V] (undef : V) (t : Tmpl V) (o : TObj V) (h : o.WF t) (k : Key) (d : Desc V) :
    ((o.defineStr undef t k d).1.absStr t, (o.defineStr undef t k d).2) =
      (match defineOwn undef (lookup (o.absStr t) k) d o.ext with
       | some v => (put (o.absStr t) k v, true)
       | none => (o.absStr t, false))
    ∧ (o.defineStr undef t k d).1.WF t := by
  rw [lookup_absStr t o h k]
  have hun : o.defineStr undef t k d =
      (match defineOwn undef (o.getOwnStr t k) d o.ext with
       | some v =>
         if (o.getOwnStr t k).isNone then
           ({ o with values := put o.values k (some v), propNames := some (o.names t ++ [k]) }, true)
         else ({ o with values := put o.values k (some v) }, true)
       | none => (o, false)) := rfl
  rw [hun]
  cases hex : o.getOwnStr t k with
  | none =>
    cases hd : defineOwn undef none d o.ext with
    | none => exact ⟨rfl, h⟩
    | some v =>
      have hnot : k ∉ o.names t := fun hm => by
        have := (h.namesIff k).mp hm; rw [hex] at this; cases this
      simp only [Option.isNone_none, if_true]
      have hnames : TObj.names t { o with values := put o.values k (some v), propNames := some (o.names t ++ [k]) } = o.names t ++ [k] := rfl
      have hget : ∀ k', TObj.getOwnStr t { o with values := put o.values k (some v), propNames := some (o.names t ++ [k]) } k' =
          if k' = k then some v else o.getOwnStr t k' := fun k' => getOwnStr_put t o k k' (some v)
      refine ⟨?_, ⟨h.tmplNodup, nodup_put _ _ _ h.valuesNodup, ?_, ?_⟩⟩
      · have e1 : (o.names t).filterMap (fun k' => (TObj.getOwnStr t { o with values := put o.values k (some v), propNames := some (o.names t ++ [k]) } k').map (fun p => (k', p)))
            = o.absStr t := by
          unfold TObj.absStr
          apply filterMap_congr_mem
          intro k' hk'
          rw [hget]
          have : k' ≠ k := fun e => hnot (e ▸ hk')
          simp [this]
        have hL : TObj.absStr t { o with values := put o.values k (some v), propNames := some (o.names t ++ [k]) } =
            o.absStr t ++ [(k, v)] := by
          show List.filterMap _ (TObj.names t _) = _
          rw [hnames, List.filterMap_append, e1]
          simp [hget]
        have e2 : lookup (o.absStr t) k = none := by rw [lookup_absStr t o h k]; exact hex
        rw [hL, put_absent _ _ _ e2]
      · rw [hnames]
        apply List.nodup_append.mpr
        refine ⟨h.namesNodup, by simp, ?_⟩
        intro a ha b hb hab
        simp at hb; subst hb; subst hab; exact hnot ha
      · intro k'
        rw [hnames, hget]
        by_cases hk' : k' = k
        · subst hk'; simp
        · simp only [hk', if_false, List.mem_append, List.mem_singleton, or_false]
          exact h.namesIff k'
  | some ev =>
    cases hd : defineOwn undef (some ev) d o.ext with
    | none => exact ⟨rfl, h⟩
    | some v =>
      simp only [Option.isNone_some, Bool.false_eq_true, if_false]
      have hmem : k ∈ o.names t := (h.namesIff k).mpr (by simp [hex])
      have hget : ∀ k', TObj.getOwnStr t { o with values := put o.values k (some v) } k' =
          if k' = k then some v else o.getOwnStr t k' := fun k' => getOwnStr_put t o k k' (some v)
      have hnames : TObj.names t { o with values := put o.values k (some v) } = o.names t := rfl
      refine ⟨?_, ⟨h.tmplNodup, nodup_put _ _ _ h.valuesNodup, by rw [hnames]; exact h.namesNodup, ?_⟩⟩
      · have hL : TObj.absStr t { o with values := put o.values k (some v) } = put (o.absStr t) k v := by
          show List.filterMap _ (TObj.names t _) = put (List.filterMap _ (o.names t)) k v
          rw [hnames, put_filterMap (o.getOwnStr t) (o.names t) k v h.namesNodup hmem (by simp [hex])]
          apply filterMap_congr_mem
          intro k' _
          rw [hget]
        rw [hL]
      · intro k'
        rw [hnames, hget]
        by_cases hk' : k' = k
        · subst hk'; simp [hmem]
        · simp only [hk', if_false]; exact h.namesIff k'

theorem erase_filterMap {α} (g : Key → Option α) (ks : List Key) (k : Key) (hnd : ks.Nodup) (hk : k ∈ ks)
    (hg : (g k).isSome = true) :
    eraseKey (ks.filterMap (fun k => (g k).map (fun p => (k, p)))) k =
      (ks.erase k).filterMap (fun k' => (g k').map (fun p => (k', p))) := by
  induction ks with
  | nil => cases hk
  | cons k0 ks ih =>
    have hnd' := List.nodup_cons.mp hnd
    by_cases h0 : k0 = k
    · subst h0
      cases hgk : g k0 with
      | none => rw [hgk] at hg; cases hg
      | some p => simp [List.filterMap_cons, hgk, eraseKey]
    · have hk' : k ∈ ks := by
        rcases List.mem_cons.mp hk with e | e
        · exact absurd e.symm h0
        · exact e
      have hb : ¬ (k0 == k) = true := by simp [h0]
      rw [List.erase_cons_tail hb]
      cases hg0 : g k0 with
      | none => simp only [List.filterMap_cons, hg0, Option.map_none]; exact ih hnd'.2 hk'
      | some p =>
        simp only [List.filterMap_cons, hg0, Option.map_some, eraseKey, h0, if_false]
        congr 1
        exact ih hnd'.2 hk'

theorem lookup_erase_self_nodup {α} (l : List (Key × α)) (k : Key) (hn : (keysOf l).Nodup) : lookup (eraseKey l k) k = none := by
  cases hl : lookup (eraseKey l k) k with
  | none => rfl
  | some x =>
    have hm := (mem_keys_iff (eraseKey l k) k).mpr (by simp [hl])
    rw [keys_erase] at hm
    exact absurd hm (fun hm' => ((List.Nodup.mem_erase_iff hn).mp hm').1 rfl)

/-- `deleteStr` on the lazy object = the ordinary delete on the object it stands for (a template key leaves a "white hole"
so that the template value does not come back); the invariant is kept -/
theorem deleteStr_abs (t : Tmpl V) (o : TObj V) (h : o.WF t) (k : Key) :
    ((o.deleteStr t k).1.absStr t, (o.deleteStr t k).2) =
      (match lookup (o.absStr t) k with
       | none => (o.absStr t, true)
       | some v => if checkDelete v then (eraseKey (o.absStr t) k, true) else (o.absStr t, false))
    ∧ (o.deleteStr t k).1.WF t := by
  rw [lookup_absStr t o h k]
  unfold TObj.deleteStr
  cases hex : o.getOwnStr t k with
  | none => exact ⟨rfl, h⟩
  | some val =>
    by_cases hc : checkDelete val = true
    · simp only [hc, Bool.not_true, Bool.false_eq_true, if_false, if_true]
      have hmem : k ∈ o.names t := (h.namesIff k).mpr (by simp [hex])
      have hget : ∀ k', TObj.getOwnStr t { o with values := (if (lookup t.strs k).isSome then put o.values k none else eraseKey o.values k),
                                                     propNames := some ((o.names t).erase k) } k' =
          if k' = k then none else o.getOwnStr t k' := by
        intro k'
        unfold TObj.getOwnStr
        by_cases hk' : k' = k
        · subst hk'
          cases ht : lookup t.strs k' with
          | some tv => simp [ht, lookup_put_same]
          | none => simp [ht, lookup_erase_self_nodup _ _ h.valuesNodup]
        · simp only [hk', if_false]
          by_cases ht : (lookup t.strs k).isSome = true
          · simp [ht, lookup_put_other _ _ _ _ hk']
          · simp [ht, lookup_erase_other _ _ _ hk']
      have hnames : TObj.names t { o with values := (if (lookup t.strs k).isSome then put o.values k none else eraseKey o.values k),
                                          propNames := some ((o.names t).erase k) } = (o.names t).erase k := rfl
      have hnotin : k ∉ (o.names t).erase k := fun hm => ((List.Nodup.mem_erase_iff h.namesNodup).mp hm).1 rfl
      refine ⟨?_, ⟨h.tmplNodup, ?_, ?_, ?_⟩⟩
      · have hL : TObj.absStr t { o with values := (if (lookup t.strs k).isSome then put o.values k none else eraseKey o.values k),
                                         propNames := some ((o.names t).erase k) } = eraseKey (o.absStr t) k := by
          show List.filterMap _ (TObj.names t _) = eraseKey (List.filterMap _ (o.names t)) k
          rw [hnames, erase_filterMap (o.getOwnStr t) (o.names t) k h.namesNodup hmem (by simp [hex])]
          apply filterMap_congr_mem
          intro k' hk'
          rw [hget]
          have : k' ≠ k := fun e => hnotin (e ▸ hk')
          simp [this]
        rw [hL]
      · show (keysOf (if (lookup t.strs k).isSome = true then put o.values k none else eraseKey o.values k)).Nodup
        split
        · exact nodup_put _ _ _ h.valuesNodup
        · rw [keys_erase]; exact List.Nodup.erase _ h.valuesNodup
      · rw [hnames]; exact List.Nodup.erase _ h.namesNodup
      · intro k'
        rw [hnames, hget, List.Nodup.mem_erase_iff h.namesNodup]
        by_cases hk' : k' = k
        · subst hk'; simp
        · simp only [hk', if_false, ne_eq, not_false_eq_true, true_and]; exact h.namesIff k'
    · simp only [hc, Bool.not_false, if_true]
      exact ⟨by simp [hc], h⟩

/-- a fresh templated object (nothing materialised) stands for the template's property lists -/
theorem fresh_abs (t : Tmpl V) (ext : Bool) (hn : (keysOf t.strs).Nodup) :
    let o : TObj V := { values := [], propNames := none, symValues := none, ext := ext }
    o.absSym t = t.syms ∧ o.WF t ∧ ∀ k, lookup (o.absStr t) k = lookup t.strs k := by
  intro o
  have hwf : o.WF t := by
    refine ⟨hn, by simp [o, keysOf], by simpa [o, TObj.names] using hn, ?_⟩
    intro k
    simp only [o, TObj.names, Option.getD_none, TObj.getOwnStr, lookup]
    exact mem_keys_iff t.strs k
  refine ⟨rfl, hwf, ?_⟩
  intro k
  rw [lookup_absStr t o hwf k]
  simp [o, TObj.getOwnStr, lookup]

/-! ### histories: the lazy object equals the eager one after ANY sequence of own-property operations -/

inductive TOp (V : Type) where
  | defineStr (k : Key) (d : Desc V)
  | deleteStr (k : Key)
  | defineSym (s : Key) (d : Desc V)
  | deleteSym (s : Key)
  | putSym (s : Key) (v : Stored V)

def TObj.step [DecidableEq V] (undef : V) (t : Tmpl V) (o : TObj V) : TOp V → TObj V
  | .defineStr k d => (o.defineStr undef t k d).1
  | .deleteStr k => (o.deleteStr t k).1
  | .defineSym s d => (o.defineSym undef t s d).1
  | .deleteSym s => (o.deleteSym t s).1
  | .putSym s v => o.putSym t s v

/-- the eager object: all template properties present from the start, ordinary list operations -/
structure Eager (V : Type) where
  strs : List (Key × Stored V)
  syms : List (Key × Stored V)
  ext : Bool

def ordDefine [DecidableEq V] (undef : V) (l : List (Key × Stored V)) (k : Key) (d : Desc V) (ext : Bool) : List (Key × Stored V) :=
  match defineOwn undef (lookup l k) d ext with
  | some v => put l k v
  | none => l

def ordDelete (l : List (Key × Stored V)) (k : Key) : List (Key × Stored V) :=
  match lookup l k with
  | none => l
  | some v => if checkDelete v then eraseKey l k else l

def Eager.step [DecidableEq V] (undef : V) (e : Eager V) : TOp V → Eager V
  | .defineStr k d => { e with strs := ordDefine undef e.strs k d e.ext }
  | .deleteStr k => { e with strs := ordDelete e.strs k }
  | .defineSym s d => { e with syms := ordDefine undef e.syms s d e.ext }
  | .deleteSym s => { e with syms := ordDelete e.syms s }
  | .putSym s v => { e with syms := put e.syms s v }

def TObj.absE (t : Tmpl V) (o : TObj V) : Eager V := { strs := o.absStr t, syms := o.absSym t, ext := o.ext }

theorem defineStr_fields [DecidableEq V] (undef : V) (t : Tmpl V) (o : TObj V) (k : Key) (d : Desc V) :
    (o.defineStr undef t k d).1.symValues = o.symValues ∧ (o.defineStr undef t k d).1.ext = o.ext := by
  unfold TObj.defineStr
  simp only
  repeat' split
  all_goals exact ⟨rfl, rfl⟩

theorem deleteStr_fields (t : Tmpl V) (o : TObj V) (k : Key) :
    (o.deleteStr t k).1.symValues = o.symValues ∧ (o.deleteStr t k).1.ext = o.ext := by
  unfold TObj.deleteStr
  repeat' split
  all_goals exact ⟨rfl, rfl⟩

theorem step_refines [DecidableEq V] (undef : V) (t : Tmpl V) (o : TObj V) (h : o.WF t) (op : TOp V) :
    (o.step undef t op).absE t = (o.absE t).step undef op ∧ (o.step undef t op).WF t := by
  cases op with
  | defineStr k d =>
    obtain ⟨h1, h2⟩ := defineStr_abs undef t o h k d
    refine ⟨?_, h2⟩
    have e1 := congrArg Prod.fst h1
    simp only at e1
    have hsym : (o.defineStr undef t k d).1.absSym t = o.absSym t := by
      simp [TObj.absSym, TObj.syms, (defineStr_fields undef t o k d).1]
    have hext : (o.defineStr undef t k d).1.ext = o.ext := (defineStr_fields undef t o k d).2
    simp only [TObj.step, TObj.absE, Eager.step, ordDefine, hsym, hext, e1]
    cases defineOwn undef (lookup (o.absStr t) k) d o.ext <;> rfl
  | deleteStr k =>
    obtain ⟨h1, h2⟩ := deleteStr_abs t o h k
    refine ⟨?_, h2⟩
    have e1 := congrArg Prod.fst h1
    simp only at e1
    have hsym : (o.deleteStr t k).1.absSym t = o.absSym t := by
      simp [TObj.absSym, TObj.syms, (deleteStr_fields t o k).1]
    have hext : (o.deleteStr t k).1.ext = o.ext := (deleteStr_fields t o k).2
    simp only [TObj.step, TObj.absE, Eager.step, ordDelete, hsym, hext, e1]
    cases lookup (o.absStr t) k with
    | none => rfl
    | some v => simp only; split <;> rfl
  | defineSym s d =>
    have h1 := defineSym_abs undef t o s d
    have e1 := congrArg Prod.fst h1
    simp only at e1
    have hstr : ∀ o' : TObj V, o'.values = o.values → o'.propNames = o.propNames → o'.absStr t = o.absStr t ∧ (o'.WF t) := by
      intro o' hv hp
      have hg : ∀ k, o'.getOwnStr t k = o.getOwnStr t k := by intro k; simp [TObj.getOwnStr, hv]
      have hn : o'.names t = o.names t := by simp [TObj.names, hp]
      refine ⟨by simp [TObj.absStr, hn, hg], ⟨h.tmplNodup, by rw [hv]; exact h.valuesNodup, by rw [hn]; exact h.namesNodup, ?_⟩⟩
      intro k; rw [hn, hg]; exact h.namesIff k
    have hres : (o.defineSym undef t s d).1.values = o.values ∧ (o.defineSym undef t s d).1.propNames = o.propNames ∧
        (o.defineSym undef t s d).1.ext = o.ext := by
      unfold TObj.defineSym
      simp only
      repeat' split
      all_goals exact ⟨rfl, rfl, rfl⟩
    obtain ⟨a1, a2⟩ := hstr _ hres.1 hres.2.1
    refine ⟨?_, a2⟩
    simp only [TObj.step, TObj.absE, Eager.step, ordDefine, a1, hres.2.2, e1]
    cases defineOwn undef (lookup (o.absSym t) s) d o.ext <;> rfl
  | deleteSym s =>
    have h1 := deleteSym_abs t o s
    have e1 := congrArg Prod.fst h1
    simp only at e1
    have hres : (o.deleteSym t s).1.values = o.values ∧ (o.deleteSym t s).1.propNames = o.propNames ∧
        (o.deleteSym t s).1.ext = o.ext := by
      unfold TObj.deleteSym
      simp only
      repeat' split
      all_goals exact ⟨rfl, rfl, rfl⟩
    have hg : ∀ k, (o.deleteSym t s).1.getOwnStr t k = o.getOwnStr t k := by intro k; simp [TObj.getOwnStr, hres.1]
    have hn : (o.deleteSym t s).1.names t = o.names t := by simp [TObj.names, hres.2.1]
    have a1 : (o.deleteSym t s).1.absStr t = o.absStr t := by simp [TObj.absStr, hn, hg]
    have hwf : ((o.deleteSym t s).1).WF t :=
      ⟨h.tmplNodup, by rw [hres.1]; exact h.valuesNodup, by rw [hn]; exact h.namesNodup, by intro k; rw [hn, hg]; exact h.namesIff k⟩
    refine ⟨?_, hwf⟩
    simp only [TObj.step, TObj.absE, Eager.step, ordDelete, a1, hres.2.2, e1]
    cases lookup (o.absSym t) s with
    | none => rfl
    | some v => simp only; split <;> rfl
  | putSym s v =>
    have hg : ∀ k, (o.putSym t s v).getOwnStr t k = o.getOwnStr t k := by intro k; simp [TObj.getOwnStr, TObj.putSym]
    have hn : (o.putSym t s v).names t = o.names t := by simp [TObj.names, TObj.putSym]
    have a1 : (o.putSym t s v).absStr t = o.absStr t := by simp [TObj.absStr, hn, hg]
    have hwf : (o.putSym t s v).WF t :=
      ⟨h.tmplNodup, h.valuesNodup, by rw [hn]; exact h.namesNodup, by intro k; rw [hn, hg]; exact h.namesIff k⟩
    refine ⟨?_, hwf⟩
    simp only [TObj.step, TObj.absE, Eager.step, a1, putSym_abs]
    rfl

theorem run_refines [DecidableEq V] (undef : V) (t : Tmpl V) (ops : List (TOp V)) :
    ∀ o : TObj V, o.WF t →
      (ops.foldl (TObj.step undef t) o).absE t = ops.foldl (Eager.step undef) (o.absE t) ∧ (ops.foldl (TObj.step undef t) o).WF t := by
  induction ops with
  | nil => intro o h; exact ⟨rfl, h⟩
  | cons op ops ih =>
    intro o h
    obtain ⟨e1, w1⟩ := step_refines undef t o h op
    obtain ⟨e2, w2⟩ := ih _ w1
    exact ⟨by simp only [List.foldl_cons]; rw [e2, e1], by simpa using w2⟩

end GojaModel.C04
