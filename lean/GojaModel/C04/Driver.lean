/-
  C04 model driver — line protocol (core Lean only).
    T ek ev ew ee ec ea eg es  dv dw de dc dg ds  ext             one `_defineOwnProperty` cell  → mechanism result ; spec verdict
    J <cell> <implementation result>                               → is it the transcription's result? + spec verdict of it
    N                                                              new op-sequence case (reset heap and monitor)
    mk <id> <kind> <proto>                                         create object
    def/set/get/del/has/hasown/pe/sp/frz/seal …                    spec-level ops  → result [+ dump of all objects]
    M <id> <dump>                                                  monitor one observed object state against the previous one
-/
import GojaModel.Base.Proto
import GojaModel.C04.Model
import GojaModel.C04.Typed
namespace GojaModel.C04.Driver
open GojaModel.C04 GojaModel.Proto

/-! ### table mode -/
def toI (s : String) : Int := s.toInt?.getD 0
def optVal (i : Int) : Option Nat := if i < 0 then (if i == -3 then some 0 else none) else some (100 + i.toNat)
def optFn (i : Int) : Option Nat := if i < 0 then none else some (200 + i.toNat)
def flagOf (i : Int) : Flag := if i == 1 then .fTrue else if i == 2 then .fFalse else .notSet
def accOf (i : Int) : Option (Option Nat) := if i == -2 then none else if i == -1 then some none else some (some (200 + i.toNat))
def showVal : Option Nat → String
  | none => "-1"
  | some 0 => "-3"
  | some n => toString (n - 100)
def showFn : Option Nat → String
  | none => "-1"
  | some n => toString (n - 200)
def b01 (b : Bool) : String := if b then "1" else "0"

def showStored : Option (Stored Nat) → String
  | none => "R"
  | some (.plain v) => s!"P 1 {showVal (some v)}"
  | some (.prop p) => s!"P 2 {showVal p.value} {b01 p.writable} {b01 p.enumerable} {b01 p.configurable} {b01 p.accessor} {showFn p.getterFunc} {showFn p.setterFunc}"

def tableCell (w : List String) : String :=
  match w.map toI with
  | [ek, ev, ew, ee, ec, ea, eg, es, dv, dw, de, dc, dg, ds, ext] =>
    let existing : Option (Stored Nat) :=
      if ek == 0 then none
      else if ek == 1 then some (.plain ((optVal ev).getD 0))
      else some (.prop { value := optVal ev, writable := ew == 1, enumerable := ee == 1, configurable := ec == 1,
                         accessor := ea == 1, getterFunc := optFn eg, setterFunc := optFn es })
    let d : Desc Nat := { value := optVal dv, writable := flagOf dw, enumerable := flagOf de, configurable := flagOf dc,
                          getter := accOf dg, setter := accOf ds }
    let res := defineOwn 0 existing d (ext == 1)
    let inv := match existing with | some s => s.repInv | none => true
    let verdict :=
      if !d.wellFormed || !inv then "na"
      else
        let specOk := decide (res.map (absProp 0) = validateAndApply 0 (existing.map (absProp 0)) d (ext == 1))
        let invOk := match res with | some s => s.repInv | none => true
        if specOk && invOk then "ok" else if !specOk then "spec" else "repinv"
    showStored res ++ " ; " ++ verdict
  | _ => "bad-line"

/-- `J <15 cell ints (no variant)> <result tokens>`: judge the IMPLEMENTATION's result for a cell against the spec. -/
def judgeCell (w : List String) : String :=
  let cell := (w.take 15).map toI
  let rs := w.drop 15
  match cell with
  | [ek, ev, ew, ee, ec, ea, eg, es, dv, dw, de, dc, dg, ds, ext] =>
    let existing : Option (Stored Nat) :=
      if ek == 0 then none
      else if ek == 1 then some (.plain ((optVal ev).getD 0))
      else some (.prop { value := optVal ev, writable := ew == 1, enumerable := ee == 1, configurable := ec == 1,
                         accessor := ea == 1, getterFunc := optFn eg, setterFunc := optFn es })
    let d : Desc Nat := { value := optVal dv, writable := flagOf dw, enumerable := flagOf de, configurable := flagOf dc,
                          getter := accOf dg, setter := accOf ds }
    let res : Option (Option (Stored Nat)) :=
      match rs with
      | ["R"] => some none
      | ["P", "1", v] => some (some (.plain ((optVal (toI v)).getD 0)))
      | ["P", "2", v, pw, pe, pc, pa, g, st] =>
        some (some (.prop { value := optVal (toI v), writable := pw == "1", enumerable := pe == "1", configurable := pc == "1",
                            accessor := pa == "1", getterFunc := optFn (toI g), setterFunc := optFn (toI st) }))
      | _ => none
    match res with
    | none => "unparsed"
    | some res =>
      let inv := match existing with | some s => s.repInv | none => true
      if !d.wellFormed || !inv then "na"
      else
        let specOk := decide (res.map (absProp 0) = validateAndApply 0 (existing.map (absProp 0)) d (ext == 1))
        let invOk := match res with | some s => s.repInv | none => true
        if specOk && invOk then "ok" else if !specOk then "spec" else "repinv"
  | _ => "bad-line"

/-- `J` line → `<implementation result = transcription's result> <spec verdict of the implementation result>` -/
def judgeCell2 (w : List String) : String :=
  let cell := w.take 15
  let rs := " ".intercalate (w.drop 15)
  let c := (tableCell cell).splitOn " ; " |>.headD ""
  b01 (c == rs) ++ " " ++ judgeCell w

/-! ### sequence mode -/
structure St where
  heap : Heap Nat
  n : Nat
  prev : List (Nat × Snap Nat)
  typed : Nat → Option (List Nat) := fun _ => none       -- integer-indexed exotic objects (Uint8Array): their elements

def St.xh (st : St) : XHeap Nat := { h := st.heap, typed := st.typed }
def St.ofX (st : St) (x : XHeap Nat) : St := { st with heap := x.h, typed := x.typed }

/-- ToNumber + ToUint8 on the value tokens: the pool numbers 100..105 stay, everything else becomes a number outside the
pools (undefined/functions → NaN → 0, getter results 300+i → 44+i, small numbers) -/
def coerceU8 (v : Nat) : Nat := if 100 ≤ v && v < 200 then v else 5000

def emptyObj : Obj Nat := { proto := none, ext := true, props := [] }
/-- the built-in prototypes the modelled kinds inherit from, as far as the key pool of the generator can see them:
900 = Object.prototype (none of the pool keys), 901 = Function.prototype (`length`, `name`: non-writable, configurable),
999 = String.prototype (`length`: frozen). -/
def builtinObj (i : Nat) : Obj Nat :=
  if i == 901 then
    { proto := some 900, ext := true,
      props := [(Key.str "length", SProp.data 5000 false false true), (Key.str "name", SProp.data 5000 false false true)] }
  else if i == 999 then
    { proto := some 900, ext := true, props := [(Key.str "length", SProp.data 5000 false false false)] }
  else if i == 998 then
    -- Uint8Array.prototype → %TypedArray%.prototype: `length` is an accessor whose getter (token 5002) throws a TypeError
    -- unless `this` is a typed array
    { proto := some 900, ext := true, props := [(Key.str "length", SProp.acc (some 5002) none false true)] }
  else emptyObj
def St.init : St := { heap := builtinObj, n := 0, prev := [], typed := fun _ => none }

def valOf (t : String) : Nat :=
  if t == "u" then 0
  else match t.toList with
    | 'n' :: r => 100 + (String.ofList r).toNat!
    | 'f' :: r => 200 + (String.ofList r).toNat!
    | 'r' :: r => 300 + (String.ofList r).toNat!
    | 'o' :: r => 1000 + (String.ofList r).toNat!
    | _ => 5000
def showV (v : Nat) : String :=
  if v == 0 then "u" else if v ≥ 5000 then "x" else if v ≥ 1000 then s!"o{v - 1000}"
  else if v ≥ 300 then s!"r{v - 300}" else if v ≥ 200 then s!"f{v - 200}" else s!"n{v - 100}"
def keyOf (t : String) : Key :=
  match t.toList with
  | 'i' :: r => .idx (String.ofList r).toNat!
  | 'I' :: r => .idx (String.ofList r).toNat!
  | 'y' :: r => .sym (String.ofList r).toNat!
  | _ :: r => .str (String.ofList r)
  | [] => .str ""
def showK : Key → String
  | .idx n => s!"i{n}"
  | .str s => s!"s{s}"
  | .sym n => s!"y{n}"
def protoOf (t : String) : Option Nat :=
  if t == "null" then none else if t == "O" then some 900 else if t == "F" then some 901
  else match t.toList with
    | 'o' :: r => some (String.ofList r).toNat!
    | _ => some 999
def showProto : Option Nat → String
  | none => "null"
  | some 900 => "O"
  | some 901 => "F"
  | some 999 => "?"
  | some 998 => "?"
  | some n => s!"o{n}"
def recvOf (o : Nat) (t : String) : Recv :=
  if t == "=" then .obj o else if t == "p" then .prim
  else match t.toList with
    | 'o' :: r => .obj (String.ofList r).toNat!
    | _ => .prim
def showRecv : Recv → String
  | .obj n => s!"o{n}"
  | .prim => "p"
def objOfTok (t : String) : Nat :=
  match t.toList with
  | 'o' :: r => (String.ofList r).toNat!
  | _ => 0
def flagTok (t : String) : Flag := if t == "t" then .fTrue else if t == "f" then .fFalse else .notSet
def accTok (t : String) : Option (Option Nat) :=
  if t == "-" then none else if t == "u" then some none else some (some (valOf t))

def showFnO : Option Nat → String
  | none => "u"
  | some f => showV f
def tf (b : Bool) : String := if b then "t" else "f"
def showProp : SProp Nat → String
  | .data v w e c => s!"D/{showV v}/{tf w}/{tf e}/{tf c}"
  | .acc g s e c => s!"A/{showFnO g}/{showFnO s}/{tf e}/{tf c}"

def fuelOf (st : St) : Nat := st.n + 4

/-- for-in order: enumerable string-keyed properties along the chain, own keys first, shadowed names skipped. -/
def forIn (xh : XHeap Nat) : List Nat → List Key → List Key
  | [], _ => []
  | o :: rest, seen =>
    let ks := (xOwnKeys xh o).filter (fun k => !k.isSym)
    let fresh := ks.filter (fun k => !seen.contains k)
    let en := fresh.filter (fun k => match xGetOwn xh o k with | some p => p.enumerable | none => false)
    en ++ forIn xh rest (seen ++ fresh)

def dumpObj (st : St) (i : Nat) : String :=
  let o := st.heap i
  let xh := st.xh
  let keys := xOwnKeys xh i
  let ks := ",".intercalate (keys.map showK)
  let ps := ",".intercalate (keys.filterMap (fun k => (xGetOwn xh i k).map (fun p => showK k ++ ":" ++ showProp p)))
  let fi := ",".intercalate ((forIn xh (chainOf st.heap (fuelOf st) i) []).map showK)
  s!"O{i} proto={showProto o.proto} ext={tf o.ext} fz={tf (xTestIntegrity xh i true)} sl={tf (xTestIntegrity xh i false)} keys=[{ks}] props=[{ps}] forin=[{fi}]"

def dumpAll (st : St) : String :=
  " | ".intercalate ((List.range st.n).map (dumpObj st))

def xv : Nat := 5000
def initProps (kind : String) : List (Key × SProp Nat) :=
  let ln := [(Key.str "length", SProp.data xv false false true), (Key.str "name", SProp.data xv false false true)]
  if kind == "arrow" || kind == "bound" then ln
  else if kind == "class" then ln ++ [(Key.str "prototype", SProp.data xv false false false)]
  -- an ordinary function: `prototype` (writable, not enumerable, not configurable) is created with the function, right
  -- after `length` and `name` (the mechanism creates it lazily: theorem `lazyPrototype_refines_up_to_key_position`)
  else if kind == "func" then ln ++ [(Key.str "prototype", SProp.data xv true false false)]
  -- String exotic object `new String("ab")` (10.4.3) = ordinary object + the virtual index properties (theorem
  -- `stringExotic_*` in Props): indices non-writable, enumerable, non-configurable; `length` frozen
  else if kind == "strobj" then
    [(Key.idx 0, SProp.data xv false true false), (Key.idx 1, SProp.data xv false true false),
     (Key.str "length", SProp.data xv false false false)]
  -- unmapped (strict) arguments object of f(101, 102) (10.4.4.6): an ORDINARY object with these own properties;
  -- `callee` is the %ThrowTypeError% accessor (foreign function token: calling it throws), y3 = Symbol.iterator
  -- mapped (sloppy) arguments object of f(101, 102): observationally ordinary while the parameter variables are private
  -- (theorems `mappedArguments_*`); `callee` is the function (foreign value), y3 = Symbol.iterator
  else if kind == "args" then
    [(Key.idx 0, SProp.data 101 true true true), (Key.idx 1, SProp.data 102 true true true),
     (Key.str "length", SProp.data xv true false true),
     (Key.str "callee", SProp.data xv true false true),
     (Key.sym 3, SProp.data xv true false true)]
  else if kind == "sargs" then
    [(Key.idx 0, SProp.data 101 true true true), (Key.idx 1, SProp.data 102 true true true),
     (Key.str "length", SProp.data xv true false true),
     (Key.str "callee", SProp.acc (some xv) (some xv) false false),
     (Key.sym 3, SProp.data xv true false true)]
  else []

def resTok (via : String) (ok : Bool) : String :=
  if via == "S" then "-" else if via == "R" then tf ok else if ok then "ok" else "throw"

def finish (st : St) (res : String) (dump : Bool) : St × String :=
  (st, if dump then res ++ " # " ++ dumpAll st else res)

def step (st : St) (line : String) : St × String :=
  let w := words line
  match w with
  | "T" :: rest => (st, tableCell rest)
  | "J" :: rest => (st, judgeCell2 rest)
  | ["N"] => (St.init, "new")
  | ["mk", id, kind, proto] =>
    let i := id.toNat!
    let pr := if kind == "u8" && proto == "?" then some 998 else protoOf proto
    let o : Obj Nat := { proto := pr, ext := true, props := initProps kind }
    let ty := if kind == "u8" then (fun j => if j = i then some [5000, 5000] else st.typed j) else st.typed
    ({ st with heap := st.heap.upd i o, n := max st.n (i + 1), typed := ty }, "mk")
  | ["def", via, o, k, dv, dw, de, dc, dg, ds, dump] =>
    let oi := objOfTok o
    let d : Desc Nat := { value := if dv == "-" then none else some (valOf dv), writable := flagTok dw,
                          enumerable := flagTok de, configurable := flagTok dc, getter := accTok dg, setter := accTok ds }
    let key := keyOf k
    let (x, ok) := xDefine 0 coerceU8 st.xh oi key d
    finish (st.ofX x) (resTok via ok) (dump == "D")
  | ["set", via, o, k, v, r, dump] =>
    let oi := objOfTok o
    let recv := recvOf oi r
    let (x, a) := xSet 0 coerceU8 st.xh (chainOf st.heap (fuelOf st) oi) (keyOf k) (valOf v) recv
    let res := match a with
      | .fail => resTok via false
      | .ok => resTok via true
      | .call f this arg =>
        if f ≥ 5000 then "throw"                       -- %ThrowTypeError% (arguments.callee)
        else resTok via true ++ s!" s{f - 200}@{showRecv this}={showV arg}"
    finish (st.ofX x) res (dump == "D")
  | ["get", via, o, k, r, dump] =>
    let oi := objOfTok o
    let recv := recvOf oi r
    let res := match xGet 0 st.xh (chainOf st.heap (fuelOf st) oi) (keyOf k) recv with
      | .val v => showV v
      | .call f this =>
        if f == 5002 then
          (match this with
           | .obj t => if (st.typed t).isSome then "x" else "throw"     -- %TypedArray%.prototype.length
           | .prim => "throw")
        else if f ≥ 5000 then "throw" else s!"r{f - 200} g{f - 200}@{showRecv this}"
    finish st res (dump == "D")
  | ["del", via, o, k, dump] =>
    let oi := objOfTok o
    let (x, ok) := xDelete st.xh oi (keyOf k)
    let res := if via == "S" then tf ok else if via == "T" then (if ok then "t" else "throw") else resTok via ok
    finish (st.ofX x) res (dump == "D")
  | ["has", _, o, k, dump] =>
    let oi := objOfTok o
    finish st (tf (xHas st.xh (chainOf st.heap (fuelOf st) oi) (keyOf k))) (dump == "D")
  | ["hasown", _, o, k, dump] =>
    finish st (tf (xGetOwn st.xh (objOfTok o) (keyOf k)).isSome) (dump == "D")
  | ["pe", via, o, dump] =>
    finish { st with heap := sPreventExt st.heap (objOfTok o) } (resTok via true) (dump == "D")
  | ["sp", via, o, p, dump] =>
    let (h, ok) := sSetProto st.heap (fuelOf st) (objOfTok o) (protoOf p)
    finish { st with heap := h } (resTok via ok) (dump == "D")
  | ["frz", o, dump] =>
    let (x, ok) := xSetIntegrity st.xh (objOfTok o) true
    finish (st.ofX x) (if ok then "ok" else "throw") (dump == "D")
  | ["seal", o, dump] =>
    let (x, ok) := xSetIntegrity st.xh (objOfTok o) false
    finish (st.ofX x) (if ok then "ok" else "throw") (dump == "D")
  | "M" :: id :: rest =>
    -- monitor: parse one object dump (tokens proto= ext= keys=[..] props=[..]) and compare with the previous one
    let field (name : String) : String :=
      match rest.find? (fun t => t.startsWith (name ++ "=")) with
      | some t => (t.drop (name.length + 1)).toString
      | none => ""
    let unbr (s : String) : List String :=
      let inner := String.ofList ((s.toList.drop 1).reverse.drop 1).reverse
      if inner.isEmpty then [] else inner.splitOn ","
    let parseProp (t : String) : Option (Key × SProp Nat) :=
      match t.splitOn ":" with
      | [k, d] =>
        match d.splitOn "/" with
        | ["D", v, w, e, c] => some (keyOf k, .data (valOf v) (w == "t") (e == "t") (c == "t"))
        | ["A", g, s, e, c] => some (keyOf k, .acc (if g == "u" then none else some (valOf g)) (if s == "u" then none else some (valOf s)) (e == "t") (c == "t"))
        | _ => none
      | _ => none
    let props := (unbr (field "props")).filterMap parseProp
    let sn : Snap Nat := { proto := protoOf (field "proto"), ext := field "ext" == "t",
                           keys := (unbr (field "keys")).map keyOf, props := props }
    let i := id.toNat!
    let ord := field "ord" != "f"
    let okSelf := keysNodup sn.keys && (!ord || keysOrdered sn.keys) && sn.keys == sn.props.map (·.1)
      && props.length == (unbr (field "props")).length
    let okStep := match st.prev.find? (fun p => p.1 == i) with
      | some (_, p) => monitorStep p sn
      | none => true
    let why := (if !keysNodup sn.keys then " dup-keys" else "") ++ (if ord && !keysOrdered sn.keys then " key-order" else "")
      ++ (if !(sn.keys == sn.props.map (·.1)) then " keys-vs-descriptors" else "") ++ (if !okStep then " step" else "")
    ({ st with prev := (i, sn) :: st.prev.filter (fun p => p.1 != i) }, if okSelf && okStep then "ok" else "bad" ++ why)
  | _ => (st, "bad-line")

def main : IO Unit := lineLoop step St.init

end GojaModel.C04.Driver
