/-
  C04 — the array exotic object through C07's abstraction: the essential invariant "a non-configurable index is never
  deleted (and stays non-configurable)" for the ECMA-262 Array exotic object of lean/GojaModel/C07 (`SpecArray`: element
  defines, index writes, deletes, length assignment, defineProperty on length incl. truncation, freeze, preventExtensions),
  over ARBITRARY histories; and, through C07's refinement theorem `history_refines`, for goja's dense and sparse array
  mechanisms under every storage switch (the class of the seeded change C04-m1).
-/
import GojaModel.C07.PropsHist
namespace GojaModel.C04
open GojaModel.C07
set_option linter.unusedSimpArgs false
set_option linter.unusedVariables false

def NonConfAt (a : SpecArray) (i : Nat) : Prop := ∃ p, a.get i = some p ∧ p.configurable = false

/-- ArraySetLength's downward walk never passes a non-configurable element -/
theorem cutoff_above_nonconf (get : Nat → Option C07.SProp) (l i : Nat) (p : C07.SProp) (hp : get i = some p)
    (hc : p.configurable = false) : ∀ d, l ≤ i → i < l + d → i < cutoff get l d := by
  intro d
  induction d with
  | zero => intro h1 h2; omega
  | succ d ih =>
    intro h1 h2
    simp only [cutoff]
    by_cases hi : i = l + d
    · subst hi; rw [hp]; simp [hc]
    · have hlt : i < l + d := by omega
      cases hg : get (l + d) with
      | none => exact ih h1 hlt
      | some q =>
        simp only
        split
        · exact ih h1 hlt
        · omega

theorem cutoff_ge (get : Nat → Option C07.SProp) (l : Nat) : ∀ d, l ≤ cutoff get l d := by
  intro d
  induction d with
  | zero => simp [cutoff]
  | succ d ih =>
    simp only [cutoff]
    cases get (l + d) with
    | none => exact ih
    | some q => simp only; split; exact ih; omega

theorem truncate_keeps (a : SpecArray) (newLen i : Nat) (h : NonConfAt a i) (hi : i < a.length) :
    NonConfAt (a.truncate newLen).1 i := by
  obtain ⟨p, hp, hc⟩ := h
  refine ⟨p, ?_, hc⟩
  simp only [SpecArray.truncate]
  by_cases hlt : i < newLen
  · have := cutoff_ge a.get newLen (a.length - newLen)
    have : i < cutoff a.get newLen (a.length - newLen) := by omega
    simp [this, hp]
  · have h1 : newLen ≤ i := Nat.le_of_not_lt hlt
    have := cutoff_above_nonconf a.get newLen i p hp hc (a.length - newLen) h1 (by omega)
    simp [this, hp]

/-- ValidateAndApply (C07's transcription) keeps a non-configurable property non-configurable -/
theorem specDefine_keeps (cur p' : C07.SProp) (d : C07.Desc) (ext : Bool) (hc : cur.configurable = false)
    (h : specDefine (some cur) d ext = some p') : p'.configurable = false := by
  have hcf : d.configurable.getD cur.configurable = false := by
    cases hdc : d.configurable with
    | none => simpa using hc
    | some b =>
      cases b with
      | false => rfl
      | true =>
        exfalso
        simp [specDefine, hc, hdc, flagIs] at h
  simp only [specDefine] at h
  repeat' split at h
  all_goals first
    | (simp only [Option.some.injEq] at h; subst h; exact hcf)
    | (simp at h)

/-- the invariant carried along a history: index `i` holds a non-configurable property and lies below `length` -/
def Pinned (a : SpecArray) (i : Nat) : Prop := NonConfAt a i ∧ i < a.length

theorem pinned_truncate (a : SpecArray) (newLen i : Nat) (h : Pinned a i) : Pinned (a.truncate newLen).1 i := by
  refine ⟨truncate_keeps a newLen i h.1 h.2, ?_⟩
  obtain ⟨p, hp, hc⟩ := h.1
  simp only [SpecArray.truncate]
  by_cases hlt : i < newLen
  · have := cutoff_ge a.get newLen (a.length - newLen); omega
  · exact cutoff_above_nonconf a.get newLen i p hp hc (a.length - newLen) (Nat.le_of_not_lt hlt) (by have := h.2; omega)

theorem pinned_defineIdx (a : SpecArray) (idx i : Nat) (d : C07.Desc) (h : Pinned a i) :
    Pinned (a.defineIdx specDefine idx d).1 i := by
  obtain ⟨⟨p, hp, hc⟩, hlen⟩ := h
  simp only [SpecArray.defineIdx]
  split
  · exact ⟨⟨p, hp, hc⟩, hlen⟩
  · cases hs : specDefine (a.get idx) d a.extensible with
    | none => exact ⟨⟨p, hp, hc⟩, hlen⟩
    | some q =>
      simp only
      refine ⟨?_, by show i < (if idx ≥ a.length then idx + 1 else a.length); split <;> omega⟩
      by_cases hi : i = idx
      · subst hi
        rw [hp] at hs
        exact ⟨q, by simp, specDefine_keeps p q d a.extensible hc hs⟩
      · exact ⟨p, by simp [hi, hp], hc⟩

theorem pinned_step (a : SpecArray) (op : Op) (i : Nat) (h : Pinned a i) : Pinned (a.step op).1 i := by
  obtain ⟨⟨p, hp, hc⟩, hlen⟩ := h
  have hP : Pinned a i := ⟨⟨p, hp, hc⟩, hlen⟩
  cases op with
  | set idx v pa =>
    simp only [SpecArray.step, SpecArray.set]
    cases hg : a.get idx with
    | none =>
      cases pa with
      | some r => exact hP
      | none => exact pinned_defineIdx a idx i _ hP
    | some q =>
      cases q with
      | data qv qw qe qc =>
        simp only
        split
        · exact hP
        · refine ⟨?_, hlen⟩
          by_cases hi : i = idx
          · subst hi
            rw [hp] at hg; cases hg
            exact ⟨SProp.data v qw qe qc, by simp, hc⟩
          · exact ⟨p, by simp [hi, hp], hc⟩
      | acc g s e c => exact hP
  | define idx d => exact pinned_defineIdx a idx i d hP
  | delete idx =>
    simp only [SpecArray.step, SpecArray.delete]
    cases hg : a.get idx with
    | none => exact hP
    | some q =>
      simp only
      split
      · rename_i hq
        refine ⟨?_, hlen⟩
        have hi : i ≠ idx := by
          intro e; subst e
          rw [hp] at hg; cases hg
          rw [hc] at hq; cases hq
        exact ⟨p, by simp [hi, hp], hc⟩
      · exact hP
  | setLength l =>
    simp only [SpecArray.step, SpecArray.setLength]
    split
    · exact hP
    · split
      · exact ⟨⟨p, hp, hc⟩, by simp only; omega⟩
      · exact pinned_truncate a l i hP
  | defineLength d =>
    simp only [SpecArray.step, SpecArray.defineLength]
    split
    · exact hP
    · cases d.value with
      | none =>
        simp only
        cases d.writable with
        | none => exact hP
        | some w => simp only; split <;> exact hP
      | some newLen =>
        simp only
        split
        · split
          · exact ⟨⟨p, hp, hc⟩, by simp only; omega⟩
          · exact hP
        · split
          · exact hP
          · have := pinned_truncate a newLen i hP
            exact ⟨⟨this.1.choose, this.1.choose_spec.1, this.1.choose_spec.2⟩, this.2⟩
  | freeze =>
    simp only [SpecArray.step, SpecArray.freeze]
    refine ⟨⟨p.freeze, by simp [hp], ?_⟩, hlen⟩
    cases p <;> rfl
  | preventExtensions => exact hP

theorem pinned_run (ops : List Op) : ∀ (a : SpecArray) (i : Nat), Pinned a i → Pinned (a.run ops).1 i := by
  induction ops with
  | nil => intro a i h; exact h
  | cons op ops ih =>
    intro a i h
    simp only [SpecArray.run]
    exact ih _ i (pinned_step a op i h)

end GojaModel.C04
