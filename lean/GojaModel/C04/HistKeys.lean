/-
  C04 — [[OwnPropertyKeys]] over arbitrary histories: unique, ordered (indices ascending, then strings, then symbols, each
  in creation order) and consistent with [[GetOwnProperty]].
-/
import GojaModel.C04.Hist
namespace GojaModel.C04
set_option linter.unusedSimpArgs false
set_option linter.unusedVariables false

def keysOf {α} (l : List (Key × α)) : List Key := l.map (·.1)

theorem mem_keys_iff {α} (l : List (Key × α)) (k : Key) : k ∈ keysOf l ↔ (lookup l k).isSome = true := by
  induction l with
  | nil => simp [keysOf, lookup]
  | cons x xs ih =>
    obtain ⟨k0, a0⟩ := x
    by_cases h : k0 = k
    · subst h; simp [keysOf, lookup]
    · simp only [keysOf, List.map_cons, List.mem_cons, lookup, h, if_false]
      simp only [keysOf] at ih
      rw [← ih]
      constructor
      · rintro (h1 | h1)
        · exact absurd h1.symm h
        · exact h1
      · exact Or.inr

theorem keys_put {α} (l : List (Key × α)) (k : Key) (a : α) :
    keysOf (put l k a) = if k ∈ keysOf l then keysOf l else keysOf l ++ [k] := by
  induction l with
  | nil => simp [keysOf, put]
  | cons x xs ih =>
    obtain ⟨k0, a0⟩ := x
    by_cases h : k0 = k
    · subst h; simp [keysOf, put]
    · simp only [keysOf] at ih
      have hne : ¬ k = k0 := fun e => h e.symm
      simp only [keysOf, put, h, if_false, List.map_cons, List.mem_cons, hne, false_or, ih]
      split <;> simp [*]

theorem keys_erase {α} (l : List (Key × α)) (k : Key) : keysOf (eraseKey l k) = (keysOf l).erase k := by
  induction l with
  | nil => simp [keysOf, eraseKey]
  | cons x xs ih =>
    obtain ⟨k0, a0⟩ := x
    by_cases h : k0 = k
    · subst h; simp [keysOf, eraseKey]
    · simp only [keysOf] at ih
      have hb : ¬ (k0 == k) = true := by simp [h]
      simp [keysOf, eraseKey, h, ih, List.erase_cons_tail hb]

theorem keys_map {α β} (f : α → β) (l : List (Key × α)) : keysOf (l.map (fun kp => (kp.1, f kp.2))) = keysOf l := by
  simp [keysOf, List.map_map, Function.comp_def]

theorem nodup_put {α} (l : List (Key × α)) (k : Key) (a : α) (h : (keysOf l).Nodup) : (keysOf (put l k a)).Nodup := by
  rw [keys_put]
  split
  · exact h
  · rename_i hk
    apply List.nodup_append.mpr
    refine ⟨h, by simp, ?_⟩
    intro x hx y hy hxy
    simp at hy; subst hy; subst hxy; exact hk hx

/-- every own key list of the heap is duplicate-free -/
def KeysNodup {V} (h : Heap V) : Prop := ∀ o, (keysOf (h o).props).Nodup

theorem step_keysNodup {V} [DecidableEq V] (undef : V) (h : Heap V) (op : SOp V) (hn : KeysNodup h) :
    KeysNodup (sStep undef h op) := by
  intro o
  cases op with
  | define o' k' d =>
    simp only [sStep, sDefine]
    cases validateAndApply undef (lookup (h o').props k') d (h o').ext with
    | none => exact hn o
    | some q =>
      simp only
      by_cases ho : o = o'
      · subst ho; rw [upd_same]; exact nodup_put _ _ _ (hn o)
      · rw [upd_other _ _ _ _ ho]; exact hn o
  | set chain k0 v r =>
    simp only [sStep, sSet]
    cases ordinarySet undef h.view chain k0 v r with
    | fail => exact hn o
    | call f t a => exact hn o
    | write o' k' q n =>
      simp only [applyAct]
      by_cases ho : o = o'
      · subst ho; rw [upd_same]; exact nodup_put _ _ _ (hn o)
      · rw [upd_other _ _ _ _ ho]; exact hn o
  | delete o' k' =>
    simp only [sStep, sDelete]
    cases lookup (h o').props k' with
    | none => exact hn o
    | some q =>
      simp only
      split
      · dsimp only
        by_cases ho : o = o'
        · subst ho; rw [upd_same]; simp only; rw [keys_erase]; exact List.Nodup.erase _ (hn o)
        · rw [upd_other _ _ _ _ ho]; exact hn o
      · exact hn o
  | preventExt o' =>
    simp only [sStep, sPreventExt]
    by_cases ho : o = o'
    · subst ho; rw [upd_same]; exact hn o
    · rw [upd_other _ _ _ _ ho]; exact hn o
  | setProto f o' pr =>
    simp only [sStep]; rw [sSetProto_props]; exact hn o
  | integrity o' fr =>
    simp only [sStep, sSetIntegrity]
    by_cases ho : o = o'
    · subst ho; rw [upd_same]; simp only
      rw [keys_map (fun q => if fr then freezeProp q else sealProp q)]; exact hn o
    · rw [upd_other _ _ _ _ ho]; exact hn o

theorem run_keysNodup {V} [DecidableEq V] (undef : V) (ops : List (SOp V)) :
    ∀ h : Heap V, KeysNodup h → KeysNodup (sRun undef h ops) := by
  induction ops with
  | nil => intro h hn; exact hn
  | cons op ops ih => intro h hn; exact ih _ (step_keysNodup undef h op hn)

/-! ### sorting of the index keys -/
theorem perm_insertNat (x : Nat) (l : List Nat) : (insertNat x l).Perm (x :: l) := by
  induction l with
  | nil => simp [insertNat]
  | cons a as ih =>
    simp only [insertNat]
    split
    · exact (List.Perm.cons a ih).trans (List.Perm.swap x a as)
    · exact List.Perm.refl _

theorem perm_sortNat (l : List Nat) : (sortNat l).Perm l := by
  induction l with
  | nil => simp [sortNat]
  | cons a as ih =>
    simp only [sortNat, List.foldr_cons]
    exact (perm_insertNat a _).trans (List.Perm.cons a ih)

theorem sorted_insertNat (x : Nat) (l : List Nat) (h : l.Pairwise (· ≤ ·)) : (insertNat x l).Pairwise (· ≤ ·) := by
  induction l with
  | nil => simp [insertNat]
  | cons a as ih =>
    have ha := List.pairwise_cons.mp h
    simp only [insertNat]
    split
    · rename_i hax
      apply List.pairwise_cons.mpr
      refine ⟨?_, ih ha.2⟩
      intro b hb
      have hb' := (List.Perm.mem_iff (perm_insertNat x as)).mp hb
      rcases List.mem_cons.mp hb' with h1 | h1
      · subst h1; exact Nat.le_of_lt hax
      · exact ha.1 b h1
    · rename_i hax
      apply List.pairwise_cons.mpr
      refine ⟨?_, h⟩
      intro b hb
      have hxa : x ≤ a := Nat.le_of_not_lt hax
      rcases List.mem_cons.mp hb with h1 | h1
      · subst h1; exact hxa
      · exact Nat.le_trans hxa (ha.1 b h1)

theorem sorted_sortNat (l : List Nat) : (sortNat l).Pairwise (· ≤ ·) := by
  induction l with
  | nil => simp [sortNat]
  | cons a as ih => simp only [sortNat, List.foldr_cons]; exact sorted_insertNat a _ ih

theorem strict_sortNat (l : List Nat) (hn : l.Nodup) : (sortNat l).Pairwise (· < ·) := by
  have h1 := sorted_sortNat l
  have h2 : (sortNat l).Nodup := (List.Perm.nodup_iff (perm_sortNat l)).mpr hn
  have := List.Pairwise.and h1 h2
  exact this.imp (fun ⟨hle, hne⟩ => Nat.lt_of_le_of_ne hle hne)

/-- the order of OrdinaryOwnPropertyKeys as a relation on pairs -/
def keyLt (a b : Key) : Prop :=
  keyClass a < keyClass b ∨ (keyClass a = keyClass b ∧ (a.isIdx = false ∨ a.idxVal < b.idxVal))

theorem keysOrdered_of_pairwise : ∀ l : List Key, l.Pairwise keyLt → keysOrdered l = true := by
  intro l
  induction l with
  | nil => intro _; rfl
  | cons a rest ih =>
    intro h
    cases rest with
    | nil => rfl
    | cons b rest' =>
      have ha := List.pairwise_cons.mp h
      have hab := ha.1 b (List.mem_cons_self)
      simp only [keysOrdered, Bool.and_eq_true]
      refine ⟨?_, ih ha.2⟩
      rcases hab with h1 | ⟨h1, h2⟩
      · simp [h1]
      · rcases h2 with h2 | h2 <;> simp [h1, h2]

theorem idxKey_inj (l : List Key) (hi : ∀ k ∈ l, k.isIdx = true) (hn : l.Nodup) : (l.map Key.idxVal).Nodup := by
  induction l with
  | nil => simp
  | cons a as ih =>
    have ha := List.nodup_cons.mp hn
    simp only [List.map_cons]
    apply List.nodup_cons.mpr
    refine ⟨?_, ih (fun k hk => hi k (List.mem_cons_of_mem _ hk)) ha.2⟩
    intro hm
    obtain ⟨b, hb, hbe⟩ := List.mem_map.mp hm
    have : b = a := by
      have h1 := hi a (List.mem_cons_self)
      have h2 := hi b (List.mem_cons_of_mem _ hb)
      cases a <;> cases b <;> simp_all [Key.isIdx, Key.idxVal]
    subst this
    exact ha.1 hb

theorem nodup_map_idx (l : List Nat) (h : l.Nodup) : (l.map Key.idx).Nodup := by
  induction l with
  | nil => simp
  | cons a as ih =>
    have ha := List.nodup_cons.mp h
    simp only [List.map_cons]
    apply List.nodup_cons.mpr
    refine ⟨?_, ih ha.2⟩
    intro hm
    obtain ⟨b, hb, hbe⟩ := List.mem_map.mp hm
    cases hbe
    exact ha.1 hb

theorem class_str {ks : List Key} {k : Key} (h : k ∈ ks.filter (fun k => !k.isIdx && !k.isSym)) :
    keyClass k = 1 ∧ k.isIdx = false := by
  have := (List.mem_filter.mp h).2
  cases k <;> simp_all [Key.isIdx, Key.isSym, keyClass]

theorem class_sym {ks : List Key} {k : Key} (h : k ∈ ks.filter Key.isSym) : keyClass k = 2 ∧ k.isIdx = false := by
  have := (List.mem_filter.mp h).2
  cases k <;> simp_all [Key.isIdx, Key.isSym, keyClass]

theorem class_idx {l : List Nat} {k : Key} (h : k ∈ l.map Key.idx) : keyClass k = 0 := by
  obtain ⟨n, _, rfl⟩ := List.mem_map.mp h
  rfl

/-- OrdinaryOwnPropertyKeys of a duplicate-free property list: exactly the keys that have a descriptor, no duplicates,
indices ascending first, then strings, then symbols (each class in creation order). -/
theorem ownKeys_spec {α} (props : List (Key × α)) (hn : (keysOf props).Nodup) :
    (∀ k, k ∈ ownKeys props ↔ (lookup props k).isSome = true) ∧ (ownKeys props).Nodup ∧ keysOrdered (ownKeys props) = true := by
  have hks : props.map (·.1) = keysOf props := rfl
  simp only [ownKeys, hks]
  generalize hK : keysOf props = ks at hn
  have hmemI : ∀ n, n ∈ sortNat ((ks.filter Key.isIdx).map Key.idxVal) ↔ Key.idx n ∈ ks := by
    intro n
    rw [List.Perm.mem_iff (perm_sortNat _)]
    constructor
    · intro h
      obtain ⟨b, hb, hbe⟩ := List.mem_map.mp h
      have hb' := List.mem_filter.mp hb
      cases b <;> simp_all [Key.isIdx, Key.idxVal]
    · intro h
      exact List.mem_map.mpr ⟨Key.idx n, List.mem_filter.mpr ⟨h, rfl⟩, rfl⟩
  refine ⟨?_, ?_, ?_⟩
  · intro k
    rw [← mem_keys_iff, hK]
    simp only [List.mem_append, List.mem_map, List.mem_filter]
    constructor
    · rintro ((⟨n, hn1, rfl⟩ | h) | h)
      · exact (hmemI n).mp hn1
      · exact h.1
      · exact h.1
    · intro h
      cases k with
      | idx n => exact Or.inl (Or.inl ⟨n, (hmemI n).mpr h, rfl⟩)
      | str s => exact Or.inl (Or.inr ⟨h, by simp [Key.isIdx, Key.isSym]⟩)
      | sym n => exact Or.inr ⟨h, by simp [Key.isSym]⟩
  · have hI : ((sortNat ((ks.filter Key.isIdx).map Key.idxVal)).map Key.idx).Nodup := by
      have h1 : ((ks.filter Key.isIdx).map Key.idxVal).Nodup :=
        idxKey_inj _ (fun k hk => (List.mem_filter.mp hk).2) (List.Nodup.sublist List.filter_sublist hn)
      have h2 := (List.Perm.nodup_iff (perm_sortNat _)).mpr h1
      exact nodup_map_idx _ h2
    apply List.nodup_append.mpr
    refine ⟨?_, List.Nodup.sublist List.filter_sublist hn, ?_⟩
    · apply List.nodup_append.mpr
      refine ⟨hI, List.Nodup.sublist List.filter_sublist hn, ?_⟩
      intro a ha b hb hab
      subst hab
      obtain ⟨n, _, rfl⟩ := List.mem_map.mp ha
      have := (List.mem_filter.mp hb).2
      simp [Key.isIdx] at this
    · intro a ha b hb hab
      subst hab
      have hs := (List.mem_filter.mp hb).2
      rcases List.mem_append.mp ha with h1 | h1
      · obtain ⟨n, _, rfl⟩ := List.mem_map.mp h1; simp [Key.isSym] at hs
      · have := (List.mem_filter.mp h1).2; simp [hs] at this
  · apply keysOrdered_of_pairwise
    apply List.pairwise_append.mpr
    refine ⟨?_, ?_, ?_⟩
    · apply List.pairwise_append.mpr
      refine ⟨?_, ?_, ?_⟩
      · have h1 : ((ks.filter Key.isIdx).map Key.idxVal).Nodup :=
          idxKey_inj _ (fun k hk => (List.mem_filter.mp hk).2) (List.Nodup.sublist List.filter_sublist hn)
        have := strict_sortNat _ h1
        exact List.pairwise_map.mpr (this.imp (fun {a b} hab => Or.inr ⟨rfl, Or.inr (by simpa [Key.idxVal] using hab)⟩))
      · apply List.pairwise_of_forall_mem_list
        intro a ha b hb
        exact Or.inr ⟨by rw [(class_str ha).1, (class_str hb).1], Or.inl (class_str ha).2⟩
      · intro a ha b hb
        exact Or.inl (by rw [class_idx ha, (class_str hb).1]; decide)
    · apply List.pairwise_of_forall_mem_list
      intro a ha b hb
      exact Or.inr ⟨by rw [(class_sym ha).1, (class_sym hb).1], Or.inl (class_sym ha).2⟩
    · intro a ha b hb
      rcases List.mem_append.mp ha with h1 | h1
      · exact Or.inl (by rw [class_idx h1, (class_sym hb).1]; decide)
      · exact Or.inl (by rw [(class_str h1).1, (class_sym hb).1]; decide)

/-! ### the observable snapshot of an object and the monitor -/

theorem keysNodup_iff (l : List Key) : keysNodup l = true ↔ l.Nodup := by
  induction l with
  | nil => simp [keysNodup]
  | cons a as ih => simp [keysNodup, ih, List.nodup_cons]

theorem filterMap_keys {α} (props : List (Key × α)) (ks : List Key) (h : ∀ k ∈ ks, (lookup props k).isSome = true) :
    (ks.filterMap (fun k => (lookup props k).map (fun p => (k, p)))).map (·.1) = ks := by
  induction ks with
  | nil => rfl
  | cons k ks ih =>
    have hk := h k (List.mem_cons_self)
    cases hl : lookup props k with
    | none => rw [hl] at hk; cases hk
    | some p =>
      simp only [List.filterMap_cons, hl, Option.map_some, List.map_cons]
      rw [ih (fun k' hk' => h k' (List.mem_cons_of_mem _ hk'))]

theorem lookup_filterMap_keys {α} (props : List (Key × α)) (ks : List Key) (k : Key) :
    lookup (ks.filterMap (fun k => (lookup props k).map (fun p => (k, p)))) k = if k ∈ ks then lookup props k else none := by
  induction ks with
  | nil => simp [lookup]
  | cons k0 ks ih =>
    cases hl : lookup props k0 with
    | none =>
      simp only [List.filterMap_cons, hl, Option.map_none, ih, List.mem_cons]
      by_cases h : k = k0
      · subst h; simp [hl]
      · simp [h]
    | some p =>
      simp only [List.filterMap_cons, hl, Option.map_some, lookup, List.mem_cons]
      by_cases h : k0 = k
      · subst h; simp [hl]
      · have h' : ¬ k = k0 := fun e => h e.symm
        simp [h, h', ih]

theorem lookup_snap {V} (o : Obj V) (hn : (keysOf o.props).Nodup) (k : Key) :
    lookup o.snap.props k = lookup o.props k := by
  simp only [Obj.snap]
  rw [lookup_filterMap_keys]
  have := (ownKeys_spec o.props hn).1 k
  by_cases hm : k ∈ ownKeys o.props
  · simp [hm]
  · simp only [hm, if_false]
    cases hl : lookup o.props k with
    | none => rfl
    | some p => exact absurd (this.mpr (by simp [hl])) hm

/-- every observable state of the spec heap is internally consistent: own keys unique, ordered, and exactly the keys
that have descriptors -/
theorem snapOk_of_nodup {V} (o : Obj V) (hn : (keysOf o.props).Nodup) : snapOk o.snap = true := by
  obtain ⟨hmem, hnd, hord⟩ := ownKeys_spec o.props hn
  simp only [snapOk, Obj.snap, Bool.and_eq_true]
  refine ⟨⟨(keysNodup_iff _).mpr hnd, hord⟩, ?_⟩
  rw [filterMap_keys o.props (ownKeys o.props) (fun k hk => (hmem k).mp hk)]
  simp

theorem mem_snap_props {V} (o : Obj V) (hn : (keysOf o.props).Nodup) (k : Key) (p : SProp V)
    (hm : (k, p) ∈ o.snap.props) : lookup o.props k = some p := by
  simp only [Obj.snap, List.mem_filterMap] at hm
  obtain ⟨k', _, hk'⟩ := hm
  cases hl : lookup o.props k' with
  | none => rw [hl] at hk'; simp at hk'
  | some q =>
    rw [hl] at hk'
    simp only [Option.map_some, Option.some.injEq, Prod.mk.injEq] at hk'
    obtain ⟨h1, h2⟩ := hk'
    subst h1; subst h2; exact hl

/-- The monitor is SOUND for the spec: every step of every well-formed operation on an ordinary-object heap passes
`monitorStep` on every object.  (So an alarm on the implementation's dumps is a deviation from every possible
ordinary-object behaviour, not an artefact of the monitor.) -/
theorem monitor_sound_step {V} [DecidableEq V] (undef : V) (h : Heap V) (hn : KeysNodup h) (op : SOp V)
    (hwf : op.wf = true) (o : Nat) :
    monitorStep (h o).snap ((sStep undef h op) o).snap = true := by
  have hn' := step_keysNodup undef h op hn
  simp only [monitorStep, Bool.and_eq_true, List.all_eq_true, Bool.or_eq_true]
  constructor
  · intro kp hm
    obtain ⟨k, p⟩ := kp
    have hl := mem_snap_props (h o) (hn o) k p hm
    cases hc : p.configurable with
    | true => exact Or.inl rfl
    | false =>
      right
      obtain ⟨p', hl', hf⟩ := step_frozen undef h op hwf o k p hl hc
      simp only
      rw [lookup_snap _ (hn' o), hl']
      exact hf
  · cases he : (h o).ext with
    | true => left; simp [Obj.snap, he]
    | false =>
      right
      obtain ⟨he', hp', hk'⟩ := step_nonext undef h op o he
      simp only [Obj.snap, he', hp', Bool.not_false, beq_self_eq_true, Bool.and_true, Bool.true_and, List.all_eq_true]
      refine ⟨⟨trivial, trivial⟩, ?_⟩
      intro k hk
      have h1 := ((ownKeys_spec _ (hn' o)).1 k).mp hk
      have h2 := hk' k h1
      have h3 := ((ownKeys_spec _ (hn o)).1 k).mpr h2
      simpa using h3

end GojaModel.C04
