/-
  C04 helper lemmas, part 2: SetPath — the three key-kind copies coincide and refine OrdinarySet.
-/
import GojaModel.C04.Model
import GojaModel.C04.LemmasDefine2
namespace GojaModel.C04
set_option linter.unusedSimpArgs false
set_option linter.unusedVariables false

/-- symbol copy = string copy (both mutual functions, simultaneously, by induction on the chain). -/
theorem setSym_eq_setStr_aux {V} (mv : MView V) (k : Key) (v : V) :
    ∀ chain : List Nat, (setOwnSym mv chain k v = setOwnStr mv chain k v) ∧
      (∀ r, setForeignSym mv chain k v r = setForeignStr mv chain k v r) := by
  intro chain
  induction chain with
  | nil => simp [setOwnSym, setOwnStr, setForeignSym, setForeignStr]
  | cons o rest ih =>
    obtain ⟨ihO, ihF⟩ := ih
    constructor
    · simp only [setOwnSym, setOwnStr, ihF]
    · intro r
      simp only [setForeignSym, setForeignStr, ihF, ihO]

/-- The fast path of `setForeignIdx` is sound when `idxPropCount = 0` really means "no index-named own property"
(`PropOrder`: `ensure_idxCount`). -/
def IdxCountOk {V} (mv : MView V) : Prop :=
  ∀ o n, mv.idxCount o = 0 → mv.own o (.idx n) = none

theorem setForeignIdx_eq_setForeignStr {V} (mv : MView V) (hc : IdxCountOk mv) (n : Nat) (v : V) :
    ∀ chain r, setForeignIdx mv chain (.idx n) v r = setForeignStr mv chain (.idx n) v r := by
  intro chain
  induction chain with
  | nil => intro r; simp [setForeignIdx, setForeignStr]
  | cons o rest ih =>
    intro r
    by_cases h0 : mv.idxCount o = 0
    · have hown := hc o n h0
      simp only [setForeignIdx, setForeignStr, h0, hown, setOwnIdx, ih, beq_self_eq_true, if_true]
    · have : (mv.idxCount o == 0) = false := by simp [h0]
      simp [setForeignIdx, this]

/-- mechanism view satisfies the representation invariant everywhere -/
def RepInvView {V} (mv : MView V) : Prop := ∀ o k s, mv.own o k = some s → s.repInv = true

theorem abs_own_none {V} (undef : V) (mv : MView V) (o : Nat) (k : Key) (h : mv.own o k = none) :
    (mv.abs undef).own o k = none := by simp [MView.abs, h]

theorem abs_own_some {V} (undef : V) (mv : MView V) (o : Nat) (k : Key) (s : Stored V) (h : mv.own o k = some s) :
    (mv.abs undef).own o k = some (absProp undef s) := by simp [MView.abs, h]


theorem defineAct_refines {V} [DecidableEq V] (undef : V) (mv : MView V) (o : Nat) (k : Key) (d : Desc V)
    (hc : CellOk undef (mv.own o k) d (mv.ext o)) :
    (defineAct undef mv o k d).map (absProp undef) =
      (match validateAndApply undef ((mv.own o k).map (absProp undef)) d (mv.ext o) with
       | some p => Act.write o k p (mv.own o k).isNone
       | none => Act.fail) := by
  have hx := hc.1
  unfold defineAct
  cases hd : defineOwn undef (mv.own o k) d (mv.ext o) with
  | none => rw [← hx, hd]; simp [Act.map]
  | some s => rw [← hx, hd]; simp [Act.map]

theorem descValue_wf {V} (v : V) : (descValue v).wellFormed = true := by
  simp [descValue, Desc.wellFormed, Desc.isAccessor]
theorem descFull_wf {V} (v : V) : (descFull v).wellFormed = true := by
  simp [descFull, Desc.wellFormed, Desc.isAccessor]

/-- the receiver part of `Object.set*` (after `setForeign*` reported "not handled") = steps 2.b-2.e of
OrdinarySetWithOwnDescriptor. -/
theorem recv_define_refines {V} [DecidableEq V] (undef : V) (mv : MView V) (hinv : RepInvView mv)
    (k : Key) (v : V) (receiver : Recv) :
    (recvDefine undef mv k v receiver).map (absProp undef) = setData undef (mv.abs undef) k v receiver := by
  cases receiver with
  | prim => simp [recvDefine, setData, Act.map]
  | obj robj =>
    cases hown : mv.own robj k with
    | none =>
      have hc := cell_any undef (mv.own robj k) (descFull v) (mv.ext robj) (descFull_wf v)
        (fun s hs => hinv robj k s hs)
      have := defineAct_refines undef mv robj k (descFull v) hc
      simp only [hown, Option.map, Option.isNone] at this
      simp only [recvDefine, hown]
      rw [this]
      simp only [setData, MView.abs, hown, Option.map]
      rfl
    | some s =>
      have hri := hinv robj k s hown
      cases s with
      | plain x =>
        have hc := cell_any undef (mv.own robj k) (descValue v) (mv.ext robj) (descValue_wf v)
          (fun s hs => hinv robj k s hs)
        have := defineAct_refines undef mv robj k (descValue v) hc
        simp only [hown, Option.map, Option.isNone, absProp] at this
        simp only [recvDefine, hown]
        rw [this]
        simp only [setData, MView.abs, hown, absProp, Option.map, Bool.not_true, Bool.false_eq_true, if_false]
        rfl
      | prop p =>
        by_cases ha : p.accessor = true
        · simp [recvDefine, hown, setData, MView.abs, absProp, ha, Act.map]
        · have ha' : p.accessor = false := by simpa using ha
          by_cases hw : p.writable = true
          · have hc := cell_any undef (mv.own robj k) (descValue v) (mv.ext robj) (descValue_wf v)
              (fun s hs => hinv robj k s hs)
            have := defineAct_refines undef mv robj k (descValue v) hc
            simp only [hown, Option.map, Option.isNone, absProp, ha'] at this
            simp only [recvDefine, hown, ha', hw]
            simp only [Bool.false_eq_true, if_false, Bool.not_true] 
            rw [this]
            simp only [setData, MView.abs, hown, absProp, ha', hw, Option.map, Bool.not_true, Bool.false_eq_true, if_false]
            rfl
          · have hw' : p.writable = false := by simpa using hw
            simp [recvDefine, hown, setData, MView.abs, absProp, ha', hw', Act.map]

/-- the inlined tails of the three `Object.set*` copies are the same text -/
theorem objSetStr_unfold {V} [DecidableEq V] (undef : V) (mv : MView V) (o : Nat) (rest : List Nat)
    (k : Key) (v : V) (r : Recv) :
    objSetStr undef mv (o :: rest) k v r =
      if r == .obj o then setOwnStr mv (o :: rest) k v
      else match setForeignStr mv (o :: rest) k v r with
        | some res => res
        | none => recvDefine undef mv k v r := by
  unfold objSetStr recvDefine
  cases r <;> rfl

theorem objSetSym_unfold {V} [DecidableEq V] (undef : V) (mv : MView V) (o : Nat) (rest : List Nat)
    (k : Key) (v : V) (r : Recv) :
    objSetSym undef mv (o :: rest) k v r =
      if r == .obj o then setOwnSym mv (o :: rest) k v
      else match setForeignSym mv (o :: rest) k v r with
        | some res => res
        | none => recvDefine undef mv k v r := by
  unfold objSetSym recvDefine
  cases r <;> rfl

theorem objSetIdx_unfold {V} [DecidableEq V] (undef : V) (mv : MView V) (o : Nat) (rest : List Nat)
    (k : Key) (v : V) (r : Recv) :
    objSetIdx undef mv (o :: rest) k v r =
      if r == .obj o then setOwnIdx mv (o :: rest) k v
      else match setForeignIdx mv (o :: rest) k v r with
        | some res => res
        | none => recvDefine undef mv k v r := by
  unfold objSetIdx recvDefine
  cases r <;> rfl

/-- `setData` when the receiver has no own property: CreateDataProperty. -/
theorem setData_new {V} [DecidableEq V] (undef : V) (sv : SView V) (k : Key) (v : V) (o : Nat) (h : sv.own o k = none) :
    setData undef sv k v (.obj o) = if sv.ext o then .write o k (.data v true true true) true else .fail := by
  simp only [setData, h, validateAndApply, descFull, Desc.isAccessor, Flag.getD]
  cases sv.ext o <;> simp

/-- the walk: string copy vs OrdinarySet, both mutual functions at once -/
theorem setStr_refines_aux {V} [DecidableEq V] (undef : V) (mv : MView V) (hinv : RepInvView mv) (k : Key) (v : V) :
    ∀ chain : List Nat,
      (∀ o rest, chain = o :: rest →
        (setOwnStr mv chain k v).map (absProp undef) = ordinarySet undef (mv.abs undef) chain k v (.obj o)) ∧
      (∀ r, match setForeignStr mv chain k v r with
            | some a => a.map (absProp undef) = ordinarySet undef (mv.abs undef) chain k v r
            | none => ordinarySet undef (mv.abs undef) chain k v r = setData undef (mv.abs undef) k v r) := by
  intro chain
  induction chain with
  | nil =>
    constructor
    · intro o rest h; cases h
    · intro r; simp [setForeignStr, ordinarySet]
  | cons o rest ih =>
    obtain ⟨ihO, ihF⟩ := ih
    constructor
    · intro o' rest' h
      injection h with h1 h2
      subst h1; subst h2
      cases hown : mv.own o k with
      | none =>
        have hF := ihF (.obj o)
        simp only [setOwnStr, hown, ordinarySet, abs_own_none undef mv o k hown]
        cases hf : setForeignStr mv rest k v (.obj o) with
        | some a => rw [hf] at hF; simpa using hF
        | none =>
          rw [hf] at hF
          simp only at hF
          rw [hF, setData_new undef _ k v o (abs_own_none undef mv o k hown)]
          simp only [MView.abs]
          by_cases he : mv.ext o = true <;> simp [he, Act.map, absProp]
      | some s =>
        have hri := hinv o k s hown
        cases s with
        | plain x =>
          simp [setOwnStr, hown, ordinarySet, abs_own_some undef mv o k _ hown, absProp, setData, Act.map,
                validateAndApply, descValue, Desc.isAccessor, Desc.isData, Desc.isGeneric, Flag.isSet, Flag.getD,
                SProp.configurable, SProp.enumerable, SProp.isAcc]
        | prop p =>
          obtain ⟨pv, pw, pc, pe, pa, pg, ps⟩ := p
          cases pa
          · simp [Stored.repInv, VProp.repInv] at hri
            obtain ⟨⟨hg, hs⟩, hv⟩ := hri
            subst hg; subst hs
            cases pw <;> cases pc <;>
              simp [setOwnStr, hown, ordinarySet, abs_own_some undef mv o k _ hown, absProp, setData, Act.map,
                VProp.isWritable, VProp.setAct,
                validateAndApply, descValue, Desc.isAccessor, Desc.isData, Desc.isGeneric, Flag.isSet, Flag.getD,
                SProp.configurable, SProp.enumerable, SProp.isAcc]
          · simp [Stored.repInv, VProp.repInv] at hri
            obtain ⟨hpw, hpv⟩ := hri
            subst hpw; subst hpv
            cases ps <;>
              simp [setOwnStr, hown, ordinarySet, abs_own_some undef mv o k _ hown, absProp, Act.map,
                VProp.isWritable, VProp.setAct]
    · intro r
      cases hown : mv.own o k with
      | none =>
        simp only [setForeignStr, hown, ordinarySet, abs_own_none undef mv o k hown]
        cases rest with
        | nil => simp [ordinarySet]
        | cons p rest' =>
          simp only
          by_cases hr : r = .obj p
          · subst hr
            have := ihO p rest' rfl
            simp [this]
          · have hne : (r != Recv.obj p) = true := by simp [hr]
            simp only [hne, if_true]
            exact ihF r
      | some s =>
        have hri := hinv o k s hown
        cases s with
        | plain x =>
          simp [setForeignStr, hown, ordinarySet, abs_own_some undef mv o k _ hown, absProp]
        | prop p =>
          obtain ⟨pv, pw, pc, pe, pa, pg, ps⟩ := p
          cases pa
          · simp [Stored.repInv, VProp.repInv] at hri
            obtain ⟨⟨hg, hs⟩, hv⟩ := hri
            subst hg; subst hs
            cases pw <;>
              simp [setForeignStr, hown, ordinarySet, abs_own_some undef mv o k _ hown, absProp, Act.map,
                VProp.isWritable]
          · simp [Stored.repInv, VProp.repInv] at hri
            obtain ⟨hpw, hpv⟩ := hri
            subst hpw; subst hpv
            cases ps <;>
              simp [setForeignStr, hown, ordinarySet, abs_own_some undef mv o k _ hown, absProp, Act.map,
                VProp.isWritable]

end GojaModel.C04
