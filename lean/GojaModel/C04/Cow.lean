/-
  C04 — the copy-on-write marker of `baseObject.propNames` (object.go:1191-1245, `_delete` :399, `fixPropOrder` :1323,
  `iterateStringKeys` :1247, `objectPropIter.next` :1178): buffers with capacity, slices into them, the marker in the last
  cell, in-place writes versus reallocation — and the theorem the marker exists for: a for-in iterator's snapshot of the
  name list never changes under any later operation on the object (nested, abandoned and finished iterations included),
  while the object's logical name list evolves exactly like the list-level model `PO`.
  (Not imported by the driver.)
-/
import GojaModel.C04.LemmasOrder
namespace GojaModel.C04
set_option linter.unusedSimpArgs false
set_option linter.unusedVariables false

/-- `copyMarker = unistring.String(" ")` object.go:1191 -/
def copyMarker : Key := .str " "
def emptyCell : Key := .str ""

/-- backing arrays: id ↦ cells (`cap` = number of cells); ids are never reused (`next` = first unused id) -/
structure Mem where
  cells : Nat → List Key
  next : Nat

def Mem.upd (m : Mem) (b : Nat) (c : List Key) : Mem := { m with cells := fun i => if i = b then c else m.cells i }
def Mem.alloc (m : Mem) (c : List Key) : Mem × Nat :=
  ({ cells := fun i => if i = m.next then c else m.cells i, next := m.next + 1 }, m.next)

/-- an in-progress / abandoned / finished for-in iteration: `objectPropIter.propNames` is the slice (buf, len) -/
structure Iter where
  buf : Nat
  len : Nat
  snap : List Key          -- ghost: what `propNames[0:len]` held when the iterator was created
  active : Bool            -- false once `next()` ran off the end (it cleared the marker and will not read again)

structure Cow where
  mem : Mem
  buf : Nat                -- backing array of o.propNames
  po : PO                  -- logical content (o.propNames[0:len] = po.names) with the two counters as segments
  iters : List Iter

def Cow.len (s : Cow) : Nat := s.po.names.length
def Cow.cap (s : Cow) : Nat := (s.mem.cells s.buf).length

/-- `namesMarkedForCopy` object.go:1221: `cap > len && names[cap-1] == copyMarker` -/
def Cow.marked (s : Cow) : Bool :=
  decide (s.len < s.cap) && ((s.mem.cells s.buf).getLast? == some copyMarker)

/-- cells of a fresh array holding `names`, with capacity at least `cap`, unmarked -/
def freshCells (names : List Key) (cap : Nat) : List Key := names ++ List.replicate (cap - names.length) emptyCell

/-- `names[cap-1:cap][0] = x` -/
def setLast (c : List Key) (x : Key) : List Key := c.set (c.length - 1) x

inductive CowOp where
  | add (n : Key) (newcap : Nat)          -- new property (object.go:488-489 / :758-759 / :787-788); newcap: what growCap / append pick
  | delete (n : Key) (newcap : Nat)       -- `_delete` :399; newcap: what shrinkCap picks in the marked branch
  | ensure                                -- `ensurePropOrder` :1310 → `fixPropOrder` :1323
  | iterate (newcap : Nat)                -- `iterateStringKeys` :1247 (ensurePropOrder, prepareNamesForCopy, new objectPropIter)
  | finish (i : Nat)                      -- iterator number i runs off the end: `clearNamesCopyMarker(i.propNames)` :1187

/-- rewrite the object's name list after a logical change `po'`: in place if `inPlace`, else into a fresh array of capacity
≥ `newcap` (the copy branches: `copyNamesIfNeeded` :1231, `_delete` :404-408, `fixPropOrder` :1332-1338, append beyond cap) -/
def Cow.rewrite (s : Cow) (po' : PO) (inPlace : Bool) (newcap : Nat) : Cow :=
  if inPlace then
    -- same array: the cells below the new length are the new names, the rest of the array keeps its cells
    let old := s.mem.cells s.buf
    { s with po := po', mem := s.mem.upd s.buf (po'.names ++ old.drop po'.names.length) }
  else
    let (m, b) := s.mem.alloc (freshCells po'.names (max newcap po'.names.length))
    { s with po := po', mem := m, buf := b }

/-- `ensurePropOrder`/`fixPropOrder`: marked → copy before the first shift (:1332), else shift in place; nothing to do if
already sorted.  (Where the code finds nothing to shift it does not write at all; the model then still rewrites the same
names — a no-op on the logical content.) -/
def Cow.ensureStep (s : Cow) : Cow :=
  if s.po.C = [] then s
  else s.rewrite s.po.ensure (!s.marked) s.cap

def Cow.step (s : Cow) : CowOp → Cow
  | .add n newcap =>
    if n ∈ s.po.names then s
    else
      -- copyNamesIfNeeded(names, 1): copy iff marked && len+1 >= cap; then append: in place iff len < cap
      let copy := s.marked && decide (s.len + 1 ≥ s.cap)
      let inPlace := !copy && decide (s.len < s.cap)
      s.rewrite (s.po.add n) inPlace (max newcap (s.len + 2))
  | .delete n newcap =>
    if n ∈ s.po.names then
      -- marked: new array (:405-408); else shift in place and clear the last cell (:410-412)
      if s.marked then s.rewrite (s.po.delete n) false newcap
      else
        let s' := s.rewrite (s.po.delete n) true 0
        { s' with mem := s'.mem.upd s'.buf ((s'.mem.cells s'.buf).set (s.len - 1) emptyCell) }
    else s
  | .ensure => s.ensureStep
  | .iterate newcap =>
    let s1 := s.ensureStep
    -- an iterator over an empty name list is exhausted by its first `next()`, which no user code precedes: it is
    -- registered as finished (its `clearNamesCopyMarker` writes "" into a cell that holds "" or a stale marker)
    if s1.len = 0 then
      let c := s1.mem.cells s1.buf
      { s1 with mem := s1.mem.upd s1.buf (setLast c emptyCell),
                iters := s1.iters ++ [{ buf := s1.buf, len := 0, snap := [], active := false }] }
    else
      -- prepareNamesForCopy :1202: marked or full → copy into an array with spare capacity; then set the marker
      let s2 := if s1.marked || decide (s1.cap = s1.len) then s1.rewrite s1.po false (max newcap (s1.len + 1)) else s1
      let s3 := { s2 with mem := s2.mem.upd s2.buf (setLast (s2.mem.cells s2.buf) copyMarker) }
      { s3 with iters := s3.iters ++ [{ buf := s3.buf, len := s3.len, snap := s3.po.names, active := true }] }
  | .finish i =>
    match s.iters[i]? with
    | none => s
    | some it =>
      if !it.active then s
      else
        let c := s.mem.cells it.buf
        let m := if it.len < c.length then s.mem.upd it.buf (setLast c emptyCell) else s.mem     -- clearNamesCopyMarker :1225
        { s with mem := m, iters := s.iters.set i { it with active := false } }

def Cow.run (s : Cow) (ops : List CowOp) : Cow := ops.foldl Cow.step s

/-- the list-level operation a COW operation stands for -/
def CowOp.toPO : CowOp → Option POOp
  | .add n _ => some (.add n)
  | .delete n _ => some (.delete n)
  | .ensure => some .ensure
  | .iterate _ => some .ensure
  | .finish _ => none

def emptyCow : Cow :=
  { mem := { cells := fun _ => [], next := 1 }, buf := 0, po := PO.empty, iters := [] }

/-! ### invariant -/

structure CowInv (s : Cow) : Prop where
  bufLt : s.buf < s.mem.next
  content : (s.mem.cells s.buf).take s.len = s.po.names
  capOk : s.len ≤ s.cap
  itOk : ∀ it ∈ s.iters, it.active = true →
    it.buf < s.mem.next ∧ (s.mem.cells it.buf).take it.len = it.snap ∧ it.len < (s.mem.cells it.buf).length ∧ 0 < it.len
  shared : ∀ it ∈ s.iters, it.active = true → it.buf = s.buf → s.marked = true ∧ it.len ≤ s.len
  uniq : ∀ (i j : Nat) (a b : Iter), s.iters[i]? = some a → s.iters[j]? = some b → a.active = true → b.active = true →
    a.buf = s.buf → b.buf = s.buf → i = j

theorem setLast_length (c : List Key) (x : Key) : (setLast c x).length = c.length := by simp [setLast]

theorem setLast_take (c : List Key) (x : Key) (k : Nat) (hk : k < c.length) : (setLast c x).take k = c.take k := by
  simp only [setLast]
  rw [List.take_set_of_le (by omega)]

theorem setLast_getLast (c : List Key) (x : Key) (hc : 0 < c.length) : (setLast c x).getLast? = some x := by
  simp only [setLast, List.getLast?_eq_getElem?, List.length_set]
  rw [List.getElem?_set_self (by omega)]

theorem take_names_append (a r : List Key) : (a ++ r).take a.length = a := by simp

theorem take_le_append (a r : List Key) (k : Nat) (hk : k ≤ a.length) : (a ++ r).take k = a.take k := by
  rw [List.take_append_of_le_length hk]

theorem inplace_length (a old : List Key) (h : a.length ≤ old.length) : (a ++ old.drop a.length).length = old.length := by
  simp; omega

theorem inplace_getLast (a old : List Key) (h : a.length < old.length) : (a ++ old.drop a.length).getLast? = old.getLast? := by
  rw [List.getLast?_eq_getElem?, List.getLast?_eq_getElem?, inplace_length a old (Nat.le_of_lt h)]
  rw [List.getElem?_append_right (by omega), List.getElem?_drop]
  congr 1
  omega

theorem freshCells_take (names : List Key) (cap : Nat) : (freshCells names cap).take names.length = names := by
  simp [freshCells]

theorem freshCells_length (names : List Key) (cap : Nat) (h : names.length ≤ cap) : (freshCells names cap).length = cap := by
  simp [freshCells]; omega

/-- G1: moving the object to a freshly allocated array keeps the invariant (no iterator lives on a fresh array) -/
theorem inv_alloc {s : Cow} (h : CowInv s) (po' : PO) (newcap : Nat) : CowInv (s.rewrite po' false newcap) := by
  simp only [Cow.rewrite, Bool.false_eq_true, if_false, Mem.alloc]
  have hfresh : ∀ it ∈ s.iters, it.active = true → it.buf ≠ s.mem.next := fun it hm ha => Nat.ne_of_lt (h.itOk it hm ha).1
  refine ⟨by simp, ?_, ?_, ?_, ?_, ?_⟩
  · simp [Cow.len, freshCells]
  · simp only [Cow.len, Cow.cap, if_pos]
    rw [freshCells_length _ _ (Nat.le_max_right _ _)]
    exact Nat.le_max_right _ _
  · intro it hm ha
    obtain ⟨h1, h2, h3, h4⟩ := h.itOk it hm ha
    have hne := hfresh it hm ha
    simp only [hne, if_false]
    exact ⟨Nat.lt_succ_of_lt h1, h2, h3, h4⟩
  · intro it hm ha hb
    exact absurd hb (hfresh it hm ha)
  · intro i j a b hi hj ha hb hba hbb
    exact absurd hba (hfresh a (List.mem_of_getElem? hi) ha)

/-- the cells of every array other than `b` are untouched by an in-place write to `b` -/
theorem upd_other_cells (m : Mem) (b i : Nat) (c : List Key) (hne : i ≠ b) : (m.upd b c).cells i = m.cells i := by
  simp [Mem.upd, hne]
theorem upd_same_cells (m : Mem) (b : Nat) (c : List Key) : (m.upd b c).cells b = c := by simp [Mem.upd]

/-- G2: an in-place write of the object's own array keeps the invariant provided (a) capacity is kept, (b) the new cells hold
the new names, and (c) every active iterator on this array keeps its prefix and is still protected by the marker -/
theorem inv_inplace {s : Cow} (h : CowInv s) (po' : PO) (c' : List Key)
    (hlen : c'.length = s.cap) (hcont : c'.take po'.names.length = po'.names) (hcap : po'.names.length ≤ s.cap)
    (hit : ∀ it ∈ s.iters, it.active = true → it.buf = s.buf →
      c'.take it.len = (s.mem.cells s.buf).take it.len ∧
      (decide (po'.names.length < c'.length) && (c'.getLast? == some copyMarker)) = true ∧ it.len ≤ po'.names.length) :
    CowInv { s with po := po', mem := s.mem.upd s.buf c' } := by
  refine ⟨h.bufLt, ?_, ?_, ?_, ?_, ?_⟩
  · simp only [Cow.len, upd_same_cells]; exact hcont
  · simp only [Cow.len, Cow.cap, upd_same_cells, hlen]; exact hcap
  · intro it hm ha
    obtain ⟨h1, h2, h3, h4⟩ := h.itOk it hm ha
    by_cases hb : it.buf = s.buf
    · obtain ⟨e1, _, _⟩ := hit it hm ha hb
      simp only [hb, upd_same_cells]
      refine ⟨h.bufLt, ?_, ?_, h4⟩
      · rw [e1, ← hb]; exact h2
      · rw [hlen]; rw [hb] at h3; exact h3
    · simp only [upd_other_cells _ _ _ _ hb]
      exact ⟨h1, h2, h3, h4⟩
  · intro it hm ha hb
    obtain ⟨_, e2, e3⟩ := hit it hm ha hb
    simp only [Cow.marked, Cow.len, Cow.cap, upd_same_cells]
    exact ⟨e2, e3⟩
  · exact h.uniq

theorem upd_upd (m : Mem) (b : Nat) (c1 c2 : List Key) : (m.upd b c1).upd b c2 = m.upd b c2 := by
  simp only [Mem.upd]
  congr 1
  funext i
  by_cases h : i = b <;> simp [h]

theorem names_add_new (p : PO) (n : Key) (h : n ∉ p.names) : (p.add n).names = p.names ++ [n] := by
  unfold PO.add
  rw [if_neg h]
  simp [PO.names, List.append_assoc]

theorem fixLoop_length (C : List Key) : ∀ A B, (fixLoop A B C).1.length + (fixLoop A B C).2.length = A.length + B.length + C.length := by
  induction C with
  | nil => intro A B; simp [fixLoop]
  | cons x C ih =>
    intro A B
    simp only [fixLoop]
    split
    · rw [ih]; have := (perm_insertAsc x A).length_eq; simp at this ⊢; omega
    · rw [ih]; simp; omega

theorem names_ensure_length (p : PO) : p.ensure.names.length = p.names.length := by
  unfold PO.ensure
  cases hC : p.C with
  | nil => simp [hC]
  | cons x C =>
    simp only [PO.names, List.length_append, List.length_nil, hC]
    have := fixLoop_length (x :: C) p.A p.B
    simp at this ⊢; omega

theorem names_delete_length (p : PO) (n : Key) (h : n ∈ p.names) : (p.delete n).names.length = p.names.length - 1 := by
  rw [names_delete, List.length_erase_of_mem h]

theorem inv_ensure {s : Cow} (h : CowInv s) : CowInv s.ensureStep := by
  unfold Cow.ensureStep
  split
  · exact h
  · cases hm : s.marked with
    | true => simpa using inv_alloc h s.po.ensure s.cap
    | false =>
      simp only [Bool.not_false, Cow.rewrite, if_true]
      have hl : s.po.ensure.names.length = s.len := names_ensure_length s.po
      have hc : s.po.ensure.names.length ≤ (s.mem.cells s.buf).length := by rw [hl]; exact h.capOk
      refine inv_inplace h s.po.ensure _ (inplace_length _ _ hc) (take_names_append _ _) (by rw [hl]; exact h.capOk) ?_
      intro it hmem ha hb
      have := (h.shared it hmem ha hb).1
      rw [hm] at this; cases this

theorem inv_add {s : Cow} (h : CowInv s) (n : Key) (newcap : Nat) : CowInv (s.step (.add n newcap)) := by
  simp only [Cow.step]
  split
  · exact h
  · rename_i hn
    cases hip : (!(s.marked && decide (s.len + 1 ≥ s.cap)) && decide (s.len < s.cap)) with
    | false => simpa [hip] using inv_alloc h (s.po.add n) (max newcap (s.len + 2))
    | true =>
      simp only [hip, Cow.rewrite, if_true]
      simp only [Bool.and_eq_true, Bool.not_eq_true', decide_eq_true_eq] at hip
      obtain ⟨hcopy, hlt⟩ := hip
      have hnames := names_add_new s.po n hn
      have hl : (s.po.add n).names.length = s.len + 1 := by rw [hnames]; simp [Cow.len]
      have hc : (s.po.add n).names.length ≤ (s.mem.cells s.buf).length := by rw [hl]; exact hlt
      refine inv_inplace h (s.po.add n) _ (inplace_length _ _ hc) (take_names_append _ _) (by rw [hl]; exact hlt) ?_
      intro it hmem ha hb
      obtain ⟨hmk, hle⟩ := h.shared it hmem ha hb
      have hroom : s.len + 1 < s.cap := by
        rw [hmk] at hcopy
        simp only [Bool.true_and, decide_eq_false_iff_not, Nat.not_le] at hcopy
        exact hcopy
      refine ⟨?_, ?_, by rw [hl]; omega⟩
      · rw [take_le_append _ _ _ (by rw [hl]; omega), hnames, take_le_append _ _ _ (by exact hle)]
        rw [← h.content, List.take_take]
        congr 1
        exact Nat.min_eq_left hle
      · simp only [Cow.marked, Bool.and_eq_true, decide_eq_true_eq] at hmk
        have hlt2 : (s.po.add n).names.length < (s.mem.cells s.buf).length := by rw [hl]; exact hroom
        rw [inplace_length _ _ hc, inplace_getLast _ _ hlt2]
        simp only [Bool.and_eq_true, decide_eq_true_eq]
        exact ⟨by rw [hl]; exact hroom, hmk.2⟩

theorem inv_delete {s : Cow} (h : CowInv s) (n : Key) (newcap : Nat) : CowInv (s.step (.delete n newcap)) := by
  simp only [Cow.step]
  split
  · rename_i hn
    cases hm : s.marked with
    | true => simpa [hm] using inv_alloc h (s.po.delete n) newcap
    | false =>
      simp only [Bool.false_eq_true, if_false, Cow.rewrite, if_true, upd_same_cells, upd_upd]
      have hl : (s.po.delete n).names.length = s.len - 1 := names_delete_length s.po n hn
      have hpos : 0 < s.len := List.length_pos_of_mem hn
      have hc : (s.po.delete n).names.length ≤ (s.mem.cells s.buf).length := by
        rw [hl]; have := h.capOk; simp only [Cow.cap] at this; omega
      refine inv_inplace h (s.po.delete n) _ ?_ ?_ (by rw [hl]; have := h.capOk; omega) ?_
      · rw [List.length_set]; exact inplace_length _ _ hc
      · rw [List.take_set_of_le (by rw [hl]; exact Nat.le_refl _)]; exact take_names_append _ _
      · intro it hmem ha hb
        have := (h.shared it hmem ha hb).1
        rw [hm] at this; cases this
  · exact h

/-- no active iterator reads the object's current array -/
def Unshared (s : Cow) : Prop := ∀ it ∈ s.iters, it.active = true → it.buf ≠ s.buf

theorem unshared_of_unmarked {s : Cow} (h : CowInv s) (hm : s.marked = false) : Unshared s := by
  intro it hmem ha hb
  have := (h.shared it hmem ha hb).1
  rw [hm] at this; cases this

theorem unshared_alloc {s : Cow} (h : CowInv s) (po' : PO) (newcap : Nat) : Unshared (s.rewrite po' false newcap) := by
  intro it hmem ha
  simp only [Cow.rewrite, Bool.false_eq_true, if_false, Mem.alloc] at hmem ⊢
  exact Nat.ne_of_lt (h.itOk it hmem ha).1

/-- setting the marker on an array no iterator reads, and registering the new iterator (`prepareNamesForCopy` tail +
`iterateStringKeys`) -/
theorem inv_mark_iter {s : Cow} (h : CowInv s) (hu : Unshared s) (hroom : s.len < s.cap) (hpos : 0 < s.len) :
    CowInv { s with mem := s.mem.upd s.buf (setLast (s.mem.cells s.buf) copyMarker),
                    iters := s.iters ++ [{ buf := s.buf, len := s.len, snap := s.po.names, active := true }] } := by
  have hcl : 0 < (s.mem.cells s.buf).length := by simp only [Cow.cap] at hroom; omega
  refine ⟨h.bufLt, ?_, ?_, ?_, ?_, ?_⟩
  · simp only [Cow.len, upd_same_cells]
    exact (setLast_take _ _ _ hroom).trans h.content
  · simp only [Cow.len, Cow.cap, upd_same_cells, setLast_length]; exact h.capOk
  · intro it hm ha
    rcases List.mem_append.mp hm with hm | hm
    · have hne := hu it hm ha
      simp only [upd_other_cells _ _ _ _ hne]
      exact h.itOk it hm ha
    · simp only [List.mem_singleton] at hm
      subst hm
      simp only [upd_same_cells, setLast_length]
      exact ⟨h.bufLt, (setLast_take _ _ _ hroom).trans h.content, hroom, hpos⟩
  · intro it hm ha hb
    rcases List.mem_append.mp hm with hm | hm
    · exact absurd hb (hu it hm ha)
    · simp only [List.mem_singleton] at hm
      subst hm
      simp only [Cow.marked, Cow.len, Cow.cap, upd_same_cells, setLast_length, setLast_getLast _ _ hcl]
      exact ⟨by simpa [Cow.len, Cow.cap] using hroom, Nat.le_refl _⟩
  · intro i j a b hi hj ha hb hba hbb
    have key : ∀ (k : Nat) (x : Iter), (s.iters ++ [({ buf := s.buf, len := s.len, snap := s.po.names, active := true } : Iter)])[k]? = some x →
        x.active = true → x.buf = s.buf → k = s.iters.length := by
      intro k x hk hxa hxb
      by_cases hlt : k < s.iters.length
      · rw [List.getElem?_append_left hlt] at hk
        exact absurd hxb (hu x (List.mem_of_getElem? hk) hxa)
      · have hge : s.iters.length ≤ k := Nat.le_of_not_lt hlt
        rw [List.getElem?_append_right hge] at hk
        by_cases h0 : k - s.iters.length = 0
        · omega
        · have : ([({ buf := s.buf, len := s.len, snap := s.po.names, active := true } : Iter)])[k - s.iters.length]? = none := by
            apply List.getElem?_eq_none; simp; omega
          rw [this] at hk; cases hk
    rw [key i a hi ha hba, key j b hj hb hbb]

theorem inv_iterate {s : Cow} (h : CowInv s) (newcap : Nat) : CowInv (s.step (.iterate newcap)) := by
  simp only [Cow.step]
  have h1 := inv_ensure h
  generalize s.ensureStep = s1 at h1
  split
  · -- empty name list: the iterator is exhausted at once
    rename_i h0
    refine ⟨h1.bufLt, ?_, ?_, ?_, ?_, ?_⟩
    · simp only [Cow.len] at h0 ⊢; simp [h0, List.length_eq_zero_iff.mp h0]
    · simp only [Cow.len, Cow.cap, upd_same_cells, setLast_length] at h0 ⊢; omega
    · intro it hm ha
      rcases List.mem_append.mp hm with hm | hm
      · obtain ⟨a1, a2, a3, a4⟩ := h1.itOk it hm ha
        have hne : it.buf ≠ s1.buf := by
          intro hb
          have := (h1.shared it hm ha hb).2
          omega
        simp only [upd_other_cells _ _ _ _ hne]
        exact ⟨a1, a2, a3, a4⟩
      · simp only [List.mem_singleton] at hm; subst hm; cases ha
    · intro it hm ha hb
      rcases List.mem_append.mp hm with hm | hm
      · have := (h1.shared it hm ha hb).2
        have := (h1.itOk it hm ha).2.2.2
        omega
      · simp only [List.mem_singleton] at hm; subst hm; cases ha
    · intro i j a b hi hj ha hb hba hbb
      have key : ∀ (k : Nat) (x : Iter), (s1.iters ++ [({ buf := s1.buf, len := 0, snap := [], active := false } : Iter)])[k]? = some x →
          x.active = true → s1.iters[k]? = some x := by
        intro k x hk hxa
        by_cases hlt : k < s1.iters.length
        · rwa [List.getElem?_append_left hlt] at hk
        · have hge : s1.iters.length ≤ k := Nat.le_of_not_lt hlt
          rw [List.getElem?_append_right hge] at hk
          by_cases h0' : k - s1.iters.length = 0
          · rw [h0'] at hk; simp at hk; subst hk; cases hxa
          · have : ([({ buf := s1.buf, len := 0, snap := [], active := false } : Iter)])[k - s1.iters.length]? = none := by
              apply List.getElem?_eq_none; simp; omega
            rw [this] at hk; cases hk
      exact h1.uniq i j a b (key i a hi ha) (key j b hj hb) ha hb hba hbb
  · rename_i h0
    have hpos : 0 < s1.len := Nat.pos_of_ne_zero h0
    by_cases hc : (s1.marked || decide (s1.cap = s1.len)) = true
    · simp only [hc, if_true]
      have h2 := inv_alloc h1 s1.po (max newcap (s1.len + 1))
      have hu := unshared_alloc h1 s1.po (max newcap (s1.len + 1))
      have hroom : (s1.rewrite s1.po false (max newcap (s1.len + 1))).len < (s1.rewrite s1.po false (max newcap (s1.len + 1))).cap := by
        simp only [Cow.rewrite, Bool.false_eq_true, if_false, Mem.alloc, Cow.len, Cow.cap, if_pos]
        rw [freshCells_length _ _ (Nat.le_max_right _ _)]
        have : s1.len = s1.po.names.length := rfl
        omega
      have hp2 : 0 < (s1.rewrite s1.po false (max newcap (s1.len + 1))).len := by
        simpa [Cow.rewrite, Mem.alloc, Cow.len] using hpos
      exact inv_mark_iter h2 hu hroom hp2
    · simp only [hc, if_false]
      simp only [Bool.not_eq_true, Bool.or_eq_false_iff, decide_eq_false_iff_not] at hc
      have hroom : s1.len < s1.cap := by have := h1.capOk; omega
      exact inv_mark_iter h1 (unshared_of_unmarked h1 hc.1) hroom hpos

theorem inv_finish {s : Cow} (h : CowInv s) (i : Nat) : CowInv (s.step (.finish i)) := by
  simp only [Cow.step]
  cases hi : s.iters[i]? with
  | none => exact h
  | some it =>
    simp only
    cases ha : it.active with
    | false => simpa using h
    | true =>
      simp only [Bool.not_true, Bool.false_eq_true, if_false]
      have hmem : it ∈ s.iters := List.mem_of_getElem? hi
      obtain ⟨a1, a2, a3, a4⟩ := h.itOk it hmem ha
      simp only [a3, if_true]
      have hset : ∀ (k : Nat) (x : Iter), (s.iters.set i { it with active := false })[k]? = some x → x.active = true →
          k ≠ i ∧ s.iters[k]? = some x := by
        intro k x hk hxa
        by_cases hki : k = i
        · subst hki
          rw [List.getElem?_set_self (by exact (List.getElem?_eq_some_iff.mp hi).1)] at hk
          cases hk; cases hxa
        · rw [List.getElem?_set_ne (by omega)] at hk
          exact ⟨hki, hk⟩
      have hmemset : ∀ x ∈ s.iters.set i { it with active := false }, x.active = true → x ∈ s.iters ∧ ∃ k, k ≠ i ∧ s.iters[k]? = some x := by
        intro x hx hxa
        obtain ⟨k, hk⟩ := List.getElem?_of_mem hx
        obtain ⟨hne, hk'⟩ := hset k x hk hxa
        exact ⟨List.mem_of_getElem? hk', k, hne, hk'⟩
      by_cases hb : it.buf = s.buf
      · -- the object's own array loses its marker: no other active iterator reads it (uniqueness)
        obtain ⟨hmk, hle⟩ := h.shared it hmem ha hb
        have hroom : s.len < s.cap := by
          simp only [Cow.marked, Bool.and_eq_true, decide_eq_true_eq] at hmk; exact hmk.1
        refine ⟨h.bufLt, ?_, ?_, ?_, ?_, ?_⟩
        · simp only [Cow.len, hb, upd_same_cells]
          exact (setLast_take _ _ _ hroom).trans h.content
        · simp only [Cow.len, Cow.cap, hb, upd_same_cells, setLast_length]; exact h.capOk
        · intro x hx hxa
          obtain ⟨hx', k, hne, hk⟩ := hmemset x hx hxa
          have hxb : x.buf ≠ s.buf := by
            intro e
            exact hne (h.uniq k i x it hk hi hxa ha e hb)
          simp only [hb, upd_other_cells _ _ _ _ hxb]
          exact h.itOk x hx' hxa
        · intro x hx hxa hxb
          obtain ⟨hx', k, hne, hk⟩ := hmemset x hx hxa
          exact absurd (h.uniq k i x it hk hi hxa ha hxb hb) hne
        · intro k j a b hk hj haa hba hab hbb
          obtain ⟨_, hk'⟩ := hset k a hk haa
          obtain ⟨_, hj'⟩ := hset j b hj hba
          exact h.uniq k j a b hk' hj' haa hba hab hbb
      · -- some other array: only its last cell changes, which no snapshot contains
        refine ⟨h.bufLt, ?_, ?_, ?_, ?_, ?_⟩
        · simp only [Cow.len, upd_other_cells _ _ _ _ (Ne.symm hb)]; exact h.content
        · simp only [Cow.len, Cow.cap, upd_other_cells _ _ _ _ (Ne.symm hb)]; exact h.capOk
        · intro x hx hxa
          obtain ⟨hx', _⟩ := hmemset x hx hxa
          obtain ⟨b1, b2, b3, b4⟩ := h.itOk x hx' hxa
          by_cases hxb : x.buf = it.buf
          · simp only [hxb, upd_same_cells, setLast_length]
            rw [hxb] at b2 b3
            exact ⟨by rw [← hxb]; exact b1, by rw [setLast_take _ _ _ b3]; exact b2, b3, b4⟩
          · simp only [upd_other_cells _ _ _ _ hxb]
            exact ⟨b1, b2, b3, b4⟩
        · intro x hx hxa hxb
          obtain ⟨hx', _⟩ := hmemset x hx hxa
          have hsh := h.shared x hx' hxa hxb
          refine ⟨?_, hsh.2⟩
          have hm1 := hsh.1
          simp only [Cow.marked, Cow.len, Cow.cap, upd_other_cells _ _ _ _ (Ne.symm hb)] at hm1 ⊢
          exact hm1
        · intro k j a b hk hj haa hba hab hbb
          obtain ⟨_, hk'⟩ := hset k a hk haa
          obtain ⟨_, hj'⟩ := hset j b hj hba
          exact h.uniq k j a b hk' hj' haa hba hab hbb

theorem inv_step {s : Cow} (h : CowInv s) (op : CowOp) : CowInv (s.step op) := by
  cases op with
  | add n c => exact inv_add h n c
  | delete n c => exact inv_delete h n c
  | ensure => exact inv_ensure h
  | iterate c => exact inv_iterate h c
  | finish i => exact inv_finish h i

theorem inv_empty : CowInv emptyCow := by
  refine ⟨by simp [emptyCow], by simp [emptyCow, Cow.len, PO.empty, PO.names], by simp [emptyCow, Cow.len, Cow.cap, PO.empty, PO.names], ?_, ?_, ?_⟩ <;>
    simp [emptyCow]

theorem inv_run (ops : List CowOp) : ∀ {s : Cow}, CowInv s → CowInv (s.run ops) := by
  induction ops with
  | nil => intro s h; exact h
  | cons op ops ih => intro s h; exact ih (inv_step h op)

/-! ### the two theorems -/

theorem po_delete_absent (p : PO) (n : Key) (h : n ∉ p.names) : p.delete n = p := by
  have hA : n ∉ p.A := fun hx => h (by simp [PO.names, hx])
  have hB : n ∉ p.B := fun hx => h (by simp [PO.names, hx])
  have hC : n ∉ p.C := fun hx => h (by simp [PO.names, hx])
  simp [PO.delete, hA, hB, List.erase_of_not_mem hC]

theorem rewrite_po (s : Cow) (po' : PO) (b : Bool) (c : Nat) : (s.rewrite po' b c).po = po' := by
  unfold Cow.rewrite; split <;> rfl

theorem ensureStep_po (s : Cow) : s.ensureStep.po = s.po.ensure := by
  unfold Cow.ensureStep
  split
  · rename_i h; simp [PO.ensure, h]
  · exact rewrite_po _ _ _ _

/-- the logical name list of the buffer-level mechanism evolves exactly like the list-level model -/
theorem step_po (s : Cow) (op : CowOp) :
    (s.step op).po = match op.toPO with
      | some p => s.po.step p
      | none => s.po := by
  cases op with
  | add n c =>
    simp only [Cow.step, CowOp.toPO, PO.step]
    split
    · rename_i h; simp [PO.add, h]
    · exact rewrite_po _ _ _ _
  | delete n c =>
    simp only [Cow.step, CowOp.toPO, PO.step]
    split
    · split
      · exact rewrite_po _ _ _ _
      · simp only [rewrite_po]
    · rename_i h; exact (po_delete_absent s.po n h).symm
  | ensure => simp only [Cow.step, CowOp.toPO, PO.step]; exact ensureStep_po s
  | iterate c =>
    simp only [Cow.step, CowOp.toPO, PO.step]
    split
    · exact ensureStep_po s
    · split
      · simp only [rewrite_po]; exact ensureStep_po s
      · exact ensureStep_po s
  | finish i =>
    simp only [Cow.step, CowOp.toPO]
    split
    · rfl
    · split <;> rfl

theorem run_po (ops : List CowOp) : ∀ s : Cow, (s.run ops).po = s.po.run (ops.filterMap CowOp.toPO) := by
  induction ops with
  | nil => intro s; rfl
  | cons op ops ih =>
    intro s
    simp only [Cow.run, List.foldl_cons] at ih ⊢
    rw [ih (s.step op), step_po]
    cases h : op.toPO with
    | none => simp [List.filterMap_cons, h]
    | some p => simp [List.filterMap_cons, h, PO.run]

/-- an iterator, once created, keeps its slice and its creation-time snapshot; it can only go from active to finished -/
theorem step_iters_stable (s : Cow) (op : CowOp) (k : Nat) (it : Iter) (h : s.iters[k]? = some it) :
    ∃ it', (s.step op).iters[k]? = some it' ∧ it'.buf = it.buf ∧ it'.len = it.len ∧ it'.snap = it.snap ∧
      (it'.active = true → it.active = true) := by
  have hk : k < s.iters.length := (List.getElem?_eq_some_iff.mp h).1
  have keep : ∀ s' : Cow, s'.iters = s.iters → ∃ it', s'.iters[k]? = some it' ∧ it'.buf = it.buf ∧ it'.len = it.len ∧
      it'.snap = it.snap ∧ (it'.active = true → it.active = true) := fun s' e => ⟨it, by rw [e]; exact h, rfl, rfl, rfl, id⟩
  have keepApp : ∀ (l : List Iter) (x : Iter), l = s.iters → ∃ it', (l ++ [x])[k]? = some it' ∧ it'.buf = it.buf ∧ it'.len = it.len ∧
      it'.snap = it.snap ∧ (it'.active = true → it.active = true) := by
    intro l x e
    subst e
    exact ⟨it, by rw [List.getElem?_append_left hk]; exact h, rfl, rfl, rfl, id⟩
  have hrw : ∀ (t : Cow) po' b c, (t.rewrite po' b c).iters = t.iters := by
    intro t po' b c; unfold Cow.rewrite; split <;> rfl
  have hens : s.ensureStep.iters = s.iters := by
    unfold Cow.ensureStep; split
    · rfl
    · exact hrw _ _ _ _
  cases op with
  | add n c =>
    simp only [Cow.step]
    split
    · exact keep _ rfl
    · exact keep _ (hrw _ _ _ _)
  | delete n c =>
    simp only [Cow.step]
    split
    · split
      · exact keep _ (hrw _ _ _ _)
      · exact keep _ (hrw _ _ _ _)
    · exact keep _ rfl
  | ensure => exact keep _ hens
  | iterate c =>
    simp only [Cow.step]
    split
    · exact keepApp _ _ hens
    · split
      · exact keepApp _ _ ((hrw _ _ _ _).trans hens)
      · exact keepApp _ _ hens
  | finish i =>
    simp only [Cow.step]
    cases hi : s.iters[i]? with
    | none => exact keep _ rfl
    | some x =>
      simp only
      split
      · exact keep _ rfl
      · by_cases hki : k = i
        · subst hki
          rw [h] at hi; cases hi
          exact ⟨{ it with active := false }, by simp only; rw [List.getElem?_set_self hk], rfl, rfl, rfl, by intro e; cases e⟩
        · exact ⟨it, by simp only; rw [List.getElem?_set_ne (by omega)]; exact h, rfl, rfl, rfl, id⟩

theorem run_iters_stable (ops : List CowOp) : ∀ (s : Cow) (k : Nat) (it : Iter), s.iters[k]? = some it →
    ∃ it', (s.run ops).iters[k]? = some it' ∧ it'.buf = it.buf ∧ it'.len = it.len ∧ it'.snap = it.snap ∧
      (it'.active = true → it.active = true) := by
  induction ops with
  | nil => intro s k it h; exact ⟨it, h, rfl, rfl, rfl, id⟩
  | cons op ops ih =>
    intro s k it h
    obtain ⟨it1, h1, b1, l1, s1, a1⟩ := step_iters_stable s op k it h
    obtain ⟨it2, h2, b2, l2, s2, a2⟩ := ih (s.step op) k it1 h1
    exact ⟨it2, by simpa [Cow.run] using h2, b2.trans b1, l2.trans l1, s2.trans s1, fun e => a1 (a2 e)⟩

/-- `iterateStringKeys` registers one new iterator, whose snapshot is the (sorted) name list of that moment -/
theorem iterate_new (s : Cow) (c : Nat) :
    ∃ x, (s.step (.iterate c)).iters = s.iters ++ [x] ∧
      (x.active = true → x.snap = (s.step (.iterate c)).po.names ∧ x.len = x.snap.length) := by
  have hrw : ∀ (t : Cow) po' b c, (t.rewrite po' b c).iters = t.iters := by
    intro t po' b c; unfold Cow.rewrite; split <;> rfl
  have hens : s.ensureStep.iters = s.iters := by
    unfold Cow.ensureStep; split
    · rfl
    · exact hrw _ _ _ _
  simp only [Cow.step]
  split
  · exact ⟨_, by rw [hens], by intro e; cases e⟩
  · split
    · refine ⟨_, by simp only [hrw, hens]; rfl, ?_⟩
      intro _
      simp only [rewrite_po, Cow.len]
      exact ⟨trivial, trivial⟩
    · refine ⟨_, by rw [hens], ?_⟩
      intro _
      exact ⟨rfl, rfl⟩

end GojaModel.C04
