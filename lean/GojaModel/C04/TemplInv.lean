/-
  C04 — essential invariants of a lazily-templated built-in over ARBITRARY histories, at MECHANISM level
  (object_template.go: on-demand materialisation of string values / the symbol table, white holes).  Obtained from the
  history refinement `run_refines` (Templ.lean) and the invariants of the eager ordinary property lists, which in turn
  rest on `_defineOwnProperty` refining ValidateAndApplyPropertyDescriptor (`cell_any`).
-/
import GojaModel.C04.Templ
namespace GojaModel.C04
set_option linter.unusedSimpArgs false
set_option linter.unusedVariables false

variable {V : Type}

/-- every stored slot of the list satisfies the `valueProperty` representation invariant -/
def AllInv (l : List (Key × Stored V)) : Prop := ∀ ks ∈ l, ks.2.repInv = true

theorem mem_put_weak {α} (l : List (Key × α)) (k : Key) (a : α) (x : Key × α) (h : x ∈ put l k a) : x = (k, a) ∨ x ∈ l := by
  induction l with
  | nil => simp [put] at h; exact Or.inl h
  | cons y ys ih =>
    obtain ⟨k0, a0⟩ := y
    by_cases hk : k0 = k
    · subst hk
      simp only [put, if_true, List.mem_cons] at h
      rcases h with h | h
      · exact Or.inl h
      · exact Or.inr (List.mem_cons_of_mem _ h)
    · simp only [put, hk, if_false, List.mem_cons] at h
      rcases h with h | h
      · exact Or.inr (by rw [h]; exact List.mem_cons_self)
      · rcases ih h with e | e
        · exact Or.inl e
        · exact Or.inr (List.mem_cons_of_mem _ e)

theorem mem_eraseKey {α} (l : List (Key × α)) (k : Key) (x : Key × α) (h : x ∈ eraseKey l k) : x ∈ l := by
  induction l with
  | nil => simp [eraseKey] at h
  | cons y ys ih =>
    obtain ⟨k0, a0⟩ := y
    by_cases hk : k0 = k
    · simp only [eraseKey, hk, if_true] at h; exact List.mem_cons_of_mem _ h
    · simp only [eraseKey, hk, if_false, List.mem_cons] at h
      rcases h with h | h
      · rw [h]; exact List.mem_cons_self
      · exact List.mem_cons_of_mem _ (ih h)

theorem mem_of_lookup' {α} (l : List (Key × α)) (k : Key) (a : α) (h : lookup l k = some a) : (k, a) ∈ l := by
  induction l with
  | nil => simp [lookup] at h
  | cons x xs ih =>
    obtain ⟨k0, a0⟩ := x
    by_cases hk : k0 = k
    · subst hk; simp [lookup] at h; subst h; exact List.mem_cons_self
    · simp only [lookup, hk, if_false] at h
      exact List.mem_cons_of_mem _ (ih h)

theorem ordDefine_inv [DecidableEq V] (undef : V) (l : List (Key × Stored V)) (k : Key) (d : Desc V) (ext : Bool)
    (hw : d.wellFormed = true) (hinv : AllInv l) : AllInv (ordDefine undef l k d ext) := by
  have hex : ∀ s, lookup l k = some s → s.repInv = true := fun s hs => hinv (k, s) (mem_of_lookup' _ _ _ hs)
  have hc := (cell_any undef (lookup l k) d ext hw hex).2
  unfold ordDefine
  cases hd : defineOwn undef (lookup l k) d ext with
  | none => exact hinv
  | some v =>
    intro ks hks
    rcases mem_put_weak _ _ _ _ hks with e | e
    · rw [e]; exact hc v hd
    · exact hinv ks e

theorem ordDelete_inv (l : List (Key × Stored V)) (k : Key) (hinv : AllInv l) : AllInv (ordDelete l k) := by
  unfold ordDelete
  split
  · exact hinv
  · split
    · exact fun ks hks => hinv ks (mem_eraseKey _ _ _ hks)
    · exact hinv

theorem checkDelete_abs (undef : V) (s : Stored V) : checkDelete s = (absProp undef s).configurable := by
  cases s with
  | plain x => rfl
  | prop p => cases h : p.accessor <;> simp [checkDelete, absProp, h, SProp.configurable]

/-- ordinary define on a slot list keeps a non-configurable property, with frozen shape -/
theorem ordDefine_frozen [DecidableEq V] (undef : V) (l : List (Key × Stored V)) (k' : Key) (d : Desc V) (ext : Bool)
    (hw : d.wellFormed = true) (hinv : AllInv l) (k : Key) (s : Stored V) (hl : lookup l k = some s)
    (hc : (absProp undef s).configurable = false) :
    ∃ s', lookup (ordDefine undef l k' d ext) k = some s' ∧ frozenStep (absProp undef s) (absProp undef s') = true := by
  unfold ordDefine
  by_cases hk : k = k'
  · subst hk
    have hex : ∀ s0, lookup l k = some s0 → s0.repInv = true := fun s0 hs => hinv (k, s0) (mem_of_lookup' _ _ _ hs)
    have href := (cell_any undef (lookup l k) d ext hw hex).1
    rw [hl] at href ⊢
    cases hd : defineOwn undef (some s) d ext with
    | none => exact ⟨s, hl, frozenStep_refl _ hc⟩
    | some v =>
      rw [hd] at href
      simp only [Option.map_some] at href
      exact ⟨v, lookup_put_same _ _ _, vaa_frozen undef _ _ d ext hw hc href.symm⟩
  · cases hd : defineOwn undef (lookup l k') d ext with
    | none => exact ⟨s, hl, frozenStep_refl _ hc⟩
    | some v => exact ⟨s, by rw [lookup_put_other _ _ _ _ hk]; exact hl, frozenStep_refl _ hc⟩

theorem ordDelete_frozen [DecidableEq V] (undef : V) (l : List (Key × Stored V)) (k' : Key) (k : Key) (s : Stored V)
    (hl : lookup l k = some s) (hc : (absProp undef s).configurable = false) :
    ∃ s', lookup (ordDelete l k') k = some s' ∧ frozenStep (absProp undef s) (absProp undef s') = true := by
  unfold ordDelete
  by_cases hk : k = k'
  · subst hk
    rw [hl]
    simp only [checkDelete_abs undef s, hc, Bool.false_eq_true, if_false]
    exact ⟨s, hl, frozenStep_refl _ hc⟩
  · split
    · exact ⟨s, hl, frozenStep_refl _ hc⟩
    · split
      · exact ⟨s, by rw [lookup_erase_other _ _ _ hk]; exact hl, frozenStep_refl _ hc⟩
      · exact ⟨s, hl, frozenStep_refl _ hc⟩

/-- a non-extensible slot list gains no key through ordinary define / delete -/
theorem ordDefine_nonext [DecidableEq V] (undef : V) (l : List (Key × Stored V)) (k' : Key) (d : Desc V)
    (hw : d.wellFormed = true) (k : Key) (hl : lookup l k = none) : lookup (ordDefine undef l k' d false) k = none := by
  unfold ordDefine
  by_cases hk : k = k'
  · subst hk
    rw [hl]
    have href := (cell_new undef d false hw).1
    have hv : validateAndApply undef (none : Option (SProp V)) d false = none := by simp [validateAndApply]
    simp only [Option.map_none] at href
    rw [hv] at href
    cases hd : defineOwn undef none d false with
    | none => exact hl
    | some v => rw [hd] at href; cases href
  · split
    · rw [lookup_put_other _ _ _ _ hk]; exact hl
    · exact hl

theorem ordDelete_nonext (l : List (Key × Stored V)) (k' : Key) (k : Key) (hl : lookup l k = none) :
    lookup (ordDelete l k') k = none := by
  unfold ordDelete
  split
  · exact hl
  · split
    · cases hx : lookup (eraseKey l k') k with
      | none => rfl
      | some x =>
        have := lookup_erase_isSome l k' k (by rw [hx]; rfl)
        rw [hl] at this; cases this
    · exact hl

/-- operations of a JS-reachable history: well-formed descriptors; the raw symbol store (`_putSym`, runtime set-up) is
not one of them -/
def TOp.wf : TOp V → Bool
  | .defineStr _ d => d.wellFormed
  | .defineSym _ d => d.wellFormed
  | .deleteStr _ => true
  | .deleteSym _ => true
  | .putSym _ _ => false

structure Eager.Inv (e : Eager V) : Prop where
  strs : AllInv e.strs
  syms : AllInv e.syms

theorem eager_step_inv [DecidableEq V] (undef : V) (e : Eager V) (op : TOp V) (hw : op.wf = true) (h : e.Inv) :
    (e.step undef op).Inv ∧ (e.step undef op).ext = e.ext := by
  cases op with
  | defineStr k d => exact ⟨⟨ordDefine_inv undef _ k d _ (by simpa [TOp.wf] using hw) h.strs, h.syms⟩, rfl⟩
  | deleteStr k => exact ⟨⟨ordDelete_inv _ k h.strs, h.syms⟩, rfl⟩
  | defineSym k d => exact ⟨⟨h.strs, ordDefine_inv undef _ k d _ (by simpa [TOp.wf] using hw) h.syms⟩, rfl⟩
  | deleteSym k => exact ⟨⟨h.strs, ordDelete_inv _ k h.syms⟩, rfl⟩
  | putSym k v => simp [TOp.wf] at hw

/-- the property list a key lives in: string keys in `strs`, symbol keys in `syms` -/
def Eager.sel (e : Eager V) (sym : Bool) : List (Key × Stored V) := if sym then e.syms else e.strs

theorem eager_step_frozen [DecidableEq V] (undef : V) (e : Eager V) (op : TOp V) (hw : op.wf = true) (h : e.Inv)
    (sym : Bool) (k : Key) (s : Stored V) (hl : lookup (e.sel sym) k = some s) (hc : (absProp undef s).configurable = false) :
    ∃ s', lookup ((e.step undef op).sel sym) k = some s' ∧ frozenStep (absProp undef s) (absProp undef s') = true := by
  cases sym with
  | false =>
    simp only [Eager.sel, Bool.false_eq_true, if_false] at hl ⊢
    cases op with
    | defineStr k' d => exact ordDefine_frozen undef _ k' d _ (by simpa [TOp.wf] using hw) h.strs k s hl hc
    | deleteStr k' => exact ordDelete_frozen undef _ k' k s hl hc
    | defineSym k' d => exact ⟨s, hl, frozenStep_refl _ hc⟩
    | deleteSym k' => exact ⟨s, hl, frozenStep_refl _ hc⟩
    | putSym k' v => simp [TOp.wf] at hw
  | true =>
    simp only [Eager.sel, if_true] at hl ⊢
    cases op with
    | defineStr k' d => exact ⟨s, hl, frozenStep_refl _ hc⟩
    | deleteStr k' => exact ⟨s, hl, frozenStep_refl _ hc⟩
    | defineSym k' d => exact ordDefine_frozen undef _ k' d _ (by simpa [TOp.wf] using hw) h.syms k s hl hc
    | deleteSym k' => exact ordDelete_frozen undef _ k' k s hl hc
    | putSym k' v => simp [TOp.wf] at hw

theorem eager_step_nonext [DecidableEq V] (undef : V) (e : Eager V) (op : TOp V) (hw : op.wf = true) (hext : e.ext = false)
    (sym : Bool) (k : Key) (hl : lookup (e.sel sym) k = none) : lookup ((e.step undef op).sel sym) k = none := by
  cases sym with
  | false =>
    simp only [Eager.sel, Bool.false_eq_true, if_false] at hl ⊢
    cases op with
    | defineStr k' d => simp only [Eager.step, hext]; exact ordDefine_nonext undef _ k' d (by simpa [TOp.wf] using hw) k hl
    | deleteStr k' => exact ordDelete_nonext _ k' k hl
    | defineSym k' d => exact hl
    | deleteSym k' => exact hl
    | putSym k' v => simp [TOp.wf] at hw
  | true =>
    simp only [Eager.sel, if_true] at hl ⊢
    cases op with
    | defineStr k' d => exact hl
    | deleteStr k' => exact hl
    | defineSym k' d => simp only [Eager.step, hext]; exact ordDefine_nonext undef _ k' d (by simpa [TOp.wf] using hw) k hl
    | deleteSym k' => exact ordDelete_nonext _ k' k hl
    | putSym k' v => simp [TOp.wf] at hw

theorem eager_run_frozen [DecidableEq V] (undef : V) (ops : List (TOp V)) (hw : ∀ op ∈ ops, op.wf = true) (sym : Bool) (k : Key) :
    ∀ (e : Eager V) (s : Stored V), e.Inv → lookup (e.sel sym) k = some s → (absProp undef s).configurable = false →
      ∃ s', lookup ((ops.foldl (Eager.step undef) e).sel sym) k = some s' ∧ frozenStep (absProp undef s) (absProp undef s') = true := by
  induction ops with
  | nil => intro e s _ hl hc; exact ⟨s, hl, frozenStep_refl _ hc⟩
  | cons op rest ih =>
    intro e s hi hl hc
    have hwo := hw op List.mem_cons_self
    obtain ⟨q, hq, hf⟩ := eager_step_frozen undef e op hwo hi sym k s hl hc
    obtain ⟨r, hr, hf2⟩ := ih (fun o ho => hw o (List.mem_cons_of_mem _ ho)) _ q (eager_step_inv undef e op hwo hi).1 hq
      (frozenStep_nonconfig _ _ hf)
    exact ⟨r, by simpa [List.foldl_cons] using hr, frozenStep_trans _ _ _ hf hf2⟩

theorem eager_run_nonext [DecidableEq V] (undef : V) (ops : List (TOp V)) (hw : ∀ op ∈ ops, op.wf = true) (sym : Bool) (k : Key) :
    ∀ (e : Eager V), e.Inv → e.ext = false → lookup (e.sel sym) k = none →
      lookup ((ops.foldl (Eager.step undef) e).sel sym) k = none := by
  induction ops with
  | nil => intro e _ _ hl; exact hl
  | cons op rest ih =>
    intro e hi hext hl
    have hwo := hw op List.mem_cons_self
    have h1 := eager_step_inv undef e op hwo hi
    exact ih (fun o ho => hw o (List.mem_cons_of_mem _ ho)) _ h1.1 (h1.2.trans hext) (eager_step_nonext undef e op hwo hext sym k hl)

/-- MECHANISM level, arbitrary JS-reachable histories on a templated object in ANY materialisation state: a string or
symbol key whose (possibly not yet materialised) property is non-configurable is still there afterwards with frozen shape;
a non-extensible templated object gains no string or symbol key. -/
theorem templ_hist_invariants [DecidableEq V] (undef : V) (t : Tmpl V) (o : TObj V) (h : o.WF t) (hi : (o.absE t).Inv)
    (ops : List (TOp V)) (hw : ∀ op ∈ ops, op.wf = true) (sym : Bool) (k : Key) :
    (∀ s, lookup ((o.absE t).sel sym) k = some s → (absProp undef s).configurable = false →
      ∃ s', lookup (((ops.foldl (TObj.step undef t) o).absE t).sel sym) k = some s'
        ∧ frozenStep (absProp undef s) (absProp undef s') = true)
    ∧ (o.ext = false → lookup ((o.absE t).sel sym) k = none →
        lookup (((ops.foldl (TObj.step undef t) o).absE t).sel sym) k = none) := by
  have href := (run_refines undef t ops o h).1
  rw [href]
  exact ⟨fun s hl hc => eager_run_frozen undef ops hw sym k _ s hi hl hc,
         fun hext hl => eager_run_nonext undef ops hw sym k _ hi hext hl⟩

end GojaModel.C04
