/-
  C04 — the lazily created `prototype` property of ordinary functions over ARBITRARY histories: at every moment the
  function answers every own-property lookup / define exactly as the eager ordinary function (that had `prototype` from
  the start) does after the same operations.  (Only the POSITION of `prototype` in the key order may differ: known
  finding `funcObject:prototype-key-position-depends-on-materialisation`, `lazyPrototype_position_witness`.)
-/
import GojaModel.C04.FuncLazy
namespace GojaModel.C04
set_option linter.unusedSimpArgs false
set_option linter.unusedVariables false

variable {V : Type}

/-- two property lists answer every lookup alike -/
def LookupEq {α} (l l' : List (Key × α)) : Prop := ∀ k, lookup l k = lookup l' k

theorem LookupEq.put {α} (l l' : List (Key × α)) (h : LookupEq l l') (k : Key) (a : α) : LookupEq (put l k a) (put l' k a) := by
  intro k'
  by_cases hk : k' = k
  · subst hk; rw [lookup_put_same, lookup_put_same]
  · rw [lookup_put_other _ _ _ _ hk, lookup_put_other _ _ _ _ hk]; exact h k'

theorem ordDefine_lookupEq [DecidableEq V] (undef : V) (l l' : List (Key × Stored V)) (h : LookupEq l l') (k : Key) (d : Desc V)
    (ext : Bool) : LookupEq (ordDefine undef l k d ext) (ordDefine undef l' k d ext) := by
  unfold ordDefine
  rw [h k]
  cases defineOwn undef (lookup l' k) d ext with
  | none => exact h
  | some v => exact LookupEq.put l l' h k v

inductive FOp (V : Type) where
  | getOwn (k : Key)
  | define (k : Key) (d : Desc V)

def FuncLazy.step [DecidableEq V] (undef : V) (protoProp : Stored V) (f : FuncLazy V) : FOp V → FuncLazy V
  | .getOwn k => (f.getOwn protoProp k).2
  | .define k d => (f.define undef protoProp k d).1

/-- the eager ordinary function: lookups change nothing, define is the ordinary define -/
def eagerStep [DecidableEq V] (undef : V) (ext : Bool) (l : List (Key × Stored V)) : FOp V → List (Key × Stored V)
  | .getOwn _ => l
  | .define k d => ordDefine undef l k d ext

theorem addProto_ext (protoProp : Stored V) (f : FuncLazy V) (k : Key) : (f.addProto protoProp k).ext = f.ext := by
  unfold FuncLazy.addProto; split <;> rfl

theorem addProto_wf (protoProp : Stored V) (f : FuncLazy V) (k : Key) (h : f.WF) : (f.addProto protoProp k).WF := by
  unfold FuncLazy.addProto
  split
  · intro hm; simp at hm
  · exact h

theorem addProto_mat_false (protoProp : Stored V) (f : FuncLazy V) (k : Key) (hm : (f.addProto protoProp k).mat = false) :
    k ≠ kProto ∧ f.addProto protoProp k = f := by
  unfold FuncLazy.addProto at hm ⊢
  split
  · rename_i hc; simp [hc] at hm
  · rename_i hc
    refine ⟨?_, rfl⟩
    intro hk
    simp only [if_neg hc] at hm
    exact hc ⟨hk, hm⟩

theorem funcLazy_step [DecidableEq V] (undef : V) (protoProp : Stored V) (f : FuncLazy V) (hwf : f.WF) (op : FOp V) :
    LookupEq ((f.step undef protoProp op).eager protoProp) (eagerStep undef f.ext (f.eager protoProp) op)
    ∧ (f.step undef protoProp op).WF ∧ (f.step undef protoProp op).ext = f.ext := by
  cases op with
  | getOwn k =>
    obtain ⟨_, h2, h3, _, _⟩ := funcLazy_refines undef protoProp f hwf k ({ value := none, writable := .notSet, enumerable := .notSet, configurable := .notSet, getter := none, setter := none } : Desc V)
    refine ⟨?_, h2, ?_⟩
    · simp only [FuncLazy.step, eagerStep]; rw [h3]; exact fun _ => rfl
    · simp only [FuncLazy.step, FuncLazy.getOwn]; exact addProto_ext protoProp f k
  | define k d =>
    obtain ⟨_, h2, h3, h4, h5⟩ := funcLazy_refines undef protoProp f hwf k d
    have hwf' := addProto_wf protoProp f k hwf
    have hext' := addProto_ext protoProp f k
    simp only [FuncLazy.step, eagerStep, ordDefine]
    cases hd : defineOwn undef (lookup (f.eager protoProp) k) d f.ext with
    | none =>
      have hfalse : (f.define undef protoProp k d).2 = false := by rw [h4, hd]; rfl
      -- the define was rejected: the object is `addProto f k`
      have hres : (f.define undef protoProp k d).1 = f.addProto protoProp k := by
        unfold FuncLazy.define at hfalse ⊢
        simp only at hfalse ⊢
        split
        · rename_i v hv; rw [hv] at hfalse; simp at hfalse
        · rfl
      rw [hres]
      refine ⟨?_, hwf', hext'⟩
      have : (f.getOwn protoProp k).2 = f.addProto protoProp k := rfl
      rw [← this, h3]; exact fun _ => rfl
    | some v =>
      refine ⟨(h5 v hd).2, ?_, ?_⟩
      · unfold FuncLazy.define
        simp only
        split
        · rename_i v' hv'
          intro hm
          simp only at hm
          obtain ⟨hk, hadd⟩ := addProto_mat_false protoProp f k hm
          simp only
          rw [lookup_put_other _ _ _ _ (Ne.symm hk)]
          exact hwf' hm
        · exact hwf'
      · unfold FuncLazy.define
        simp only
        split
        · exact hext'
        · exact hext'

/-- histories: after ANY sequence of own-property lookups and defines the lazy function answers every lookup as the eager
ordinary function does after the same operations -/
theorem funcLazy_run [DecidableEq V] (undef : V) (protoProp : Stored V) (ops : List (FOp V)) :
    ∀ (f : FuncLazy V) (l : List (Key × Stored V)), f.WF → LookupEq (f.eager protoProp) l →
      LookupEq ((ops.foldl (FuncLazy.step undef protoProp) f).eager protoProp) (ops.foldl (eagerStep undef f.ext) l)
      ∧ (ops.foldl (FuncLazy.step undef protoProp) f).WF := by
  induction ops with
  | nil => intro f l h hl; exact ⟨hl, h⟩
  | cons op rest ih =>
    intro f l h hl
    obtain ⟨h1, h2, h3⟩ := funcLazy_step undef protoProp f h op
    have hl' : LookupEq ((f.step undef protoProp op).eager protoProp) (eagerStep undef f.ext l op) := by
      intro k
      rw [h1 k]
      cases op with
      | getOwn k0 => exact hl k
      | define k0 d => exact ordDefine_lookupEq undef _ _ hl k0 d f.ext k
    have := ih (f.step undef protoProp op) _ h2 hl'
    rw [h3] at this
    simpa [List.foldl_cons] using this

end GojaModel.C04
