/-
  C04 — the lazily created `prototype` property of ordinary functions over ARBITRARY histories: at every moment the
  function stands for exactly the property LIST (keys in the same order) of the eager ordinary function — `prototype`
  present from the start — after the same operations.  (Before fcdbd47 the position of `prototype` could differ:
  `lazyPrototype_position_prefix_witness`.)
-/
import GojaModel.C04.FuncLazy
namespace GojaModel.C04
set_option linter.unusedSimpArgs false
set_option linter.unusedVariables false

variable {V : Type}

/-- two property lists answer every lookup alike -/
def LookupEq {α} (l l' : List (Key × α)) : Prop := ∀ k, lookup l k = lookup l' k

theorem LookupEq.put {α} (l l' : List (Key × α)) (h : LookupEq l l') (k : Key) (a : α) : LookupEq (put l k a) (put l' k a) := by
  intro k'
  by_cases hk : k' = k
  · subst hk; rw [lookup_put_same, lookup_put_same]
  · rw [lookup_put_other _ _ _ _ hk, lookup_put_other _ _ _ _ hk]; exact h k'

theorem ordDefine_lookupEq [DecidableEq V] (undef : V) (l l' : List (Key × Stored V)) (h : LookupEq l l') (k : Key) (d : Desc V)
    (ext : Bool) : LookupEq (ordDefine undef l k d ext) (ordDefine undef l' k d ext) := by
  unfold ordDefine
  rw [h k]
  cases defineOwn undef (lookup l' k) d ext with
  | none => exact h
  | some v => exact LookupEq.put l l' h k v

inductive FOp (V : Type) where
  | getOwn (k : Key)
  | define (k : Key) (d : Desc V)

def FuncLazy.step [DecidableEq V] (undef : V) (protoProp : Stored V) (f : FuncLazy V) : FOp V → FuncLazy V
  | .getOwn k => (f.getOwn protoProp k).2
  | .define k d => (f.define undef protoProp k d).1

/-- the eager ordinary function: lookups change nothing, define is the ordinary define -/
def eagerStep [DecidableEq V] (undef : V) (ext : Bool) (l : List (Key × Stored V)) : FOp V → List (Key × Stored V)
  | .getOwn _ => l
  | .define k d => ordDefine undef l k d ext

theorem addProto_ext (protoProp : Stored V) (f : FuncLazy V) (k : Key) : (f.addProto protoProp k).ext = f.ext := by
  unfold FuncLazy.addProto; split <;> rfl

theorem funcLazy_step [DecidableEq V] (undef : V) (protoProp : Stored V) (f : FuncLazy V) (hwf : f.WF) (op : FOp V) :
    (f.step undef protoProp op).eager protoProp = eagerStep undef f.ext (f.eager protoProp) op
    ∧ (f.step undef protoProp op).WF ∧ (f.step undef protoProp op).ext = f.ext := by
  cases op with
  | getOwn k =>
    obtain ⟨_, h2, h3, _, _⟩ := funcLazyPre_refines undef protoProp f hwf k
      ({ value := none, writable := .notSet, enumerable := .notSet, configurable := .notSet, getter := none, setter := none } : Desc V)
    refine ⟨?_, h2, ?_⟩
    · simp only [FuncLazy.step, eagerStep]; exact h3
    · simp only [FuncLazy.step, FuncLazy.getOwn]; exact addProto_ext protoProp f k
  | define k d =>
    obtain ⟨_, h2, h3, h4, h5⟩ := funcLazy_define_refines undef protoProp f hwf k d
    refine ⟨?_, h4, h5⟩
    simp only [FuncLazy.step, eagerStep, ordDefine]
    cases hd : defineOwn undef (lookup (f.eager protoProp) k) d f.ext with
    | none => exact h3 hd
    | some v => exact h2 v hd

/-- histories: after ANY sequence of own-property lookups and defines the lazy function stands for exactly the property
list of the eager ordinary function after the same operations -/
theorem funcLazy_run [DecidableEq V] (undef : V) (protoProp : Stored V) (ops : List (FOp V)) :
    ∀ (f : FuncLazy V), f.WF →
      (ops.foldl (FuncLazy.step undef protoProp) f).eager protoProp = ops.foldl (eagerStep undef f.ext) (f.eager protoProp)
      ∧ (ops.foldl (FuncLazy.step undef protoProp) f).WF := by
  induction ops with
  | nil => intro f h; exact ⟨rfl, h⟩
  | cons op rest ih =>
    intro f h
    obtain ⟨h1, h2, h3⟩ := funcLazy_step undef protoProp f h op
    have := ih (f.step undef protoProp op) h2
    rw [h3, h1] at this
    simpa [List.foldl_cons] using this

end GojaModel.C04
