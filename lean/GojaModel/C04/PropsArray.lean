/-
  C04 — property theorems that rest on C07's array model (kept in their own module: if lean/GojaModel/C07 changes, only
  these obligations are affected).
-/
import GojaModel.C04.ArrayInv
namespace GojaModel.C04
open GojaModel.C07


/-- Essential invariant for the ECMA-262 Array exotic object (C07's `SpecArray`): a non-configurable index property below
`length` is still there, non-configurable and below `length`, after ANY history of element writes, element defines,
deletes, `length` assignments, defineProperty on `length` (incl. truncations), freeze and preventExtensions. -/
theorem array_nonconfigurable_index_survives_spec (ops : List C07.Op) (a : C07.SpecArray) (i : Nat)
    (h : NonConfAt a i) (hi : i < a.length) :
    NonConfAt (a.run ops).1 i ∧ i < (a.run ops).1.length :=
  pinned_run ops a i ⟨h, hi⟩

/-- … and therefore for goja's array mechanism (dense `arrayObject` and `sparseArrayObject`, with every storage switch and
the real thresholds), by C07's refinement theorem `history_refines`: whatever sequence of operations — this is the clause
the seeded change C04-m1 broke. -/
theorem array_nonconfigurable_index_survives_mechanism (ops : List C07.Op) (s : C07.Store) (hg : s.Good)
    (hv : ∀ op ∈ ops, op.Valid) (i : Nat) (h : NonConfAt s.abs i) (hi : i < s.abs.length) :
    NonConfAt (s.run ops).1.abs i ∧ i < (s.run ops).1.abs.length := by
  have href := (C07.history_refines ops s hg hv).1
  have e : (s.run ops).1.abs = (s.abs.run ops).1 := congrArg Prod.fst href
  rw [e]
  exact pinned_run ops s.abs i ⟨h, hi⟩

end GojaModel.C04
