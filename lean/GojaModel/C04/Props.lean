/-
  C04 — property theorems (every `theorem` here is one audited proof obligation).
  The mechanism model transcribes /repo's current code (with the fix commits d72dab1, f4bc093).
  Values/functions are an ARBITRARY type `V` with decidable equality (SameValue = SameAs = equality: assumption).
-/
import GojaModel.C04.LemmasDefine2
import GojaModel.C04.LemmasSet
import GojaModel.C04.LemmasGet
import GojaModel.C04.LemmasOrder
import GojaModel.C04.HistIntegrity
import GojaModel.C04.Exotic
import GojaModel.C04.Cow
import GojaModel.C04.Entry
import GojaModel.C04.Args
import GojaModel.C04.Templ
import GojaModel.C04.TypedLemmas
import GojaModel.C04.FuncLazy
import GojaModel.C04.ArgsInv
import GojaModel.C04.TemplInv
import GojaModel.C04.FuncLazyHist
import GojaModel.C04.StrHist
namespace GojaModel.C04
set_option linter.unusedSimpArgs false
set_option linter.unusedVariables false

/-! ### DefineOwn -/

/-- `_defineOwnProperty` = ValidateAndApplyPropertyDescriptor, for ALL existing slots (absent, plain value,
any `*valueProperty` satisfying the representation invariant), ALL well-formed partial descriptors, both
extensibilities; values abstract. -/
theorem defineOwn_refines_spec {V} [DecidableEq V] (undef : V) (existing : Option (Stored V)) (d : Desc V) (ext : Bool)
    (hw : d.wellFormed = true) (hinv : ∀ s, existing = some s → s.repInv = true) :
    (defineOwn undef existing d ext).map (absProp undef) =
      validateAndApply undef (existing.map (absProp undef)) d ext :=
  (cell_any undef existing d ext hw hinv).1

/-- … and its result satisfies the representation invariant again (so the hypothesis of the previous theorem is an
invariant of every history of defines/sets). -/
theorem defineOwn_preserves_repInv {V} [DecidableEq V] (undef : V) (existing : Option (Stored V)) (d : Desc V) (ext : Bool)
    (hw : d.wellFormed = true) (hinv : ∀ s, existing = some s → s.repInv = true) :
    ∀ s, defineOwn undef existing d ext = some s → s.repInv = true :=
  (cell_any undef existing d ext hw hinv).2

def nonConfigData : Stored Nat :=
  .prop { value := some 1, writable := false, configurable := false, enumerable := false, accessor := false,
          getterFunc := none, setterFunc := none }
def descGetUndefined : Desc Nat :=
  { value := none, writable := .notSet, enumerable := .notSet, configurable := .notSet, getter := some none, setter := none }
def descGetF : Desc Nat :=
  { value := none, writable := .notSet, enumerable := .notSet, configurable := .notSet, getter := some (some 7), setter := none }

/-- REGRESSION WITNESS (code before d72dab1): `Object.defineProperty(o,'x',{value:1}); Object.defineProperty(o,'x',{get:undefined})`
— the spec rejects (non-configurable data → accessor), the old code accepted and turned the property into an accessor. -/
theorem defineOwn_kind_change_prefix_witness :
    ¬ ((defineOwnPre 0 (some nonConfigData) descGetUndefined true).map (absProp 0) =
        validateAndApply 0 ((some nonConfigData).map (absProp 0)) descGetUndefined true) := by
  decide

/-- REGRESSION WITNESS (code before d72dab1): `o = {x:1}; Object.defineProperty(o,'x',{get:f})` left `writable = true` on
the accessor: the representation invariant that `isWritable()` relies on was broken. -/
theorem defineOwn_repInv_prefix_witness :
    ¬ (∀ s, defineOwnPre 0 (some (.plain 1)) descGetF true = some s → s.repInv = true) := by
  decide

/-! ### SetPath -/

/-- The three hand-written copies (string / index / symbol keys) of `Object.set*` + `setOwn*` + `setForeign*` are the
same function of the abstract key, for every prototype chain and receiver (index copy: given that `idxPropCount = 0`
means "no index-named own property", which `propOrder_idxCount` provides). -/
theorem setStr_eq_setIdx_eq_setSym {V} [DecidableEq V] (undef : V) (mv : MView V) (hc : IdxCountOk mv)
    (chain : List Nat) (v : V) (r : Recv) :
    (∀ k, objSetSym undef mv chain k v r = objSetStr undef mv chain k v r) ∧
    (∀ n, objSetIdx undef mv chain (.idx n) v r = objSetStr undef mv chain (.idx n) v r) := by
  constructor
  · intro k
    cases chain with
    | nil => rfl
    | cons o rest =>
      rw [objSetSym_unfold, objSetStr_unfold, (setSym_eq_setStr_aux mv k v (o :: rest)).1,
          (setSym_eq_setStr_aux mv k v (o :: rest)).2 r]
  · intro n
    cases chain with
    | nil => rfl
    | cons o rest =>
      rw [objSetIdx_unfold, objSetStr_unfold, setForeignIdx_eq_setForeignStr mv hc n v (o :: rest) r]
      rfl

/-- `Object.set` (all three copies) refines OrdinarySet with Receiver over ARBITRARY prototype chains and receivers
(receiver on the chain, off the chain, or a primitive), given the
representation invariant. -/
theorem set_refines_OrdinarySet {V} [DecidableEq V] (undef : V) (mv : MView V) (hinv : RepInvView mv)
    (hc : IdxCountOk mv) (o : Nat) (rest : List Nat) (k : Key) (v : V) (r : Recv) :
    (objSet undef mv (o :: rest) k v r).map (absProp undef) =
      ordinarySet undef (mv.abs undef) (o :: rest) k v r := by
  have hstr : (objSetStr undef mv (o :: rest) k v r).map (absProp undef) =
      ordinarySet undef (mv.abs undef) (o :: rest) k v r := by
    rw [objSetStr_unfold]
    have haux := setStr_refines_aux undef mv hinv k v (o :: rest)
    by_cases hr : r = .obj o
    · subst hr
      simp only [beq_self_eq_true, if_true]
      exact haux.1 o rest rfl
    · have : (r == Recv.obj o) = false := by simp [hr]
      simp only [this, Bool.false_eq_true, if_false]
      have hF := haux.2 r
      cases hf : setForeignStr mv (o :: rest) k v r with
      | some a => rw [hf] at hF; exact hF
      | none =>
        rw [hf] at hF
        simp only at hF
        rw [hF]
        exact recv_define_refines undef mv hinv k v r
  have heq := setStr_eq_setIdx_eq_setSym undef mv hc (o :: rest) v r
  cases k with
  | idx n => simp only [objSet]; rw [heq.2 n]; exact hstr
  | sym n => simp only [objSet]; rw [heq.1 (.sym n)]; exact hstr
  | str s => simp only [objSet]; exact hstr

def witView : MView Nat :=
  { own := fun _ _ => none, ext := fun _ => true, idxCount := fun _ => 0 }

/-- WITNESS for the defect repaired by f4bc093: with `receiver != o.val` in `setForeignSym`, `Reflect.set(T, sym, 1, P)`
with `P = proto(T)`, `G = proto(P)` does not write to `P` (object 1) as the string copy does, but to `G` (object 2). -/
theorem setForeignSym_prefix_witness :
    setForeignSymPre witView [0, 1, 2] (.sym 0) 1 (.obj 1) ≠ setForeignStr witView [0, 1, 2] (.sym 0) 1 (.obj 1) := by
  decide

/-! ### [[Get]] / [[HasProperty]] / [[Delete]]: key-kind copies and spec -/

/-- `getStr` / `getIdx` / `getSym` are the same function of an abstract key and refine OrdinaryGet (with Receiver) over
arbitrary prototype chains, given the representation invariant. -/
theorem get_copies_eq_and_refine_OrdinaryGet {V} (undef : V) (mv : MView V) (hinv : RepInvView mv) (chain : List Nat)
    (k : Key) (r : Recv) :
    getSym undef mv chain k r = getStr undef mv chain k r ∧ getIdx undef mv chain k r = getStr undef mv chain k r ∧
      getStr undef mv chain k r = ordinaryGet undef (mv.abs undef) chain k r :=
  ⟨getSym_eq_getStr undef mv k r chain, rfl, getStr_refines undef mv hinv k r chain⟩

/-- `hasPropertyStr/Idx/Sym` coincide and are OrdinaryHasProperty. -/
theorem has_copies_eq_and_refine_OrdinaryHasProperty {V} (undef : V) (mv : MView V) (chain : List Nat) (k : Key) :
    hasPropertySym mv chain k = hasPropertyStr mv chain k ∧ hasPropertyIdx mv chain k = hasPropertyStr mv chain k ∧
      hasPropertyStr mv chain k = ordinaryHas (mv.abs undef) chain k :=
  ⟨hasSym_eq_hasStr mv k chain, rfl, hasStr_refines undef mv k chain⟩

/-- `deleteStr/Idx/Sym` coincide and are OrdinaryDelete (a non-configurable property is never removed). -/
theorem delete_copies_eq_and_refine_OrdinaryDelete {V} (undef : V) (mv : MView V) (o : Nat) (k : Key) :
    deleteSym mv o k = deleteStr mv o k ∧ deleteIdx mv o k = deleteStr mv o k ∧
      deleteStr mv o k = ordinaryDelete (mv.abs undef) o k :=
  ⟨rfl, rfl, deleteStr_refines undef mv o k⟩

/-! ### PropOrder -/

/-- For EVERY sequence of property creations, deletions and enumerations, after `ensurePropOrder` the name list is
`I ++ S` with `I` = exactly the index names, strictly ascending, and `S` = the other names in creation order. -/
theorem propOrder_sorted (ops : List POOp) :
    let s := (PO.empty.run ops).ensure
    let cr := createdRun [] ops
    s.names = s.A ++ s.B ∧ Asc s.A ∧ (∀ n, n ∈ s.A ↔ (n ∈ cr ∧ n.isIdx = true)) ∧ s.B = cr.filter nonIdx := by
  intro s cr
  have h : Rel s.A s.B s.C cr := rel_ensure (rel_run ops rel_empty)
  have hC : s.C = [] := ensure_C _
  have hstrs := h.strs
  rw [hC] at hstrs
  simp only [List.append_nil, List.filter_append, filter_nonIdx_of_allIdx _ h.aIdx, filter_nonIdx_of_noIdx _ h.bStr,
    List.nil_append] at hstrs
  refine ⟨by simp [PO.names, hC], h.asc, ?_, hstrs⟩
  intro n
  constructor
  · intro hn
    exact ⟨(h.mem n).mp (by simp [hn]), h.aIdx n hn⟩
  · rintro ⟨hn, hi⟩
    have := (h.mem n).mpr hn
    rw [hC] at this
    simp only [List.append_nil, List.mem_append] at this
    rcases this with h1 | h1
    · exact h1
    · have := h.bStr n h1; simp [hi] at this

/-- Own string keys are unique at every moment of every history (sorted or not). -/
theorem propOrder_no_dup (ops : List POOp) : (PO.empty.run ops).names.Nodup ∧
    (∀ n, n ∈ (PO.empty.run ops).names ↔ n ∈ createdRun [] ops) := by
  have h := rel_run ops rel_empty
  exact ⟨h.nodup, h.mem⟩

/-- After `ensurePropOrder`, `idxPropCount = 0` iff the object has no index-named own property — what the fast path of
`setForeignIdx` (object.go:600) relies on. -/
theorem propOrder_idxCount (ops : List POOp) :
    (PO.empty.run ops).ensure.idxPropCount = 0 ↔ ∀ n ∈ createdRun [] ops, n.isIdx = false := by
  have hs := propOrder_sorted ops
  simp only at hs
  obtain ⟨_, _, hmem, _⟩ := hs
  unfold PO.idxPropCount
  constructor
  · intro h0 n hn
    have hA : (PO.empty.run ops).ensure.A = [] := List.eq_nil_of_length_eq_zero h0
    cases hi : n.isIdx with
    | false => rfl
    | true =>
      have := (hmem n).mpr ⟨hn, hi⟩
      rw [hA] at this; simp at this
  · intro hall
    cases hA : (PO.empty.run ops).ensure.A with
    | nil => rfl
    | cons a as =>
      have ha : a ∈ (PO.empty.run ops).ensure.A := by rw [hA]; exact List.mem_cons_self
      have := (hmem a).mp ha
      have h2 := hall a this.1
      rw [this.2] at h2; cases h2

/-! ### PropOrder at the buffer level: the copy-on-write marker (the C04-m3 class) -/

/-- For EVERY sequence of property creations, deletions, enumerations, iterator creations (nested / abandoned) and iterator
completions, with ANY capacity policy: the cells `o.propNames[0:len]` of the object's current backing array hold exactly
the name list of the list-level model `PO` run on the same operations — so `propOrder_sorted`, `propOrder_no_dup` and
`propOrder_idxCount` hold of the real slice, whichever of the in-place / copy branches were taken. -/
theorem cow_refines_propOrder (ops : List CowOp) :
    let s := emptyCow.run ops
    s.po = PO.empty.run (ops.filterMap CowOp.toPO) ∧
      (s.mem.cells s.buf).take s.po.names.length = s.po.names := by
  intro s
  exact ⟨run_po ops emptyCow, (inv_run ops inv_empty).content⟩

/-- What the marker is for: a for-in iterator created at any point of any history reads, for as long as it has not run
off the end, exactly the name list of the moment of its creation — no later add / delete / re-sort / nested or abandoned
iteration / completion of another iterator changes a cell of its slice. -/
theorem cow_snapshot_stable (ops1 ops2 : List CowOp) (c : Nat) :
    let s0 := emptyCow.run ops1
    let s1 := s0.step (.iterate c)
    ∃ it, s1.iters[s0.iters.length]? = some it ∧ (it.active = true → it.snap = s1.po.names) ∧
      ∀ it2, (s1.run ops2).iters[s0.iters.length]? = some it2 → it2.active = true →
        ((s1.run ops2).mem.cells it2.buf).take it2.len = it.snap ∧ it2.len = it.snap.length := by
  intro s0 s1
  obtain ⟨x, hx, hsnap⟩ := iterate_new s0 c
  have hk : s1.iters[s0.iters.length]? = some x := by
    show (s0.step (.iterate c)).iters[s0.iters.length]? = some x
    rw [hx]; simp
  refine ⟨x, hk, fun ha => (hsnap ha).1, ?_⟩
  intro it2 h2 ha2
  obtain ⟨it', h', hb, hl, hs, hact⟩ := run_iters_stable ops2 s1 _ x hk
  rw [h2] at h'; cases h'
  have hinv : CowInv (s1.run ops2) := inv_run ops2 (inv_step (inv_run ops1 inv_empty) (.iterate c))
  obtain ⟨_, e2, _, _⟩ := hinv.itOk it2 (List.mem_of_getElem? h2) ha2
  exact ⟨e2.trans hs, by rw [hl]; exact (hsnap (hact ha2)).2⟩

/-! ### essential invariants — slot level (every mutation of a slot goes through ValidateAndApply / [[Delete]]) -/

/-- A non-configurable property keeps kind, enumerability, accessor functions; a non-writable one keeps its value;
`writable` can only go from true to false — whatever descriptor is applied. -/
theorem nonconfigurable_frozen_shape {V} [DecidableEq V] (undef : V) (p p' : SProp V) (d : Desc V) (ext : Bool)
    (hw : d.wellFormed = true) (hc : p.configurable = false)
    (h : validateAndApply undef (some p) d ext = some p') : frozenStep p p' = true :=
  vaa_frozen undef p p' d ext hw hc h

/-- A non-extensible object gains no keys through [[DefineOwnProperty]]. -/
theorem nonextensible_no_new_keys {V} [DecidableEq V] (undef : V) (d : Desc V) :
    validateAndApply undef (none : Option (SProp V)) d false = none := by
  simp [validateAndApply]

/-! ### essential invariants — over ARBITRARY operation histories on the ordinary-object heap
(`SOp`: define / set with any chain and receiver / delete / preventExtensions / setPrototypeOf / freeze / seal, on any
objects of the heap, in any order, any length) -/

/-- non-configurable ⇒ the property is still there after any history, with frozen shape (same kind, enumerability,
accessor functions; `writable` only true → false; value fixed once non-writable). -/
theorem hist_nonconfigurable_frozen_shape {V} [DecidableEq V] (undef : V) (h : Heap V) (ops : List (SOp V))
    (hwf : ∀ op ∈ ops, op.wf = true) (o : Nat) (k : Key) (p : SProp V)
    (hl : lookup (h o).props k = some p) (hc : p.configurable = false) :
    ∃ p', lookup ((sRun undef h ops) o).props k = some p' ∧ frozenStep p p' = true :=
  run_frozen undef ops h hwf o k p hl hc

/-- non-configurable and non-writable ⇒ the very same data property after any history. -/
theorem hist_nonwritable_value_fixed {V} [DecidableEq V] (undef : V) (h : Heap V) (ops : List (SOp V))
    (hwf : ∀ op ∈ ops, op.wf = true) (o : Nat) (k : Key) (v : V) (e : Bool)
    (hl : lookup (h o).props k = some (.data v false e false)) :
    lookup ((sRun undef h ops) o).props k = some (.data v false e false) := by
  obtain ⟨p', hl', hf⟩ := run_frozen undef ops h hwf o k _ hl rfl
  cases p' with
  | acc => simp [frozenStep] at hf
  | data v' w' e' c' =>
    simp only [frozenStep, Bool.and_eq_true, Bool.or_eq_true, Bool.not_eq_true', beq_iff_eq] at hf
    obtain ⟨⟨hc, he⟩, hw⟩ := hf
    rcases hw with hw | ⟨hw, hv⟩
    · cases hw
    · subst hc; subst he; subst hw; subst hv; exact hl'

/-- non-extensible ⇒ after any history: still non-extensible, same prototype, no key that was not there before. -/
theorem hist_nonextensible_no_new_keys_fixed_proto {V} [DecidableEq V] (undef : V) (h : Heap V) (ops : List (SOp V))
    (o : Nat) (he : (h o).ext = false) :
    ((sRun undef h ops) o).ext = false ∧ ((sRun undef h ops) o).proto = (h o).proto ∧
      ∀ k, (lookup ((sRun undef h ops) o).props k).isSome = true → (lookup (h o).props k).isSome = true :=
  run_nonext undef ops h o he

/-- own keys after any history: unique, ordered (indices ascending, then strings, then symbols — `keysOrdered`), exactly
the keys that have a descriptor, and the observable snapshot is internally consistent (`snapOk`). -/
theorem hist_ownKeys_unique_ordered_consistent {V} [DecidableEq V] (undef : V) (h : Heap V) (hn : KeysNodup h)
    (ops : List (SOp V)) (o : Nat) :
    let props := ((sRun undef h ops) o).props
    (∀ k, k ∈ ownKeys props ↔ (lookup props k).isSome = true) ∧ (ownKeys props).Nodup ∧ keysOrdered (ownKeys props) = true
      ∧ snapOk ((sRun undef h ops) o).snap = true := by
  intro props
  have hn' := run_keysNodup undef ops h hn o
  obtain ⟨a, b, c⟩ := ownKeys_spec props hn'
  exact ⟨a, b, c, snapOk_of_nodup _ hn'⟩

/-- The snapshot monitor used on the implementation's dumps is SOUND for the spec: every step of every well-formed
operation on an ordinary-object heap passes it, on every object. -/
theorem monitor_sound_on_spec_steps {V} [DecidableEq V] (undef : V) (h : Heap V) (hn : KeysNodup h) (op : SOp V)
    (hwf : op.wf = true) (o : Nat) :
    monitorStep (h o).snap ((sStep undef h op) o).snap = true ∧ snapOk ((sStep undef h op) o).snap = true :=
  ⟨monitor_sound_step undef h hn op hwf o, snapOk_of_nodup _ (step_keysNodup undef h op hn o)⟩

/-! ### freeze / seal / isFrozen / isSealed -/

/-- Object.freeze / Object.seal of the heap model = SetIntegrityLevel as the spec writes it ([[PreventExtensions]], then
one DefinePropertyOrThrow per own key with `{configurable:false}` / `{configurable:false, writable:false}`), none of
which throws on an ordinary object; and TestIntegrityLevel holds afterwards. -/
theorem freeze_seal_spec {V} [DecidableEq V] (undef : V) (h : Heap V) (o : Nat) (frozen : Bool)
    (hn : (keysOf (h o).props).Nodup) :
    integrityLoop undef frozen false (h o).props (ownKeys (h o).props) = some ((sSetIntegrity h o frozen) o).props
    ∧ ((sSetIntegrity h o frozen) o).ext = false
    ∧ sTestIntegrity ((sSetIntegrity h o frozen) o) frozen = true :=
  ⟨setIntegrity_eq_spec_loop undef h o frozen hn, by simp [sSetIntegrity, upd_same], test_after_set h o frozen⟩

/-- Object.isFrozen / Object.isSealed say exactly what 7.3.16 says; frozen implies sealed. -/
theorem isFrozen_isSealed_spec {V} (o : Obj V) (frozen : Bool) :
    (sTestIntegrity o frozen = true ↔
      (o.ext = false ∧ ∀ k p, (k, p) ∈ o.props → p.configurable = false ∧ (frozen = true → p.isAcc = false → p.writable = false)))
    ∧ (sTestIntegrity o true = true → sTestIntegrity o false = true) :=
  ⟨testIntegrity_iff o frozen, frozen_is_sealed o⟩

/-! ### exotic delta: String exotic object (10.4.3) -/

/-- [[GetOwnProperty]] of a String exotic object = ordinary lookup on the object materialised with its frozen
character-index properties in front (for every key, every string, every ordinary part that holds no character index). -/
theorem stringExotic_getOwn_refines_ordinary {V} (base : Obj V) (chars : List V) (hb : NoCharIdx base chars) (k : Key) :
    strGetOwn base chars k = lookup (strMat base chars).props k :=
  stringExotic_getOwn_aux base chars hb k

/-- [[DefineOwnProperty]] of a String exotic object (IsCompatiblePropertyDescriptor on character indices, ordinary define
otherwise) = OrdinaryDefineOwnProperty on the materialised object: same boolean, same resulting object; and the ordinary
part still holds no character index (so the statement applies along every history of defines). -/
theorem stringExotic_define_refines_ordinary {V} [DecidableEq V] (undef : V) (base : Obj V) (chars : List V)
    (hb : NoCharIdx base chars) (k : Key) (d : Desc V) (hw : d.wellFormed = true) :
    (match validateAndApply undef (lookup (strMat base chars).props k) d (strMat base chars).ext with
      | some p => ({ (strMat base chars) with props := put (strMat base chars).props k p }, true)
      | none => (strMat base chars, false))
      = (strMat (strDefine undef base chars k d).1 chars, (strDefine undef base chars k d).2)
    ∧ NoCharIdx (strDefine undef base chars k d).1 chars :=
  stringExotic_define_aux undef base chars hb k d hw

/-- [[Delete]] of a String exotic object = OrdinaryDelete on the materialised object (a character index is never
removed; anything else is deleted from the ordinary part), keeping the invariant. -/
theorem stringExotic_delete_refines_ordinary {V} (base : Obj V) (chars : List V) (hb : NoCharIdx base chars) (k : Key) :
    (match lookup (strMat base chars).props k with
      | none => (strMat base chars, true)
      | some p => if p.configurable then ({ (strMat base chars) with props := eraseKey (strMat base chars).props k }, true)
                  else (strMat base chars, false))
      = (strMat (strDelete base chars k).1 chars, (strDelete base chars k).2)
    ∧ NoCharIdx (strDelete base chars k).1 chars :=
  stringExotic_delete_aux base chars hb k

/-- [[OwnPropertyKeys]] of a String exotic object (string indices, then the ordinary part's integer keys, strings, symbols)
= OrdinaryOwnPropertyKeys of the materialised object. -/
theorem stringExotic_ownKeys_refines_ordinary {V} (base : Obj V) (chars : List V) (hb : NoCharIdx base chars) :
    strOwnKeys base chars = ownKeys (strMat base chars).props :=
  stringExotic_ownKeys_aux base chars hb

/-! ### exotic delta: mapped `arguments` object (10.4.4, object_args.go) -/

/-- `argumentsObject.defineOwnPropertyStr` on any slot (mapped to a parameter variable, or already unmapped) =
ValidateAndApplyPropertyDescriptor on the data property the slot stands for (value = the variable's current value), for
every well-formed descriptor; the invariant "a mapped slot is writable" is kept.  With `argsSetOwn_mapped` and
`argsDelete_spec` (below): while the parameter variables are written only through the arguments object, a mapped arguments
object is observationally the ORDINARY object with those data properties — which is how the correspondence models it. -/
theorem mappedArguments_define_refines_ordinary {V} [DecidableEq V] (undef : V) (slot : ASlot V) (env : Nat → V) (d : Desc V)
    (ext : Bool) (hw : d.wellFormed = true) (hok : slot.ok = true) :
    (argsDefine undef slot env d ext).map (fun r => r.1.spec undef r.2) =
      validateAndApply undef (some (slot.spec undef env)) d ext
    ∧ ∀ r, argsDefine undef slot env d ext = some r → r.1.ok = true :=
  argsDefine_refines undef slot env d ext hw hok

/-- [[Set]] on a mapped index writes the variable and the slot then stands for the same writable data property with the new
value; [[Delete]] removes a slot iff the property it stands for is configurable. -/
theorem mappedArguments_set_delete_refine_ordinary {V} (undef : V) (env : Nat → V) (e c : Bool) (ref : Nat) (v : V)
    (slot : ASlot V) :
    (argsSetOwn (ASlot.mapped true e c ref) env v).map (fun r => r.1.spec undef r.2) = some (.data v true e c)
    ∧ argsDelete slot = (slot.spec undef env).configurable :=
  ⟨argsSetOwn_mapped undef env e c ref v, argsDelete_spec undef env slot⟩

/-- Object level, histories: a mapped arguments object whose slots satisfy the invariant (mapped slots writable, keys
unique, no two mapped slots on one variable) stands, after ANY sequence of well-formed defineProperty / own-slot [[Set]] /
[[Delete]] operations, for exactly the property list an ordinary object reaches by the same operations from the property
list it stood for at the start — including the un-mapping of a slot that becomes non-writable or an accessor, and the
write-through to the parameter variable.  The invariant holds again afterwards. -/
theorem mappedArguments_histories_refine_ordinary {V} [DecidableEq V] (undef : V) (a : AObj V) (h : a.WF)
    (ops : List (AOp V)) (hw : ∀ op ∈ ops, op.wf = true) :
    (ops.foldl (AObj.step undef) a).spec undef = ops.foldl (specStep undef a.ext) (a.spec undef)
    ∧ (ops.foldl (AObj.step undef) a).WF :=
  args_run_refines undef ops hw a h

/-! ### exotic delta: lazily-templated built-ins (object_template.go) -/

/-- Symbol keys: `getOwnPropSym`'s fast path, `defineOwnPropertySym`, `deleteSym` and a symbol-keyed store on a templated
object whose symbol table may or may not be materialised yet = lookup / ordinary define / ordinary delete / store on the
template's symbol property list (until the first write) resp. the materialised table.  A fresh object stands for exactly
the template's lists. -/
theorem templated_symbols_refine_eager {V} [DecidableEq V] (undef : V) (t : Tmpl V) (o : TObj V) (s : Key) (d : Desc V)
    (v : Stored V) :
    o.getOwnSym t s = lookup (o.absSym t) s
    ∧ ((o.defineSym undef t s d).1.absSym t, (o.defineSym undef t s d).2) =
        (match defineOwn undef (lookup (o.absSym t) s) d o.ext with
         | some v => (put (o.absSym t) s v, true)
         | none => (o.absSym t, false))
    ∧ ((o.deleteSym t s).1.absSym t, (o.deleteSym t s).2) =
        (match lookup (o.absSym t) s with
         | none => (o.absSym t, true)
         | some v => if checkDelete v then (eraseKey (o.absSym t) s, true) else (o.absSym t, false))
    ∧ (o.putSym t s v).absSym t = put (o.absSym t) s v :=
  ⟨getOwnSym_eq t o s, defineSym_abs undef t o s d, deleteSym_abs t o s, putSym_abs t o s v⟩

/-- String keys: `defineOwnPropertyStr` / `deleteStr` on the lazy object (template values materialised on demand, name list
materialised at the first change, "white holes" for deleted template keys) = the ordinary define / delete on the property
list it stands for, the invariant is kept, and own lookups agree; a fresh object satisfies the invariant and stands for
the template. -/
theorem templated_strings_refine_eager {V} [DecidableEq V] (undef : V) (t : Tmpl V) (o : TObj V) (h : o.WF t) (k : Key)
    (d : Desc V) :
    lookup (o.absStr t) k = o.getOwnStr t k
    ∧ (((o.defineStr undef t k d).1.absStr t, (o.defineStr undef t k d).2) =
        (match defineOwn undef (lookup (o.absStr t) k) d o.ext with
         | some v => (put (o.absStr t) k v, true)
         | none => (o.absStr t, false))
       ∧ (o.defineStr undef t k d).1.WF t)
    ∧ (((o.deleteStr t k).1.absStr t, (o.deleteStr t k).2) =
        (match lookup (o.absStr t) k with
         | none => (o.absStr t, true)
         | some v => if checkDelete v then (eraseKey (o.absStr t) k, true) else (o.absStr t, false))
       ∧ (o.deleteStr t k).1.WF t) :=
  ⟨lookup_absStr t o h k, defineStr_abs undef t o h k d, deleteStr_abs t o h k⟩

theorem templated_fresh_is_template {V} (t : Tmpl V) (ext : Bool) (hn : (keysOf t.strs).Nodup) :
    let o : TObj V := { values := [], propNames := none, symValues := none, ext := ext }
    o.absSym t = t.syms ∧ o.WF t ∧ ∀ k, lookup (o.absStr t) k = lookup t.strs k :=
  fresh_abs t ext hn

/-- Over ARBITRARY histories of own-property operations (string / symbol defines, deletes, symbol stores) a lazily-templated
built-in equals, at every moment, the eager ordinary object that had all template properties from the start. -/
theorem templated_histories_refine_eager {V} [DecidableEq V] (undef : V) (t : Tmpl V) (ops : List (TOp V)) (ext : Bool)
    (hn : (keysOf t.strs).Nodup) :
    let o : TObj V := { values := [], propNames := none, symValues := none, ext := ext }
    (ops.foldl (TObj.step undef t) o).absE t = ops.foldl (Eager.step undef) (o.absE t)
    ∧ (o.absE t).syms = t.syms ∧ ∀ k, lookup (o.absE t).strs k = lookup t.strs k := by
  intro o
  obtain ⟨h1, h2, h3⟩ := fresh_abs t ext hn
  exact ⟨(run_refines undef t ops o h2).1, h1, h3⟩

/-- the seeded change C04-m2 as a definition: materialise the symbols only when the key is a template symbol -/
def defineSymM2 {V} [DecidableEq V] (undef : V) (t : Tmpl V) (o : TObj V) (s : Key) (d : Desc V) : TObj V × Bool :=
  let syms := if o.symValues.isNone && (lookup t.syms s).isSome then t.syms else o.symValues.getD []
  match defineOwn undef (lookup syms s) d o.ext with
  | some v => ({ o with symValues := some (put syms s v) }, true)
  | none => ({ o with symValues := some syms }, false)

/-- REGRESSION WITNESS (C04-m2 class): with that guard a first define of a fresh symbol loses the template's symbol
properties — the refinement fails. -/
theorem templated_symbols_m2_witness :
    let t : Tmpl Nat := { strs := [], syms := [(.sym 4, .prop { value := some 7, writable := false, configurable := false, enumerable := false, accessor := false, getterFunc := none, setterFunc := none })] }
    let o : TObj Nat := { values := [], propNames := none, symValues := none, ext := true }
    lookup ((defineSymM2 0 t o (.sym 0) (descFull 1)).1.absSym t) (.sym 4) = none
    ∧ lookup ((o.defineSym 0 t (.sym 0) (descFull 1)).1.absSym t) (.sym 4) ≠ none := by
  decide

/-! ### exotic delta: integer-indexed exotic objects (typed arrays, 10.4.5) -/

/-- The integer-indexed layer is a conservative extension: on a heap without typed arrays every exotic internal method is
the ordinary one ([[Set]]: OrdinarySet with its heap effect). -/
theorem integerIndexed_conservative {V} [DecidableEq V] (undef : V) (c : V → V) (xh : XHeap V) (hn : NoTyped xh)
    (o : Nat) (chain : List Nat) (k : Key) (v : V) (r : Recv) (d : Desc V) :
    xGetOwn xh o k = lookup (xh.h o).props k
    ∧ xDefine undef c xh o k d = ({ xh with h := (sDefine undef xh.h o k d).1 }, (sDefine undef xh.h o k d).2)
    ∧ xHas xh chain k = sHas xh.h chain k
    ∧ xGet undef xh chain k r = sGet undef xh.h chain k r
    ∧ xSet undef c xh chain k v r =
        ({ xh with h := applyAct xh.h (ordinarySet undef xh.h.view chain k v r) }, outOf (ordinarySet undef xh.h.view chain k v r))
    ∧ xDelete xh o k = ({ xh with h := (sDelete xh.h o k).1 }, (sDelete xh.h o k).2)
    ∧ xOwnKeys xh o = ownKeys (xh.h o).props :=
  ⟨xGetOwn_ord xh hn o k, xDefine_ord undef c xh hn o k d, xHas_ord xh hn k chain, xGet_ord undef xh hn k r chain,
   xSet_ord undef c xh hn k v r chain, xDelete_ord xh hn o k, xOwnKeys_ord xh hn o⟩

/-- Over ARBITRARY histories of define / set (any chain, any receiver) / delete / freeze / seal / preventExtensions /
setPrototypeOf, every typed array keeps its element count (and stays a typed array) — hence, at every moment: index n is an
own property iff n < length, [[HasProperty]] of an index never consults the prototype chain, a valid index cannot be
deleted, and the own index keys are exactly 0..length-1. -/
theorem integerIndexed_length_fixed {V} [DecidableEq V] (undef : V) (c : V → V) (xh : XHeap V) (ops : List (XOp V))
    (o : Nat) (els : List V) (h : xh.typed o = some els) :
    ∃ els', (xRun undef c xh ops).typed o = some els' ∧ els'.length = els.length ∧
      ∀ n rest, ((xGetOwn (xRun undef c xh ops) o (.idx n)).isSome = decide (n < els.length))
        ∧ xHas (xRun undef c xh ops) (o :: rest) (.idx n) = decide (n < els.length)
        ∧ (xDelete (xRun undef c xh ops) o (.idx n)).2 = !(decide (n < els.length))
        ∧ (Key.idx n ∈ xOwnKeys (xRun undef c xh ops) o ↔ n < els.length) := by
  have hs := xRun_shape undef c ops xh o
  rw [h] at hs
  cases ht : (xRun undef c xh ops).typed o with
  | none => rw [ht] at hs; simp at hs
  | some els' =>
    rw [ht] at hs
    simp only [Option.map_some, Option.some.injEq] at hs
    refine ⟨els', rfl, hs, ?_⟩
    intro n rest
    have := typed_index_facts (xRun undef c xh ops) o els' ht n rest
    rw [hs] at this
    exact this

/-- The history-level essential invariants hold along histories that involve typed arrays: every exotic step acts on the
ordinary part of the heap as zero or one ordinary steps, hence for any well-formed history a non-configurable ordinary
property keeps its frozen shape, a non-extensible object gains no ordinary key and keeps its prototype, and the key lists
stay duplicate-free. -/
theorem integerIndexed_hist_invariants {V} [DecidableEq V] (undef : V) (c : V → V) (xh : XHeap V) (ops : List (XOp V))
    (hw : ∀ op ∈ ops, op.wf = true) (o : Nat) :
    (∀ k p, lookup (xh.h o).props k = some p → p.configurable = false →
        ∃ p', lookup ((xRun undef c xh ops).h o).props k = some p' ∧ frozenStep p p' = true)
    ∧ ((xh.h o).ext = false →
        ((xRun undef c xh ops).h o).ext = false ∧ ((xRun undef c xh ops).h o).proto = (xh.h o).proto ∧
        ∀ k, (lookup ((xRun undef c xh ops).h o).props k).isSome = true → (lookup (xh.h o).props k).isSome = true)
    ∧ (KeysNodup xh.h → KeysNodup (xRun undef c xh ops).h) := by
  obtain ⟨l, hl, e⟩ := xRun_trace undef c ops xh hw
  rw [e]
  exact ⟨fun k p h1 h2 => run_frozen undef l xh.h hl o k p h1 h2, fun he => run_nonext undef l xh.h o he,
    fun hn => run_keysNodup undef l xh.h hn⟩

/-! ### exotic delta: the lazily created `prototype` property of ordinary functions (func.go:173-250) -/

/-- Every own-property lookup and define on a function whose `prototype` slot is not yet materialised gives the same
answers as on the function that has had `prototype` from the start, and the property LISTS are equal — keys in the same
order (since fcdbd47 `_addProtoBeforeNewKey` materialises the slot before any new string key is created). -/
theorem lazyPrototype_refines_eager {V} [DecidableEq V] (undef : V) (protoProp : Stored V) (f : FuncLazy V)
    (hwf : f.WF) (k : Key) (d : Desc V) :
    (f.getOwn protoProp k).1 = lookup (f.eager protoProp) k
    ∧ (f.getOwn protoProp k).2.WF ∧ (f.getOwn protoProp k).2.eager protoProp = f.eager protoProp
    ∧ ((f.define undef protoProp k d).2 = (defineOwn undef (lookup (f.eager protoProp) k) d f.ext).isSome)
    ∧ (∀ v, defineOwn undef (lookup (f.eager protoProp) k) d f.ext = some v →
         (f.define undef protoProp k d).1.eager protoProp = put (f.eager protoProp) k v)
    ∧ (defineOwn undef (lookup (f.eager protoProp) k) d f.ext = none →
         (f.define undef protoProp k d).1.eager protoProp = f.eager protoProp)
    ∧ (f.define undef protoProp k d).1.WF :=
  have hg := funcLazyPre_refines undef protoProp f hwf k d
  have hd := funcLazy_define_refines undef protoProp f hwf k d
  ⟨hg.1, hg.2.1, hg.2.2.1, hd.1, hd.2.1, hd.2.2.1, hd.2.2.2.1⟩

/-- REGRESSION WITNESS (code before fcdbd47): `f = function(){}; f.x = 1` — the old mechanism's key order was
`length, name, x, prototype`, the spec's (and the old mechanism's own, had `prototype` been touched first) is
`length, name, prototype, x`; the current transcription gives the spec's order on the same input. -/
theorem lazyPrototype_position_prefix_witness :
    let f : FuncLazy Nat := { props := [(.str "length", .plain 0), (.str "name", .plain 0)], mat := false, ext := true }
    keysOf ((f.definePre 0 (.plain 9) (.str "x") (descFull 1)).1.eager (.plain 9)) ≠
      keysOf (put (f.eager (.plain 9)) (.str "x") (.plain 1))
    ∧ keysOf ((f.define 0 (.plain 9) (.str "x") (descFull 1)).1.eager (.plain 9)) =
      keysOf (put (f.eager (.plain 9)) (.str "x") (.plain 1)) := by
  decide

/-! ### exotic deltas — essential invariants over ARBITRARY histories at MECHANISM level -/

/-- Mapped arguments object (slot list of `*mappedProperty` / ordinary slots + parameter environment): a slot, mapped or
not, that stands for a non-configurable property is still there after ANY sequence of well-formed defineProperty / own
[[Set]] / [[Delete]], and what it stands for then has the frozen shape of what it stood for at the start (same kind,
enumerability, accessor functions; `writable` only true → false; value fixed once non-writable — read through the
parameter variable for a mapped slot). -/
theorem mappedArguments_hist_nonconfigurable_frozen_shape {V} [DecidableEq V] (undef : V) (a : AObj V) (h : a.WF)
    (ops : List (AOp V)) (hw : ∀ op ∈ ops, op.wf = true) (k : Key) (slot : ASlot V) (hl : lookup a.slots k = some slot)
    (hc : (slot.spec undef a.env).configurable = false) :
    ∃ slot', lookup (ops.foldl (AObj.step undef) a).slots k = some slot' ∧
      frozenStep (slot.spec undef a.env) (slot'.spec undef (ops.foldl (AObj.step undef) a).env) = true :=
  args_hist_frozen undef a h ops hw k slot hl hc

/-- A non-extensible arguments object gains no key, whatever the history. -/
theorem mappedArguments_hist_nonextensible_no_new_keys {V} [DecidableEq V] (undef : V) (a : AObj V) (h : a.WF)
    (hext : a.ext = false) (ops : List (AOp V)) (hw : ∀ op ∈ ops, op.wf = true) (k : Key) (hl : lookup a.slots k = none) :
    lookup (ops.foldl (AObj.step undef) a).slots k = none :=
  args_hist_nonext undef a h hext ops hw k hl

/-- String exotic object, histories: after ANY sequence of well-formed [[DefineOwnProperty]] / [[Delete]] the object,
materialised with its character-index properties, IS the materialised object after the same OrdinaryDefineOwnProperty /
OrdinaryDelete operations (so every history-level invariant of the ordinary heap transfers), and its ordinary part still
holds no character index. -/
theorem stringExotic_histories_refine_ordinary {V} [DecidableEq V] (undef : V) (chars : List V) (ops : List (StrOp V))
    (hw : ∀ op ∈ ops, op.wf = true) (base : Obj V) (hb : NoCharIdx base chars) :
    strMat (ops.foldl (strStep undef chars) base) chars = ops.foldl (ordObjStep undef) (strMat base chars)
    ∧ NoCharIdx (ops.foldl (strStep undef chars) base) chars :=
  str_run_refines undef chars ops hw base hb

/-- The character-index properties of a String exotic object are immutable: after any history [[GetOwnProperty]] of a
character index answers {value: that character, writable: false, enumerable: true, configurable: false}. -/
theorem stringExotic_characters_immutable {V} [DecidableEq V] (undef : V) (chars : List V) (ops : List (StrOp V))
    (hw : ∀ op ∈ ops, op.wf = true) (base : Obj V) (hb : NoCharIdx base chars) (n : Nat) (hn : n < chars.length) :
    strGetOwn (ops.foldl (strStep undef chars) base) chars (.idx n) = some (.data chars[n] false true false) :=
  str_chars_immutable undef chars ops hw base hb n hn

/-- Lazily-templated built-in in ANY materialisation state (string values / symbol table materialised or not, white
holes), any JS-reachable history (well-formed string/symbol defines, deletes): a string (`sym = false`) or symbol
(`sym = true`) key whose — possibly not yet materialised — property is non-configurable is still there afterwards with
frozen shape; a non-extensible templated object gains no string or symbol key.  (`hi`: the slots the object stands for
satisfy the `valueProperty` representation invariant, kept by `_defineOwnProperty`.) -/
theorem templated_hist_invariants {V} [DecidableEq V] (undef : V) (t : Tmpl V) (o : TObj V) (h : o.WF t)
    (hi : (o.absE t).Inv) (ops : List (TOp V)) (hw : ∀ op ∈ ops, op.wf = true) (sym : Bool) (k : Key) :
    (∀ s, lookup ((o.absE t).sel sym) k = some s → (absProp undef s).configurable = false →
      ∃ s', lookup (((ops.foldl (TObj.step undef t) o).absE t).sel sym) k = some s'
        ∧ frozenStep (absProp undef s) (absProp undef s') = true)
    ∧ (o.ext = false → lookup ((o.absE t).sel sym) k = none →
        lookup (((ops.foldl (TObj.step undef t) o).absE t).sel sym) k = none) :=
  templ_hist_invariants undef t o h hi ops hw sym k

/-- Lazy function `prototype`, histories: after ANY sequence of own-property lookups and defines (each of which may or may
not materialise `prototype`) the function stands for exactly the property list — same keys, same order, same slots — of
the eager ordinary function (`prototype` present from the start) after the same operations; the invariant (`prototype`
listed iff materialised) is kept. -/
theorem lazyPrototype_histories_refine_eager {V} [DecidableEq V] (undef : V) (protoProp : Stored V) (f : FuncLazy V)
    (h : f.WF) (ops : List (FOp V)) :
    (ops.foldl (FuncLazy.step undef protoProp) f).eager protoProp
        = ops.foldl (eagerStep undef f.ext) (f.eager protoProp)
    ∧ (ops.foldl (FuncLazy.step undef protoProp) f).WF :=
  funcLazy_run undef protoProp ops f h

/-! ### the same answer through syntax, Object.*/Reflect.* and the Go API, for an index key spelled as integer or string -/

/-- Every entry point × key spelling reaches one of the hand-written copies (`copyOf`); for [[Set]] (receiver = the
object), [[Get]], [[HasProperty]], [[Delete]] and [[DefineOwnProperty]] the result is the same function of the abstract
key whichever copy that is — and it is the spec's (OrdinarySet / OrdinaryGet / OrdinaryHasProperty / OrdinaryDelete /
ValidateAndApply via `defineOwn_refines_spec`). -/
theorem syntax_eq_reflect_eq_goapi {V} [DecidableEq V] (undef : V) (mv : MView V) (hinv : RepInvView mv) (hc : IdxCountOk mv)
    (e1 e2 : Entry) (sp1 sp2 : Spelling) (o : Nat) (rest : List Nat) (k : Key) (v : V) (d : Desc V) :
    setEntry undef mv e1 sp1 o rest k v = setEntry undef mv e2 sp2 o rest k v
    ∧ (setEntry undef mv e1 sp1 o rest k v).map (absProp undef) = ordinarySet undef (mv.abs undef) (o :: rest) k v (.obj o)
    ∧ getEntry undef mv e1 sp1 o rest k = getEntry undef mv e2 sp2 o rest k
    ∧ getEntry undef mv e1 sp1 o rest k = ordinaryGet undef (mv.abs undef) (o :: rest) k (.obj o)
    ∧ hasEntry mv e1 sp1 (o :: rest) k = hasEntry mv e2 sp2 (o :: rest) k
    ∧ hasEntry mv e1 sp1 (o :: rest) k = ordinaryHas (mv.abs undef) (o :: rest) k
    ∧ deleteEntry mv e1 sp1 o k = deleteEntry mv e2 sp2 o k
    ∧ deleteEntry mv e1 sp1 o k = ordinaryDelete (mv.abs undef) o k
    ∧ defineEntry undef mv e1 sp1 o k d = defineEntry undef mv e2 sp2 o k d := by
  refine ⟨?_, ?_, ?_, ?_, ?_, ?_, ?_, ?_, ?_⟩
  · rw [setEntry_eq undef mv hinv hc, setEntry_eq undef mv hinv hc]
  · rw [setEntry_eq undef mv hinv hc]
    exact (setStr_refines_aux undef mv hinv k v (o :: rest)).1 o rest rfl
  · rw [getEntry_eq, getEntry_eq]
  · rw [getEntry_eq]; exact getStr_refines undef mv hinv k (.obj o) (o :: rest)
  · rw [hasEntry_eq, hasEntry_eq]
  · rw [hasEntry_eq]; exact hasStr_refines undef mv k (o :: rest)
  · rw [deleteEntry_eq, deleteEntry_eq]
  · rw [deleteEntry_eq]; exact deleteStr_refines undef mv o k
  · rw [defineEntry_eq, defineEntry_eq]

end GojaModel.C04
