/-
  C04 — SetIntegrityLevel (7.3.15) as the spec writes it (PreventExtensions, then one DefinePropertyOrThrow per own key)
  equals the one-shot `sSetIntegrity` of the heap model.
-/
import GojaModel.C04.HistKeys
namespace GojaModel.C04
set_option linter.unusedSimpArgs false
set_option linter.unusedVariables false

/-- steps 5-6 of SetIntegrityLevel over a key list; `none` = a DefinePropertyOrThrow threw -/
def integrityLoop {V} [DecidableEq V] (undef : V) (frozen : Bool) (ext : Bool) :
    List (Key × SProp V) → List Key → Option (List (Key × SProp V))
  | props, [] => some props
  | props, k :: ks =>
    match lookup props k with
    | none => integrityLoop undef frozen ext props ks                       -- currentDesc undefined: skip
    | some p =>
      match validateAndApply undef (some p) (integrityDesc frozen p) ext with
      | none => none
      | some q => integrityLoop undef frozen ext (put props k q) ks

def lvl {V} (frozen : Bool) (p : SProp V) : SProp V := if frozen then freezeProp p else sealProp p

theorem lookup_of_mem_nodup {α} (l : List (Key × α)) (k : Key) (p : α) (hn : (keysOf l).Nodup) (hm : (k, p) ∈ l) :
    lookup l k = some p := by
  induction l with
  | nil => cases hm
  | cons x xs ih =>
    obtain ⟨k0, a0⟩ := x
    have hn' := List.nodup_cons.mp hn
    rcases List.mem_cons.mp hm with e | e
    · cases e; simp [lookup]
    · have hne : k0 ≠ k := by
        intro e2; subst e2
        exact hn'.1 (List.mem_map.mpr ⟨(k0, p), e, rfl⟩)
      simp only [lookup, hne, if_false]
      exact ih hn'.2 e

/-- in-place replacement = map, on a duplicate-free list -/
theorem put_map {α} (l : List (Key × α)) (k : Key) (a : α) (hn : (keysOf l).Nodup) (hk : (lookup l k).isSome = true) :
    put l k a = l.map (fun kp => if kp.1 = k then (k, a) else kp) := by
  induction l with
  | nil => simp [lookup] at hk
  | cons x xs ih =>
    obtain ⟨k0, a0⟩ := x
    have hn' := List.nodup_cons.mp hn
    by_cases h : k0 = k
    · subst h
      simp only [put, if_true, List.map_cons]
      congr 1
      -- no other entry has key k0
      have : xs.map (fun kp => if kp.1 = k0 then (k0, a) else kp) = xs.map id := by
        apply List.map_congr_left
        intro kp hkp
        have : kp.1 ≠ k0 := by
          intro e
          apply hn'.1
          rw [← e]
          exact List.mem_map.mpr ⟨kp, hkp, rfl⟩
        simp [this]
      rw [this, List.map_id]
    · simp only [put, h, if_false, List.map_cons]
      congr 1
      apply ih hn'.2
      simpa [lookup, h] using hk

theorem integrityLoop_spec {V} [DecidableEq V] (undef : V) (frozen : Bool) (ext : Bool) :
    ∀ (ks : List Key) (props : List (Key × SProp V)), (keysOf props).Nodup → ks.Nodup →
      integrityLoop undef frozen ext props ks =
        some (props.map (fun kp => if kp.1 ∈ ks then (kp.1, lvl frozen kp.2) else kp)) := by
  intro ks
  induction ks with
  | nil => intro props _ _; simp [integrityLoop]
  | cons k ks ih =>
    intro props hn hks
    have hk := List.nodup_cons.mp hks
    simp only [integrityLoop]
    cases hl : lookup props k with
    | none =>
      simp only
      rw [ih props hn hk.2]
      congr 1
      apply List.map_congr_left
      intro kp hkp
      have : kp.1 ≠ k := by
        intro e
        have := (mem_keys_iff props k).mp (by rw [← e]; exact List.mem_map.mpr ⟨kp, hkp, rfl⟩)
        rw [hl] at this; cases this
      simp [this]
    | some p =>
      simp only
      rw [integrity_prop_spec]
      simp only
      have hput := put_map props k (lvl frozen p) hn (by simp [hl])
      have hn2 : (keysOf (put props k (lvl frozen p))).Nodup := nodup_put _ _ _ hn
      show integrityLoop undef frozen ext (put props k (lvl frozen p)) ks = _
      rw [ih _ hn2 hk.2, hput, List.map_map]
      congr 1
      apply List.map_congr_left
      intro kp hkp
      obtain ⟨k1, p1⟩ := kp
      simp only [Function.comp]
      by_cases h1 : k1 = k
      · subst h1
        have : lookup props k1 = some p1 := lookup_of_mem_nodup props k1 p1 hn hkp
        rw [hl] at this; cases this
        simp [hk.1]
      · simp [h1]

/-- SetIntegrityLevel as specified = the heap model's `sSetIntegrity`, on every object with duplicate-free keys
(which every reachable object has: `run_keysNodup`). -/
theorem setIntegrity_eq_spec_loop {V} [DecidableEq V] (undef : V) (h : Heap V) (o : Nat) (frozen : Bool)
    (hn : (keysOf (h o).props).Nodup) :
    integrityLoop undef frozen false (h o).props (ownKeys (h o).props) = some ((sSetIntegrity h o frozen) o).props := by
  obtain ⟨hmem, hnd, _⟩ := ownKeys_spec (h o).props hn
  rw [integrityLoop_spec undef frozen false _ _ hn hnd]
  simp only [sSetIntegrity, upd_same]
  congr 1
  apply List.map_congr_left
  intro kp hkp
  have : kp.1 ∈ ownKeys (h o).props := (hmem kp.1).mpr ((mem_keys_iff _ _).mp (List.mem_map.mpr ⟨kp, hkp, rfl⟩))
  simp [this, lvl]

end GojaModel.C04
