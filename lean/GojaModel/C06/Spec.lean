/-
  C06 — SPEC-level reference evaluation of string-producing JavaScript expression trees, on lists of
  UTF-16 code units (ECMA-262 §22.1.3 algorithms transcribed on `List UInt16`).  This is the oracle of
  the expression-tree correspondence: it knows nothing about representations.  Core Lean only.
-/
import GojaModel.C06.Model
namespace GojaModel.C06.Spec
open GojaModel.C06

abbrev S := List UInt16

/-- relative index clamp used by slice/substr/at: `i < 0 ? max(len+i,0) : min(i,len)` -/
def relIdx (len : Nat) (i : Int) : Nat :=
  if i < 0 then Int.toNat (Int.ofNat len + i) else min i.toNat len

def clampIdx (len : Nat) (i : Int) : Nat := if i < 0 then 0 else min i.toNat len

/-- String.prototype.slice -/
def jsSlice (s : S) (i : Int) (j : Option Int) : S :=
  let len := s.length
  let a := relIdx len i
  let b := match j with
    | none => len
    | some j => relIdx len j
  slice s a b

/-- String.prototype.substring -/
def jsSubstring (s : S) (i : Int) (j : Option Int) : S :=
  let len := s.length
  let a := clampIdx len i
  let b := match j with
    | none => len
    | some j => clampIdx len j
  slice s (min a b) (max a b)

def substrCnt (len a : Nat) : Option Int → Nat
  | none => len - a
  | some n => min (if n < 0 then 0 else n.toNat) (len - a)

/-- String.prototype.substr -/
def jsSubstr (s : S) (i : Int) (n : Option Int) : S :=
  let len := s.length
  let a := relIdx len i
  slice s a (a + substrCnt len a n)

/-- `x.at(i) ?? ""` -/
def jsAt (s : S) (i : Int) : S :=
  let k : Int := if i < 0 then Int.ofNat s.length + i else i
  if k < 0 then [] else match s[k.toNat]? with
    | some c => [c]
    | none => []

def jsCharAt (s : S) (i : Int) : S :=
  if i < 0 then [] else match s[i.toNat]? with
    | some c => [c]
    | none => []

def rep (s : S) (n : Nat) : S := (List.replicate n s).flatten

/-- "the String value consisting of repeated concatenations of filler truncated to length n" -/
def padFill (filler : S) (n : Nat) : S := rep filler (n / filler.length) ++ filler.take (n % filler.length)

def padStart (s : S) (n : Nat) (filler : S) : S :=
  if n ≤ s.length || filler.isEmpty then s else padFill filler (n - s.length) ++ s

def padEnd (s : S) (n : Nat) (filler : S) : S :=
  if n ≤ s.length || filler.isEmpty then s else s ++ padFill filler (n - s.length)

/-- WhiteSpace ∪ LineTerminator -/
def isWS (c : UInt16) : Bool :=
  let n := c.toNat
  n == 0x09 || n == 0x0A || n == 0x0B || n == 0x0C || n == 0x0D || n == 0x20 || n == 0xA0 || n == 0x1680 ||
  (0x2000 ≤ n && n ≤ 0x200A) || n == 0x2028 || n == 0x2029 || n == 0x202F || n == 0x205F || n == 0x3000 || n == 0xFEFF

def trimStart (s : S) : S := s.dropWhile isWS
def trimEnd (s : S) : S := (s.reverse.dropWhile isWS).reverse
def trim (s : S) : S := trimEnd (trimStart s)

def isPrefix : S → S → Bool
  | [], _ => true
  | _ :: _, [] => false
  | a :: as, b :: bs => a == b && isPrefix as bs

/-- StringIndexOf(s, pat, from): least p >= from with pat a prefix of s[p..]. `rest = s.drop from`. -/
def indexFrom (pat : S) : (rest : S) → (pos : Nat) → Option Nat
  | [], pos => if pat.isEmpty then some pos else none
  | c :: cs, pos => if isPrefix pat (c :: cs) then some pos else indexFrom pat cs (pos + 1)

def indexOf (s pat : S) (pos : Nat) : Option Nat :=
  if pos > s.length then none else indexFrom pat (s.drop pos) pos

/-- GetSubstitution (ECMA-262 §22.1.3.19.1) for a STRING pattern: no captures (m = 0) and namedCaptures undefined, so
`$$` → `$`, `$&` → matched, `` $` `` → the text before the match, `$'` → the text after it; `$n`, `$nn`, `$<` and any
other `$x` stay literal.  `pos` = position of the match, `matched` = the matched substring. -/
def getSubst (s : S) (pos : Nat) (matched : S) : S → S
  | [] => []
  | [c] => [c]
  | c :: ch :: rest =>
    if c.toNat = 36 then
      if ch.toNat = 36 then (36 : UInt16) :: getSubst s pos matched rest
      else if ch.toNat = 96 then s.take pos ++ getSubst s pos matched rest
      else if ch.toNat = 39 then s.drop (pos + matched.length) ++ getSubst s pos matched rest
      else if ch.toNat = 38 then matched ++ getSubst s pos matched rest
      else c :: ch :: getSubst s pos matched rest
    else c :: getSubst s pos matched (ch :: rest)

/-- build the result from the list of match positions (ECMA-262 §22.1.3.20 steps 14-16; replace = one position) -/
def replaceWithGo (s : S) (plen : Nat) (r : S) : List Nat → Nat → S → S
  | [], last, acc => acc ++ slice s last s.length
  | p :: ps, last, acc =>
    replaceWithGo s plen r ps (p + plen) (acc ++ slice s last p ++ getSubst s p (slice s p (p + plen)) r)

def replaceWith (s : S) (plen : Nat) (positions : List Nat) (r : S) : S := replaceWithGo s plen r positions 0 []

/-- String.prototype.replace with a string pattern -/
def replaceFirst (s pat r : S) : S :=
  match indexOf s pat 0 with
  | none => s
  | some p => replaceWith s pat.length [p] r

/-- matchPositions of String.prototype.replaceAll (advanceBy = max(1, searchLength)) -/
def matchPositions (s pat : S) : Nat → Nat → List Nat
  | 0, _ => []
  | fuel + 1, pos =>
    match indexOf s pat pos with
    | none => []
    | some p => p :: matchPositions s pat fuel (p + max 1 pat.length)

/-- String.prototype.replaceAll with a string pattern -/
def replaceAll (s pat r : S) : S := replaceWith s pat.length (matchPositions s pat (s.length + 2) 0) r

/-- String.prototype.split(sep) with a non-empty string separator, no limit: cut at each successive occurrence
(the search resumes right after the separator); the last piece is the remainder. -/
def splitRel (sep : S) : Nat → S → List S
  | 0, rest => [rest]
  | fuel + 1, rest =>
    match indexFrom sep rest 0 with
    | none => [rest]
    | some idx => rest.take idx :: splitRel sep fuel (rest.drop (idx + sep.length))

def split (s sep : S) : List S :=
  if sep.isEmpty then s.map (fun c => [c])
  else splitRel sep (s.length + 1) s

def join (ps : List S) (j : S) : S :=
  match ps with
  | [] => []
  | p :: rest => p ++ (rest.flatMap (fun q => j ++ q))

def isHi (c : UInt16) : Bool := 0xD800 ≤ c.toNat && c.toNat ≤ 0xDBFF
def isLo (c : UInt16) : Bool := 0xDC00 ≤ c.toNat && c.toNat ≤ 0xDFFF

def hexU (d : Nat) : UInt16 := UInt16.ofNat (if d < 10 then 48 + d else 87 + d)

def uEscape (n : Nat) : S :=
  [92, 117, hexU (n / 4096 % 16), hexU (n / 256 % 16), hexU (n / 16 % 16), hexU (n % 16)]

/-- escape of one code unit that is not part of a surrogate pair -/
def escOne (c : UInt16) : S :=
  let n := c.toNat
  if n == 0x22 then [92, 0x22]
  else if n == 0x5C then [92, 92]
  else if n == 0x08 then [92, 98]
  else if n == 0x0C then [92, 102]
  else if n == 0x0A then [92, 110]
  else if n == 0x0D then [92, 114]
  else if n == 0x09 then [92, 116]
  else if n < 0x20 then uEscape n
  else if isHi c || isLo c then uEscape n
  else [c]

/-- QuoteJSONString (well-formed JSON.stringify: lone surrogates are \u-escaped) -/
def jsonQuoteGo : S → S
  | [] => []
  | [c] => escOne c
  | c :: d :: rest =>
    if isHi c && isLo d then c :: d :: jsonQuoteGo rest else escOne c ++ jsonQuoteGo (d :: rest)

def jsonQuote (s : S) : S := [0x22] ++ jsonQuoteGo s ++ [0x22]

/-- the sequence of unpaired surrogates of a string -/
def loneSurrogates : S → S
  | [] => []
  | [c] => if isHi c || isLo c then [c] else []
  | c :: d :: rest =>
    if isHi c && isLo d then loneSurrogates rest
    else (if isHi c || isLo c then [c] else []) ++ loneSurrogates (d :: rest)

/-- SPEC: code-point segmentation of a unit list (ECMA-262 CodePointAt / StringToCodePoints): a high surrogate
directly followed by a low surrogate is one code point, every other unit is a code point by itself. -/
def pairCP (c d : UInt16) : Nat := 0x10000 + (c.toNat - 0xD800) * 1024 + (d.toNat - 0xDC00)

def codePoints : S → List Nat
  | [] => []
  | [c] => [c.toNat]
  | c :: d :: rest =>
    if isHi c && isLo d then pairCP c d :: codePoints rest else c.toNat :: codePoints (d :: rest)

/-- MECHANISM: lenientUtf16Decoder.ReadRune (string_unicode.go:81) iterated until EOF.  `prev` is the pushed-back
unit (`prev`, `prevSet`): a unit read while looking for the second half of a pair and found not to be a low
surrogate.  It is NOT returned as it is: the next call starts from it and looks again for a pair. -/
def lenientF : Nat → Option UInt16 → S → List Nat
  | 0, _, _ => []
  | fuel + 1, prev, input =>
    -- `if rr.prevSet { c = rr.prev } else { c, err = readChar() }`
    match (match prev with
           | some c => some (c, input)
           | none => match input with
             | [] => none
             | c :: rest => some (c, rest)) with
    | none => []                                      -- io.EOF
    | some (c, rest) =>
      if isHi c then
        match rest with
        | [] => [c.toNat]                             -- err1 == io.EOF: r = rune(c)
        | d :: rest' =>
          if isLo d then pairCP c d :: lenientF fuel none rest'       -- utf16.DecodeRune, size 2
          else c.toNat :: lenientF fuel (some d) rest'                 -- push back `second`
      else c.toNat :: lenientF fuel none rest

/-- the decoder run to exhaustion on a string -/
def lenientDecode (s : S) : List Nat := lenientF (s.length + 1) none s

def hex6 (n : Nat) : String :=
  String.ofList ([n / 1048576 % 16, n / 65536 % 16, n / 4096 % 16, n / 256 % 16, n / 16 % 16, n % 16].map
    (fun d => Char.ofNat (if d < 10 then 48 + d else 87 + d)))

/-! ### RPN evaluator -/

def hexVal? (c : Char) : Option Nat :=
  if '0' ≤ c ∧ c ≤ '9' then some (c.toNat - 48)
  else if 'a' ≤ c ∧ c ≤ 'f' then some (c.toNat - 87)
  else if 'A' ≤ c ∧ c ≤ 'F' then some (c.toNat - 55)
  else none

def parseUnits : List Char → Option (List UInt16)
  | [] => some []
  | a :: b :: c :: d :: rest => do
    let a ← hexVal? a; let b ← hexVal? b; let c ← hexVal? c; let d ← hexVal? d
    let r ← parseUnits rest
    pure (UInt16.ofNat (a * 4096 + b * 256 + c * 16 + d) :: r)
  | _ => none

def parseBytes : List Char → Option (List UInt8)
  | [] => some []
  | a :: b :: rest => do
    let a ← hexVal? a; let b ← hexVal? b
    let r ← parseBytes rest
    pure (UInt8.ofNat (a * 16 + b) :: r)
  | _ => none

def parseNat? (cs : List Char) : Option Nat :=
  if cs.isEmpty then none else
  cs.foldl (fun acc c => match acc with
    | some a => if '0' ≤ c ∧ c ≤ '9' then some (a * 10 + (c.toNat - 48)) else none
    | none => none) (some 0)

def parseInt? (s : String) : Option Int :=
  match s.toList with
  | '-' :: rest => (parseNat? rest).map (fun n => - Int.ofNat n)
  | cs => (parseNat? cs).map Int.ofNat

/-- "u" = argument omitted / undefined -/
def parseOptInt? (s : String) : Option (Option Int) :=
  if s == "u" then some none else (parseInt? s).map some

def hexOfUnits (u : List UInt16) : String :=
  String.ofList (u.flatMap (fun c =>
    let n := c.toNat
    [n / 4096 % 16, n / 256 % 16, n / 16 % 16, n % 16].map (fun d => Char.ofNat (if d < 10 then 48 + d else 87 + d))))

def popN : Nat → List S → Option (List S × List S)
  | 0, st => some ([], st)
  | n + 1, x :: st => (popN n st).map (fun (xs, r) => (xs ++ [x], r))
  | _ + 1, [] => none

def evalTok (st : List S) (tok : String) : Option (List S) :=
  match tok.splitOn ":" with
  | [hd, payload] =>
    if hd.startsWith "U." then (parseUnits payload.toList).map (· :: st)
    else if hd.startsWith "B." then (parseBytes payload.toList).map (fun b => utf16 (decode b) :: st)
    else match hd, st with
      | "id", x :: r => some (x :: r)
      | "tpl", _ => do
        let n ← parseNat? payload.toList
        let (xs, r) ← popN n st
        pure (xs.flatten :: r)
      | "at", x :: r => (parseInt? payload).map (fun i => jsAt x i :: r)
      | "charAt", x :: r => (parseInt? payload).map (fun i => jsCharAt x i :: r)
      | "padStart", f :: x :: r => (parseNat? payload.toList).map (fun n => padStart x n f :: r)
      | "padEnd", f :: x :: r => (parseNat? payload.toList).map (fun n => padEnd x n f :: r)
      | "repeat", x :: r => (parseNat? payload.toList).map (fun n => rep x n :: r)
      | "rreplace", rp :: pat :: x :: r =>
        if pat.isEmpty then none
        else if payload == "g" then some (replaceAll x pat rp :: r)
        else if payload == "" then some (replaceFirst x pat rp :: r) else none
      | _, _ => none
  | [hd, a, b] =>
    match hd, st with
    | "slice", x :: r => do
      let i ← parseInt? a; let j ← parseOptInt? b
      pure (jsSlice x i j :: r)
    | "substring", x :: r => do
      let i ← parseInt? a; let j ← parseOptInt? b
      pure (jsSubstring x i j :: r)
    | "substr", x :: r => do
      let i ← parseInt? a; let j ← parseOptInt? b
      pure (jsSubstr x i j :: r)
    | _, _ => none
  | [hd] =>
    match hd, st with
    | "cat", y :: x :: r => some ((x ++ y) :: r)
    | "ccat", y :: x :: r => some ((x ++ y) :: r)
    | "trim", x :: r => some (trim x :: r)
    | "trimStart", x :: r => some (trimStart x :: r)
    | "trimEnd", x :: r => some (trimEnd x :: r)
    | "replace", rp :: pat :: x :: r => some (replaceFirst x pat rp :: r)
    | "replaceAll", rp :: pat :: x :: r => some (replaceAll x pat rp :: r)
    | "sj", j :: sep :: x :: r => some (join (split x sep) j :: r)
    | "rsj", j :: sep :: x :: r => if sep.isEmpty then none else some (join (split x sep) j :: r)
    | "jrt", x :: r => some (x :: r)
    | "jstr", x :: r => some (jsonQuote x :: r)
    | _, _ => none
  | _ => none

def evalRPN (toks : List String) : Option S :=
  match toks.foldl (fun st t => st.bind (fun s => evalTok s t)) (some []) with
  | some [x] => some x
  | _ => none

end GojaModel.C06.Spec
