/-
  C06 — MECHANISM model of String.prototype.split(separator, limit) (builtin_string.go:830), string separator.
  Core Lean only.  New file (deepening round 2).
-/
import GojaModel.C06.Builtins2
namespace GojaModel.C06.Builtins
open GojaModel.C06

/-- the `for ; limit > 0; limit--` loop (builtin_string.go:885-911) with its counter: at most `limit` chunks -/
def splitLoopLimM (ss : List UInt16) : Nat → List UInt16 → Nat → List Str
  | 0, _, _ => []
  | limit + 1, su, idx =>
    if idx = su.length then [uniSubstring su 0 idx]
    else
      let su' := su.drop (idx + ss.length)
      uniSubstring su 0 idx :: splitLoopLimM ss limit su' ((Spec.indexFrom ss su' 0).getD su'.length)

/-- String.prototype.split(separator, limit): `limit` = none for undefined, else ToUint32(limit).
strings.SplitN(s, sep, n) is modelled by its specification: at most n-1 cuts, then the remainder
(= `splitRelB sep (n-1)`); for "" it explodes into single bytes with the remainder last. -/
def splitLimM (s sep : Str) (limit : Option Nat) : List Str :=
  match limit with
  | some 0 => []
  | none => splitM s sep
  | some (l + 1) =>
    let lim := l + 1
    match devirt s, devirt sep with
    | .a sa, .a sepa =>
      -- splitLimit = limit + 1; `if len(split) > limit { split = split[:limit] }`
      let parts := if sepa.isEmpty then (sa.take lim).map (fun c => [c]) ++ (if sa.length > lim then [sa.drop lim] else [])
                   else splitRelB sepa lim sa
      (parts.take lim).map .ascii
    | .a _, .u _ => [touch s]
    | .u su, dsep =>
      let ss := dsep.units
      if ss.isEmpty then
        (if su.length > lim then su.take lim else su).map (fun c => if nonAsciiU c then .uni [c] else .ascii [u2b c])
      else match Spec.indexFrom ss su 0 with
        | none => [touch s]
        | some idx => splitLoopLimM ss lim su idx

end GojaModel.C06.Builtins
