/-
  C06 — facts about UTF-8 itself (core Lean only):
    * Go's lenient decoder splits at a junction whose right side does not start with a continuation byte
      (`decodeS_append`) — what makes the guarded importedString.Concat shortcut correct;
    * re-encoding: a VALID string is the UTF-8 encoding of its decoded runes, all of which are scalar values
      (`valid_reencode`); UTF-16 encoding is injective on scalar values (`utf16_inj`); hence decoding is injective
      on valid UTF-8 (`valid_decode_injective`) — what makes the `utf8.ValidString(a) && utf8.ValidString(b) → false`
      shortcut of importedString.StrictEquals correct.
-/
import GojaModel.C06.Lemmas
namespace GojaModel.C06

def encode8 (r : Nat) : List UInt8 :=
  if r < 0x80 then [UInt8.ofNat r]
  else if r < 0x800 then [UInt8.ofNat (0xC0 + r / 64), UInt8.ofNat (0x80 + r % 64)]
  else if r < 0x10000 then
    [UInt8.ofNat (0xE0 + r / 4096), UInt8.ofNat (0x80 + r / 64 % 64), UInt8.ofNat (0x80 + r % 64)]
  else [UInt8.ofNat (0xF0 + r / 262144), UInt8.ofNat (0x80 + r / 4096 % 64), UInt8.ofNat (0x80 + r / 64 % 64),
        UInt8.ofNat (0x80 + r % 64)]

def isScalar (r : Nat) : Prop := r < 0xD800 ∨ (0xE000 ≤ r ∧ r ≤ 0x10FFFF)

theorem ofNat_of_toNat {b : UInt8} {n : Nat} (h : b.toNat = n) : UInt8.ofNat n = b := by
  apply UInt8.toNat_inj.mp
  have := b.toNat_lt
  simp
  omega

theorem enc1 (b : UInt8) (h : b.toNat < 0x80) : encode8 b.toNat = [b] := by
  simp only [encode8, if_pos h, ofNat_of_toNat rfl]

theorem enc2 (b b1 : UInt8) (h0 : 0xC2 ≤ b.toNat) (h1 : b.toNat < 0xE0) (h2 : 0x80 ≤ b1.toNat) (h3 : b1.toNat ≤ 0xBF) :
    encode8 ((b.toNat - 0xC0) * 64 + (b1.toNat - 0x80)) = [b, b1] := by
  have e1 : ¬ (b.toNat - 0xC0) * 64 + (b1.toNat - 0x80) < 0x80 := by omega
  have e2 : (b.toNat - 0xC0) * 64 + (b1.toNat - 0x80) < 0x800 := by omega
  simp only [encode8, if_neg e1, if_pos e2]
  rw [ofNat_of_toNat (b := b) (by omega), ofNat_of_toNat (b := b1) (by omega)]

theorem enc3 (b b1 b2 : UInt8) (h0 : 0xE0 ≤ b.toNat) (h1 : b.toNat < 0xF0)
    (h2 : (if b.toNat = 0xE0 then 0xA0 else 0x80) ≤ b1.toNat) (h3 : b1.toNat ≤ 0xBF)
    (h4 : 0x80 ≤ b2.toNat) (h5 : b2.toNat ≤ 0xBF) :
    encode8 ((b.toNat - 0xE0) * 4096 + (b1.toNat - 0x80) * 64 + (b2.toNat - 0x80)) = [b, b1, b2] := by
  have h2' : 0x80 ≤ b1.toNat ∧ (b.toNat = 0xE0 → 0xA0 ≤ b1.toNat) := by split at h2 <;> omega
  have e1 : ¬ (b.toNat - 0xE0) * 4096 + (b1.toNat - 0x80) * 64 + (b2.toNat - 0x80) < 0x80 := by omega
  have e2 : ¬ (b.toNat - 0xE0) * 4096 + (b1.toNat - 0x80) * 64 + (b2.toNat - 0x80) < 0x800 := by omega
  have e3 : (b.toNat - 0xE0) * 4096 + (b1.toNat - 0x80) * 64 + (b2.toNat - 0x80) < 0x10000 := by omega
  simp only [encode8, if_neg e1, if_neg e2, if_pos e3]
  rw [ofNat_of_toNat (b := b) (by omega), ofNat_of_toNat (b := b1) (by omega), ofNat_of_toNat (b := b2) (by omega)]

theorem enc4 (b b1 b2 b3 : UInt8) (h0 : 0xF0 ≤ b.toNat) (h1 : b.toNat < 0xF5)
    (h2 : (if b.toNat = 0xF0 then 0x90 else 0x80) ≤ b1.toNat) (h3 : b1.toNat ≤ 0xBF)
    (h4 : 0x80 ≤ b2.toNat) (h5 : b2.toNat ≤ 0xBF) (h6 : 0x80 ≤ b3.toNat) (h7 : b3.toNat ≤ 0xBF) :
    encode8 ((b.toNat - 0xF0) * 262144 + (b1.toNat - 0x80) * 4096 + (b2.toNat - 0x80) * 64 + (b3.toNat - 0x80))
      = [b, b1, b2, b3] := by
  have h2' : 0x80 ≤ b1.toNat ∧ (b.toNat = 0xF0 → 0x90 ≤ b1.toNat) := by split at h2 <;> omega
  have e3 : ¬ (b.toNat - 0xF0) * 262144 + (b1.toNat - 0x80) * 4096 + (b2.toNat - 0x80) * 64 + (b3.toNat - 0x80) < 0x10000 := by omega
  have e1 : ¬ (b.toNat - 0xF0) * 262144 + (b1.toNat - 0x80) * 4096 + (b2.toNat - 0x80) * 64 + (b3.toNat - 0x80) < 0x80 := by omega
  have e2 : ¬ (b.toNat - 0xF0) * 262144 + (b1.toNat - 0x80) * 4096 + (b2.toNat - 0x80) * 64 + (b3.toNat - 0x80) < 0x800 := by omega
  simp only [encode8, if_neg e1, if_neg e2, if_neg e3]
  rw [ofNat_of_toNat (b := b) (by omega), ofNat_of_toNat (b := b1) (by omega), ofNat_of_toNat (b := b2) (by omega),
    ofNat_of_toNat (b := b3) (by omega)]

theorem decodeRune_ok (b : UInt8) (bs : List UInt8) (h : (decodeRune (b :: bs)).ok = true) :
    b :: bs = encode8 (decodeRune (b :: bs)).rune ++ bs.drop ((decodeRune (b :: bs)).size - 1) ∧
      isScalar (decodeRune (b :: bs)).rune := by
  by_cases c1 : b.toNat < 0x80
  · simp only [decodeRune, c1, if_true, Nat.sub_self, List.drop_zero]
    exact ⟨by rw [enc1 b c1]; rfl, Or.inl (by omega)⟩
  by_cases c2 : b.toNat < 0xC2
  · simp [decodeRune, c1, c2, decErr] at h
  by_cases c3 : b.toNat < 0xE0
  · cases bs with
    | nil => simp [decodeRune, c1, c2, c3, decErr] at h
    | cons b1 tl =>
      by_cases hc : isCont b1 = true
      · have hc' : 0x80 ≤ b1.toNat ∧ b1.toNat ≤ 0xBF := by simpa [isCont] using hc
        simp only [decodeRune, c1, c2, c3, hc, if_true, if_false]
        refine ⟨?_, Or.inl (by omega)⟩
        rw [enc2 b b1 (by omega) c3 hc'.1 hc'.2]
        simp
      · simp [decodeRune, c1, c2, c3, hc, decErr] at h
  by_cases c4 : b.toNat < 0xF0
  · match bs with
    | [] => simp [decodeRune, c1, c2, c3, c4, decErr] at h
    | [_] => simp [decodeRune, c1, c2, c3, c4, decErr] at h
    | b1 :: b2 :: tl =>
      by_cases hcond : (if b.toNat = 0xE0 then 0xA0 else 0x80) ≤ b1.toNat ∧
          b1.toNat ≤ (if b.toNat = 0xED then 0x9F else 0xBF) ∧ isCont b2 = true
      · have hc2 : 0x80 ≤ b2.toNat ∧ b2.toNat ≤ 0xBF := by simpa [isCont] using hcond.2.2
        have k1 : b1.toNat ≤ 0xBF ∧ (b.toNat = 0xED → b1.toNat ≤ 0x9F) := by
          have := hcond.2.1
          split at this <;> omega
        have k0 : 0x80 ≤ b1.toNat ∧ (b.toNat = 0xE0 → 0xA0 ≤ b1.toNat) := by
          have := hcond.1
          split at this <;> omega
        simp only [decodeRune, c1, c2, c3, c4, hcond, and_self, if_true, if_false]
        refine ⟨?_, ?_⟩
        · rw [enc3 b b1 b2 (by omega) c4 hcond.1 k1.1 hc2.1 hc2.2]
          simp
        · unfold isScalar
          by_cases e : b.toNat ≤ 0xED
          · left
            have := k1.2
            omega
          · right
            omega
      · simp [decodeRune, c1, c2, c3, c4, hcond, decErr] at h
  by_cases c5 : b.toNat < 0xF5
  · match bs with
    | [] => simp [decodeRune, c1, c2, c3, c4, c5, decErr] at h
    | [_] => simp [decodeRune, c1, c2, c3, c4, c5, decErr] at h
    | [_, _] => simp [decodeRune, c1, c2, c3, c4, c5, decErr] at h
    | b1 :: b2 :: b3 :: tl =>
      by_cases hcond : (if b.toNat = 0xF0 then 0x90 else 0x80) ≤ b1.toNat ∧
          b1.toNat ≤ (if b.toNat = 0xF4 then 0x8F else 0xBF) ∧ isCont b2 = true ∧ isCont b3 = true
      · have hc2 : 0x80 ≤ b2.toNat ∧ b2.toNat ≤ 0xBF := by simpa [isCont] using hcond.2.2.1
        have hc3 : 0x80 ≤ b3.toNat ∧ b3.toNat ≤ 0xBF := by simpa [isCont] using hcond.2.2.2
        have k1 : b1.toNat ≤ 0xBF ∧ (b.toNat = 0xF4 → b1.toNat ≤ 0x8F) := by
          have := hcond.2.1
          split at this <;> omega
        have k0 : 0x80 ≤ b1.toNat ∧ (b.toNat = 0xF0 → 0x90 ≤ b1.toNat) := by
          have := hcond.1
          split at this <;> omega
        simp only [decodeRune, c1, c2, c3, c4, c5, hcond, and_self, if_true, if_false]
        refine ⟨?_, ?_⟩
        · rw [enc4 b b1 b2 b3 (by omega) c5 hcond.1 k1.1 hc2.1 hc2.2 hc3.1 hc3.2]
          simp
        · unfold isScalar
          right
          have := k1.2
          have := k0.2
          omega
      · simp [decodeRune, c1, c2, c3, c4, c5, hcond, decErr] at h
  · simp [decodeRune, c1, c2, c3, c4, c5, decErr] at h


theorem decodeRune_size (b0 : UInt8) (rest : List UInt8) :
    1 ≤ (decodeRune (b0 :: rest)).size ∧ (decodeRune (b0 :: rest)).size - 1 ≤ rest.length := by
  match rest with
  | [] => simp only [decodeRune]; repeat' split
          all_goals simp [decErr]
  | [b1] => simp only [decodeRune]; repeat' split
            all_goals simp [decErr]
  | [b1, b2] => simp only [decodeRune]; repeat' split
                all_goals simp [decErr]
  | b1 :: b2 :: b3 :: r => simp only [decodeRune]; repeat' split
                           all_goals simp [decErr]

theorem decodeRune_append {t : List UInt8} (ht : junctionSafe t = true) (b0 : UInt8) (rest : List UInt8) :
    decodeRune (b0 :: rest ++ t) = decodeRune (b0 :: rest) := by
  cases t with
  | nil => simp
  | cons c t' =>
    have hc : c.toNat < 128 ∨ 191 < c.toNat := by simpa [junctionSafe, isCont] using ht
    match rest with
    | [] =>
      simp only [List.cons_append, List.nil_append, decodeRune]
      repeat' split
      all_goals simp_all [decErr, isCont]
      all_goals omega
    | [b1] =>
      simp only [List.cons_append, List.nil_append, decodeRune]
      repeat' split
      all_goals simp_all [decErr, isCont]
      all_goals omega
    | [b1, b2] =>
      simp only [List.cons_append, List.nil_append, decodeRune]
      repeat' split
      all_goals simp_all [decErr, isCont]
      all_goals omega
    | b1 :: b2 :: b3 :: r =>
      simp only [List.cons_append, decodeRune]

theorem decodeS_append {t : List UInt8} (ht : junctionSafe t = true) :
    ∀ (s : List UInt8) (k : Nat), k ≤ s.length → decodeS k (s ++ t) = decodeS k s ++ decodeS 0 t
  | [], k, hk => by
    have : k = 0 := by simpa using hk
    subst this
    cases t <;> simp [decodeS]
  | b :: bs, k + 1, hk => by
    simp only [List.cons_append, decodeS]
    exact decodeS_append ht bs k (by simpa using hk)
  | b :: bs, 0, _ => by
    have h1 := decodeRune_append ht b bs
    have h2 := decodeRune_size b bs
    simp only [List.cons_append] at h1
    simp only [List.cons_append, decodeS, h1, List.cons_append]
    rw [decodeS_append ht bs _ h2.2]

theorem valid_reencode : ∀ (s : List UInt8) (k : Nat), validS k s = true → k ≤ s.length →
    s.drop k = (decodeS k s).flatMap encode8 ∧ ∀ r ∈ decodeS k s, isScalar r
  | [], k, _, hk => by
    have : k = 0 := by simpa using hk
    subst this
    simp [decodeS]
  | b :: bs, k + 1, hv, hk => by
    simp only [validS] at hv
    simp only [decodeS, List.drop_succ_cons]
    exact valid_reencode bs k hv (by simpa using hk)
  | b :: bs, 0, hv, _ => by
    simp only [validS, Bool.and_eq_true] at hv
    have hR := decodeRune_ok b bs hv.1
    have hsz := decodeRune_size b bs
    have ih := valid_reencode bs _ hv.2 hsz.2
    simp only [decodeS, List.drop_zero, List.flatMap_cons]
    refine ⟨?_, ?_⟩
    · rw [← ih.1]
      exact hR.1
    · intro r hr
      simp only [List.mem_cons] at hr
      rcases hr with rfl | hr
      · exact hR.2
      · exact ih.2 r hr

theorem utf16One_ne_nil (r : Nat) : utf16One r ≠ [] := by
  unfold utf16One
  split <;> simp

theorem utf16One_inj {r1 r2 : Nat} {a b : List UInt16} (h1 : isScalar r1) (h2 : isScalar r2)
    (h : utf16One r1 ++ a = utf16One r2 ++ b) : r1 = r2 ∧ a = b := by
  unfold isScalar at h1 h2
  unfold utf16One at h
  by_cases c1 : r1 ≤ 0xFFFF <;> by_cases c2 : r2 ≤ 0xFFFF
  · simp only [c1, c2, if_true, List.singleton_append, List.cons.injEq] at h
    have := congrArg UInt16.toNat h.1
    simp at this
    exact ⟨by omega, h.2⟩
  · simp only [c1, c2, if_true, if_false, List.singleton_append, List.cons_append, List.cons.injEq] at h
    have := congrArg UInt16.toNat h.1
    simp at this
    omega
  · simp only [c1, c2, if_true, if_false, List.singleton_append, List.cons_append, List.cons.injEq] at h
    have := congrArg UInt16.toNat h.1
    simp at this
    omega
  · simp only [c1, c2, if_false, List.cons_append, List.nil_append, List.cons.injEq] at h
    have e1 := congrArg UInt16.toNat h.1
    have e2 := congrArg UInt16.toNat h.2.1
    simp at e1 e2
    exact ⟨by omega, h.2.2⟩

theorem utf16_inj : ∀ {a b : List Nat}, (∀ r ∈ a, isScalar r) → (∀ r ∈ b, isScalar r) → utf16 a = utf16 b → a = b
  | [], [], _, _, _ => rfl
  | [], r :: rs, _, _, h => by
    rw [utf16_cons] at h
    have := congrArg List.length h
    have hne := utf16One_ne_nil r
    cases hu : utf16One r with
    | nil => exact absurd hu hne
    | cons x xs => rw [hu] at this; simp [utf16] at this
  | r :: rs, [], _, _, h => by
    rw [utf16_cons] at h
    have := congrArg List.length h
    have hne := utf16One_ne_nil r
    cases hu : utf16One r with
    | nil => exact absurd hu hne
    | cons x xs => rw [hu] at this; simp [utf16] at this
  | r1 :: a, r2 :: b, ha, hb, h => by
    rw [utf16_cons, utf16_cons] at h
    obtain ⟨e1, e2⟩ := utf16One_inj (ha r1 (by simp)) (hb r2 (by simp)) h
    rw [e1, utf16_inj (fun r hr => ha r (by simp [hr])) (fun r hr => hb r (by simp [hr])) e2]

/-- Go's UTF-8 decoder followed by UTF-16 encoding is injective on VALID UTF-8 -/
theorem valid_decode_injective (s t : List UInt8) (hs : validUtf8 s = true) (ht : validUtf8 t = true)
    (h : utf16 (decode s) = utf16 (decode t)) : s = t := by
  have a := valid_reencode s 0 hs (Nat.zero_le _)
  have b := valid_reencode t 0 ht (Nat.zero_le _)
  have e : decodeS 0 s = decodeS 0 t := utf16_inj a.2 b.2 h
  have a1 := a.1
  have b1 := b.1
  simp only [List.drop_zero] at a1 b1
  rw [a1, b1, e]

end GojaModel.C06
