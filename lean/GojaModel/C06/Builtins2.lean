/-
  C06 — MECHANISM models, second batch (deepening round 2): trimString (trim / trimStart / trimEnd) and String.raw.
  Core Lean only.  New file: nothing in Builtins.lean / Props.lean was changed.
-/
import GojaModel.C06.Builtins
namespace GojaModel.C06.Builtins
open GojaModel.C06

/-- isWhitespaceUnit (builtin_string.go:1002): a surrogate is never white space, otherwise membership in
parser.WhitespaceChars (= the spec's WhiteSpace ∪ LineTerminator set, `Spec.isWS`). -/
def isWsUnit (c : UInt16) : Bool := !(Spec.isHi c || Spec.isLo c) && Spec.isWS c

/-- `for start < end && isWhitespaceUnit(u.CharAt(start)) { start++ }` (builtin_string.go:1025); fuel ≥ end - start -/
def leftLoop (u : List UInt16) : Nat → Nat → Nat → Nat
  | 0, start, _ => start
  | f + 1, start, en =>
    if start < en && isWsUnit (u.getD start 0) then leftLoop u f (start + 1) en else start

/-- `for end > start && isWhitespaceUnit(u.CharAt(end-1)) { end-- }` (builtin_string.go:1030); fuel ≥ end - start -/
def rightLoop (u : List UInt16) : Nat → Nat → Nat → Nat
  | 0, _, en => en
  | f + 1, start, en =>
    if en > start && isWsUnit (u.getD (en - 1) 0) then rightLoop u f start (en - 1) else en

/-- white-space test of strings.TrimLeft/TrimRight(str, parser.WhitespaceChars) on a byte of an ASCII string -/
def wsB (b : UInt8) : Bool := Spec.isWS (b2u b)

/-- trimString (builtin_string.go:1011).  The ASCII branch uses strings.TrimLeft / strings.TrimRight, modelled by their
specification (drop the leading / trailing bytes that are in the cut set). -/
def trimM (s : Str) (left right : Bool) : Str :=
  match devirt s with
  | .a a =>
    let a1 := if left then a.dropWhile wsB else a
    let a2 := if right then (a1.reverse.dropWhile wsB).reverse else a1
    .ascii a2
  | .u u =>
    let start := if left then leftLoop u u.length 0 u.length else 0
    let en := if right then rightLoop u u.length start u.length else u.length
    uniSubstring u start en

/-- String.raw (builtin_string.go:150): `segs` = the raw segments after toString (literalSegments ≥ 1), `subs` = the
substitutions after toString.  Segment, then a substitution while there is one, until the last segment. -/
def rawLoopM : List Str → List Str → SB → SB
  | [], _, b => b
  | [seg], _, b => b.writeString seg
  | seg :: seg2 :: segs, subs, b =>
    match subs with
    | [] => rawLoopM (seg2 :: segs) [] (b.writeString seg)
    | x :: xs => rawLoopM (seg2 :: segs) xs ((b.writeString seg).writeString x)

def rawM (segs subs : List Str) : Str :=
  if segs.isEmpty then emptyStr else (rawLoopM segs subs SB.empty).toStr

end GojaModel.C06.Builtins

namespace GojaModel.C06.Spec
/-- SPEC of String.raw (ECMA-262 §22.1.2.4) on units: segments interleaved with the substitutions that exist -/
def rawS : List S → List S → S
  | [], _ => []
  | [seg], _ => seg
  | seg :: seg2 :: segs, [] => seg ++ rawS (seg2 :: segs) []
  | seg :: seg2 :: segs, x :: xs => seg ++ x ++ rawS (seg2 :: segs) xs
end GojaModel.C06.Spec
