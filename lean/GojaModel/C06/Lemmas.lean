/-
  C06 — helper lemmas for Props.lean (core Lean only).
-/
import GojaModel.C06.Model
namespace GojaModel.C06

/-! ### bytes / units -/

@[simp] theorem b2u_toNat (b : UInt8) : (b2u b).toNat = b.toNat := by simp [b2u]

theorem b2u_inj {a b : UInt8} (h : b2u a = b2u b) : a = b := by
  apply UInt8.toNat_inj.mp
  have := congrArg UInt16.toNat h
  simpa using this

theorem map_b2u_inj : ∀ {l1 l2 : List UInt8}, l1.map b2u = l2.map b2u → l1 = l2
  | [], [], _ => rfl
  | [], _ :: _, h => by simp at h
  | _ :: _, [], h => by simp at h
  | a :: as, b :: bs, h => by
    simp only [List.map_cons, List.cons.injEq] at h
    rw [b2u_inj h.1, map_b2u_inj h.2]

@[simp] theorem asciiU_b2u (b : UInt8) : asciiU (b2u b) = asciiB b := by simp [asciiU, asciiB]

theorem u2b_b2u (b : UInt8) : u2b (b2u b) = b := by
  apply UInt8.toNat_inj.mp
  simp [u2b, b2u]

theorem b2u_u2b {c : UInt16} (h : asciiU c = true) : b2u (u2b c) = c := by
  apply UInt16.toNat_inj.mp
  simp [asciiU] at h
  simp [u2b, b2u]
  omega

theorem asciiB_u2b {c : UInt16} (h : asciiU c = true) : asciiB (u2b c) = true := by
  simp [asciiU] at h
  simp [asciiB, u2b]
  omega

theorem map_u2b_b2u (l : List UInt8) : (l.map b2u).map u2b = l := by
  induction l with
  | nil => rfl
  | cons a as ih => simp [u2b_b2u, ih]

theorem map_b2u_u2b : ∀ {l : List UInt16}, l.all asciiU = true → (l.map u2b).map b2u = l
  | [], _ => rfl
  | c :: cs, h => by
    simp only [List.all_cons, Bool.and_eq_true] at h
    simp [b2u_u2b h.1, map_b2u_u2b h.2]

theorem all_asciiB_u2b : ∀ {l : List UInt16}, l.all asciiU = true → (l.map u2b).all asciiB = true
  | [], _ => rfl
  | c :: cs, h => by
    simp only [List.all_cons, Bool.and_eq_true] at h
    simp [asciiB_u2b h.1, all_asciiB_u2b h.2]

theorem any_nonAscii_map_b2u (l : List UInt8) : (l.map b2u).any nonAsciiU = !(l.all asciiB) := by
  induction l with
  | nil => rfl
  | cons a as ih => simp [nonAsciiU, ih, Bool.not_and]

theorem any_nonAscii_eq_not_all (l : List UInt16) : l.any nonAsciiU = !(l.all asciiU) := by
  induction l with
  | nil => rfl
  | cons a as ih => simp [nonAsciiU, ih, Bool.not_and]

/-! ### lenient UTF-8 decoding -/

theorem utf16_cons (r : Nat) (rs : List Nat) : utf16 (r :: rs) = utf16One r ++ utf16 rs := by
  simp [utf16]

theorem decodeRune_ascii {b0 : UInt8} (rest : List UInt8) (h : asciiB b0 = true) :
    decodeRune (b0 :: rest) = ⟨b0.toNat, 1, true⟩ := by
  simp [asciiB] at h
  simp [decodeRune, h]

theorem utf16One_ascii (b : UInt8) (h : asciiB b = true) : utf16One b.toNat = [b2u b] := by
  simp [asciiB] at h
  have : b.toNat ≤ 0xFFFF := by omega
  simp only [utf16One, this, if_true]
  congr 1
  apply UInt16.toNat_inj.mp
  simp

/-- on ASCII bytes the decoding is the identity: an imported ASCII string has the units of its bytes -/
theorem utf16_decode_ascii : ∀ {s : List UInt8}, s.all asciiB = true → utf16 (decode s) = s.map b2u
  | [], _ => rfl
  | b :: bs, h => by
    simp only [List.all_cons, Bool.and_eq_true] at h
    have ih := utf16_decode_ascii h.2
    simp only [decode] at ih ⊢
    simp only [decodeS, decodeRune_ascii bs h.1, utf16_cons, utf16One_ascii b h.1, List.map_cons]
    simpa using ih

theorem decodeRune_bounds (b0 : UInt8) (rest : List UInt8) (h : ¬ b0.toNat < 128) :
    128 ≤ (decodeRune (b0 :: rest)).rune ∧ (decodeRune (b0 :: rest)).rune ≤ 0x10FFFF := by
  unfold decodeRune
  simp only [h, if_false]
  repeat' split
  all_goals simp_all only [decErr, isCont, decide_eq_true_eq]
  all_goals omega

theorem utf16One_head_nonascii {r : Nat} (h1 : 128 ≤ r) (h2 : r ≤ 0x10FFFF) (rest : List UInt16) :
    (utf16One r ++ rest).any nonAsciiU = true := by
  unfold utf16One
  split
  · simp [nonAsciiU, asciiU]
    left
    omega
  · simp [nonAsciiU, asciiU]
    left
    omega

/-- unistring.Scan's result (non-nil exactly when a byte >= 0x80 exists) contains a unit >= 0x80 -/
theorem decode_nonascii : ∀ {s : List UInt8}, s.all asciiB = false → (utf16 (decode s)).any nonAsciiU = true
  | [], h => by simp at h
  | b :: bs, h => by
    by_cases hb : asciiB b = true
    · have hbs : bs.all asciiB = false := by simpa [hb] using h
      have ih := decode_nonascii hbs
      simp only [decode] at ih ⊢
      simp only [decodeS, decodeRune_ascii bs hb, utf16_cons, utf16One_ascii b hb]
      simp [ih]
    · have hb' : ¬ b.toNat < 128 := by simpa [asciiB] using hb
      have hr := decodeRune_bounds b bs hb'
      simp only [decode, decodeS, utf16_cons]
      exact utf16One_head_nonascii hr.1 hr.2 _

/-! ### scan / devirtualize -/

theorem scan_none {s : List UInt8} (h : s.all asciiB = true) : scan s = none := by simp [scan, h]

theorem scan_some {s : List UInt8} (h : s.all asciiB = false) : scan s = some (utf16 (decode s)) := by
  simp [scan, h]

theorem scan_cases (s : List UInt8) :
    (s.all asciiB = true ∧ scan s = none) ∨ (s.all asciiB = false ∧ scan s = some (utf16 (decode s))) := by
  cases h : s.all asciiB
  · exact Or.inr ⟨rfl, scan_some h⟩
  · exact Or.inl ⟨rfl, scan_none h⟩

/-- normal form of a devirtualised string -/
def DV.NF : DV → Prop
  | .a bs => bs.all asciiB = true
  | .u us => us.any nonAsciiU = true

theorem devirt_units (x : Str) : (devirt x).units = units x := by
  cases x with
  | ascii b => rfl
  | uni u => rfl
  | imp s sc =>
    rcases scan_cases s with ⟨h, hs⟩ | ⟨h, hs⟩
    · simp [devirt, hs, DV.units, units, utf16_decode_ascii h]
    · simp [devirt, hs, DV.units, units]

theorem devirt_nf {x : Str} (h : NF x) : (devirt x).NF := by
  cases x with
  | ascii b => simpa [devirt, DV.NF, NF] using h
  | uni u => simpa [devirt, DV.NF, NF] using h
  | imp s sc =>
    rcases scan_cases s with ⟨h, hs⟩ | ⟨h, hs⟩
    · simp [devirt, hs, DV.NF, h]
    · simp [devirt, hs, DV.NF, decode_nonascii h]

theorem DV.units_a_ascii {b : List UInt8} (h : b.all asciiB = true) : (b.map b2u).all asciiU = true := by
  induction b with
  | nil => rfl
  | cons a as ih =>
    simp only [List.all_cons, Bool.and_eq_true] at h
    simp [h.1, ih h.2]

theorem nonAscii_of_any {u : List UInt16} (h : u.any nonAsciiU = true) : u.all asciiU = false := by
  rw [any_nonAscii_eq_not_all] at h
  simpa using h

/-- an all-ASCII unit list never equals one with a non-ASCII unit -/
theorem ascii_ne_nonascii {b : List UInt8} {u : List UInt16} (hb : b.all asciiB = true)
    (hu : u.any nonAsciiU = true) : b.map b2u ≠ u := by
  intro h
  have h1 := DV.units_a_ascii hb
  rw [h, nonAscii_of_any hu] at h1
  exact Bool.noConfusion h1

theorem slice_map {α β : Type} (f : α → β) (l : List α) (st en : Nat) :
    slice (l.map f) st en = (slice l st en).map f := by
  simp [slice, List.map_take, List.map_drop]

theorem all_slice {α : Type} {p : α → Bool} {l : List α} (h : l.all p = true) (st en : Nat) :
    (slice l st en).all p = true := by
  rw [List.all_eq_true] at h ⊢
  intro x hx
  exact h x (List.mem_of_mem_drop (List.mem_of_mem_take hx))

theorem nonAscii_b2u_of_all {l : List UInt8} (h : l.all asciiB = true) : ∀ x ∈ l, nonAsciiU (b2u x) = false := by
  intro x hx
  simp [nonAsciiU, (List.all_eq_true.mp h) x hx]

theorem all_takeWhile {α : Type} (p : α → Bool) : ∀ l : List α, (l.takeWhile p).all p = true
  | [] => rfl
  | a :: as => by
    by_cases h : p a = true
    · simp [List.takeWhile_cons, h, all_takeWhile p as]
    · simp [List.takeWhile_cons, h]

/-- the builder state the pre-58560e3 WriteSubstring produced for LikelyUnicode; WriteSubstring("abéc", 0, 2) -/
def sbOldExample : SB :=
  { abuf := [], started := true, ubuf := slice [0x61, 0x62, 0xe9, 0x63] 0 2, unicode := true }

end GojaModel.C06
