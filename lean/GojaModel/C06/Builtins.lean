/-
  C06 — MECHANISM models of the String built-ins that build their result through Substring / builders
  (builtin_string.go), on the three representations of Model.lean.  Core Lean only.

  Integer arguments are Go int64 after ToInteger, modelled as `Int` (assumption: no int64 overflow in the index
  arithmetic, i.e. |arguments| < 2^62; ToInteger clamps infinities to ±MaxInt64 and the code only adds a length to a
  NEGATIVE argument).  `len s` is `s.Length()`.
-/
import GojaModel.C06.Model
import GojaModel.C06.Spec
namespace GojaModel.C06.Builtins
open GojaModel.C06

/-- `s.Length()` -/
def len (s : Str) : Nat := (units s).length

def emptyStr : Str := .ascii []        -- stringEmpty

/-! ### index computations followed by `Substring` -/

/-- the clamp used by slice for both arguments (builtin_string.go:796-816) -/
def clampRel (x l : Int) : Int :=
  if x < 0 then (if x + l < 0 then 0 else x + l) else (if x > l then l else x)

/-- String.prototype.slice (builtin_string.go:783) -/
def sliceM (s : Str) (i : Int) (j : Option Int) : Str :=
  let l : Int := ((len s : Nat) : Int)
  let st := clampRel i l
  let en := clampRel (j.getD l) l
  if en > st then substring s st.toNat en.toNat else emptyStr

/-- the clamp used by substring (builtin_string.go:969-979) -/
def clamp0 (x l : Int) : Int := if x < 0 then 0 else if x > l then l else x

/-- String.prototype.substring (builtin_string.go:957) -/
def substringM (s : Str) (i : Int) (j : Option Int) : Str :=
  let l : Int := ((len s : Nat) : Int)
  let a := clamp0 i l
  let b := clamp0 (j.getD l) l
  if a > b then substring s b.toNat a.toNat else substring s a.toNat b.toNat

/-- String.prototype.substr (builtin_string.go:1052) -/
def substrM (s : Str) (i : Int) (n : Option Int) : Str :=
  let sl : Int := ((len s : Nat) : Int)
  let start := if i < 0 then max (sl + i) 0 else i
  let length := min (max (n.getD sl) 0) (sl - start)
  if length ≤ 0 then emptyStr else substring s start.toNat (start + length).toNat

/-- String.prototype.at (builtin_string.go:173); none = undefined -/
def atM (s : Str) (pos : Int) : Option Str :=
  let l : Int := ((len s : Nat) : Int)
  let p := if pos < 0 then l + pos else pos
  if p ≥ l ∨ p < 0 then none else some (substring s p.toNat (p + 1).toNat)

/-- String.prototype.charAt (builtin_string.go:187) -/
def charAtM (s : Str) (pos : Int) : Str :=
  if pos < 0 ∨ pos ≥ ((len s : Nat) : Int) then emptyStr else substring s pos.toNat (pos + 1).toNat

/-! ### builders -/

/-- a fresh unicodeStringBuilder after `Grow` (the BOM is written): the started state of `SB` -/
def usb0 : SB := SB.empty.switchToUnicode

/-- `for k times { sb.writeString(x) }` -/
def writeTimes (b : SB) (x : Str) : Nat → SB
  | 0 => b
  | k + 1 => writeTimes (b.writeString x) x k

/-- Runtime._stringPad (builtin_string.go:482).  `filler` is the second argument after toString, or `" "`. -/
def padM (s filler : Str) (maxLength : Nat) (atStart : Bool) : Str :=
  if maxLength ≤ len s then touch s                      -- `return s` (s.Length() has scanned it)
  else if len filler = 0 then touch s
  else
    let remaining := maxLength - len s
    match devirt s, devirt filler with
    | .a sa, .a fa =>
      -- strings.Builder path (builtin_string.go:505-522)
      let fill := (List.replicate (remaining / fa.length) fa).flatten ++ fa.take (remaining % fa.length)
      .ascii (if atStart then fill ++ sa else sa ++ fill)
    | _, _ =>
      -- unicodeStringBuilder path (builtin_string.go:524-541)
      let fl := len filler
      let b0 := if atStart then usb0 else usb0.writeString s
      let b1 := writeTimes b0 filler (remaining / fl)
      let b2 := if remaining % fl > 0 then b1.writeString (substring filler 0 (remaining % fl)) else b1
      let b3 := if atStart then b2.writeString s else b2
      b3.toStr

/-- String.prototype.repeat (builtin_string.go:552), count already validated (0 <= n) -/
def repeatM (s : Str) (n : Nat) : Str :=
  if n = 0 ∨ len s = 0 then emptyStr
  else match devirt s with
    | .a a => .ascii (List.replicate n a).flatten
    | .u u => (writeTimes usb0 (.uni u) n).toStr      -- writeUnicodeString = writeString of a unicodeString

/-- String.fromCharCode (builtin_string.go:108), arguments after ToUint16 -/
def fromCharCodeM (cs : List UInt16) : Str :=
  if cs.all asciiU then .ascii (cs.map u2b)
  else .uni (((cs.takeWhile asciiU).map u2b).map b2u ++ cs.dropWhile asciiU)   -- b[0..i) widened, then chr and the rest

/-- String.fromCodePoint (builtin_string.go:132), arguments validated (0 <= c <= 0x10FFFF) -/
def fromCodePointM (cps : List Nat) : Str := (cps.foldl SB.writeRune SB.empty).toStr

/-- String.prototype.concat (builtin_string.go:229): this :: arguments after toString -/
def protoConcatM (l : List Str) : Str :=
  let ds := l.map devirt
  if ds.all DV.isA then .ascii (ds.flatMap DV.bytes) else .uni (ds.flatMap DV.units)

end GojaModel.C06.Builtins
