/-
  C06 — MECHANISM models of the String built-ins that build their result through Substring / builders
  (builtin_string.go), on the three representations of Model.lean.  Core Lean only.

  Integer arguments are Go int64 after ToInteger, modelled as `Int` (assumption: no int64 overflow in the index
  arithmetic, i.e. |arguments| < 2^62; ToInteger clamps infinities to ±MaxInt64 and the code only adds a length to a
  NEGATIVE argument).  `len s` is `s.Length()`.
-/
import GojaModel.C06.Model
import GojaModel.C06.Spec
namespace GojaModel.C06.Builtins
open GojaModel.C06

/-- `s.Length()` -/
def len (s : Str) : Nat := (units s).length

def emptyStr : Str := .ascii []        -- stringEmpty

/-! ### index computations followed by `Substring` -/

/-- the clamp used by slice for both arguments (builtin_string.go:796-816) -/
def clampRel (x l : Int) : Int :=
  if x < 0 then (if x + l < 0 then 0 else x + l) else (if x > l then l else x)

/-- String.prototype.slice (builtin_string.go:783) -/
def sliceM (s : Str) (i : Int) (j : Option Int) : Str :=
  let l : Int := ((len s : Nat) : Int)
  let st := clampRel i l
  let en := clampRel (j.getD l) l
  if en > st then substring s st.toNat en.toNat else emptyStr

/-- the clamp used by substring (builtin_string.go:969-979) -/
def clamp0 (x l : Int) : Int := if x < 0 then 0 else if x > l then l else x

/-- String.prototype.substring (builtin_string.go:957) -/
def substringM (s : Str) (i : Int) (j : Option Int) : Str :=
  let l : Int := ((len s : Nat) : Int)
  let a := clamp0 i l
  let b := clamp0 (j.getD l) l
  if a > b then substring s b.toNat a.toNat else substring s a.toNat b.toNat

/-- String.prototype.substr (builtin_string.go:1052) -/
def substrM (s : Str) (i : Int) (n : Option Int) : Str :=
  let sl : Int := ((len s : Nat) : Int)
  let start := if i < 0 then max (sl + i) 0 else i
  let length := min (max (n.getD sl) 0) (sl - start)
  if length ≤ 0 then emptyStr else substring s start.toNat (start + length).toNat

/-- String.prototype.at (builtin_string.go:173); none = undefined -/
def atM (s : Str) (pos : Int) : Option Str :=
  let l : Int := ((len s : Nat) : Int)
  let p := if pos < 0 then l + pos else pos
  if p ≥ l ∨ p < 0 then none else some (substring s p.toNat (p + 1).toNat)

/-- String.prototype.charAt (builtin_string.go:187) -/
def charAtM (s : Str) (pos : Int) : Str :=
  if pos < 0 ∨ pos ≥ ((len s : Nat) : Int) then emptyStr else substring s pos.toNat (pos + 1).toNat

/-! ### builders -/

/-- a fresh unicodeStringBuilder after `Grow` (the BOM is written): the started state of `SB` -/
def usb0 : SB := SB.empty.switchToUnicode

/-- `for k times { sb.writeString(x) }` -/
def writeTimes (b : SB) (x : Str) : Nat → SB
  | 0 => b
  | k + 1 => writeTimes (b.writeString x) x k

/-- Runtime._stringPad (builtin_string.go:482).  `filler` is the second argument after toString, or `" "`. -/
def padM (s filler : Str) (maxLength : Nat) (atStart : Bool) : Str :=
  if maxLength ≤ len s then touch s                      -- `return s` (s.Length() has scanned it)
  else if len filler = 0 then touch s
  else
    let remaining := maxLength - len s
    match devirt s, devirt filler with
    | .a sa, .a fa =>
      -- strings.Builder path (builtin_string.go:505-522)
      let fill := (List.replicate (remaining / fa.length) fa).flatten ++ fa.take (remaining % fa.length)
      .ascii (if atStart then fill ++ sa else sa ++ fill)
    | _, _ =>
      -- unicodeStringBuilder path (builtin_string.go:524-541)
      let fl := len filler
      let b0 := if atStart then usb0 else usb0.writeString s
      let b1 := writeTimes b0 filler (remaining / fl)
      let b2 := if remaining % fl > 0 then b1.writeString (substring filler 0 (remaining % fl)) else b1
      let b3 := if atStart then b2.writeString s else b2
      b3.toStr

/-- String.prototype.repeat (builtin_string.go:552), count already validated (0 <= n) -/
def repeatM (s : Str) (n : Nat) : Str :=
  if n = 0 ∨ len s = 0 then emptyStr
  else match devirt s with
    | .a a => .ascii (List.replicate n a).flatten
    | .u u => (writeTimes usb0 (.uni u) n).toStr      -- writeUnicodeString = writeString of a unicodeString

/-- String.fromCharCode (builtin_string.go:108), arguments after ToUint16 -/
def fromCharCodeM (cs : List UInt16) : Str :=
  if cs.all asciiU then .ascii (cs.map u2b)
  else .uni (((cs.takeWhile asciiU).map u2b).map b2u ++ cs.dropWhile asciiU)   -- b[0..i) widened, then chr and the rest

/-- String.fromCodePoint (builtin_string.go:132), arguments validated (0 <= c <= 0x10FFFF) -/
def fromCodePointM (cps : List Nat) : Str := (cps.foldl SB.writeRune SB.empty).toStr

/-- String.prototype.concat (builtin_string.go:229): this :: arguments after toString -/
def protoConcatM (l : List Str) : Str :=
  let ds := l.map devirt
  if ds.all DV.isA then .ascii (ds.flatMap DV.bytes) else .uni (ds.flatMap DV.units)

/-! ### replace / replaceAll with a string pattern and a string replacement -/

def isPrefixB : List UInt8 → List UInt8 → Bool
  | [], _ => true
  | _ :: _, [] => false
  | a :: as, b :: bs => a == b && isPrefixB as bs

/-- strings.Index(rest, pat) + offset, modelled by its specification (least matching position) -/
def indexFromB (pat : List UInt8) : (rest : List UInt8) → (pos : Nat) → Option Nat
  | [], pos => if pat.isEmpty then some pos else none
  | c :: cs, pos => if isPrefixB pat (c :: cs) then some pos else indexFromB pat cs (pos + 1)

/-- asciiString.index (string_ascii.go), unicodeString.index (string_unicode.go, with the past-the-end guard of
0ea80f8), importedString.index; utf16Index is modelled by its specification (least matching position). none = -1 -/
def indexM (s pat : Str) (start : Nat) : Option Nat :=
  match devirt s, devirt pat with
  | .a a, .a p => if start > a.length then none else indexFromB p (a.drop start) start
  | .a _, .u _ => none
  | .u u, p => if start > u.length then none else Spec.indexFrom p.units (u.drop start) start

/-- writeSubstitution (builtin_regexp.go:1191) for a string pattern: numCaptures = 1, no named groups.
`repl` = the units of replaceStr read with CharAt; every literal unit goes through `WriteRune(rune(c))`. -/
def writeSubst (s : Str) (pos : Nat) (matched : Str) : List UInt16 → SB → SB
  | [], b => b
  | [c], b => b.writeRune c.toNat
  | c :: ch :: rest, b =>
    if c.toNat = 36 then
      if ch.toNat = 36 then writeSubst s pos matched rest (b.writeRune 36)
      else if ch.toNat = 96 then writeSubst s pos matched rest (b.writeString (substring s 0 pos))
      else if ch.toNat = 39 then
        writeSubst s pos matched rest
          (if pos + len matched < len s then b.writeString (substring s (pos + len matched) (len s)) else b)
      else if ch.toNat = 38 then writeSubst s pos matched rest (b.writeString matched)
      else writeSubst s pos matched rest ((b.writeRune 36).writeRune ch.toNat)   -- `$<`, `$0`..`$9`, other: literal
    else writeSubst s pos matched (ch :: rest) (b.writeRune c.toNat)

/-- the `for _, item := range found` loop of Runtime.stringReplace (builtin_string.go:643-683), no callback -/
def replaceGoM (s : Str) (plen : Nat) (repl : List UInt16) : List Nat → Nat → SB → SB × Nat
  | [], last, b => (b, last)
  | p :: ps, last, b =>
    let b1 := if p ≠ last then b.writeString (substring s last p) else b
    let b2 := writeSubst s p (substring s p (p + plen)) repl b1
    replaceGoM s plen repl ps (p + plen) b2

/-- Runtime.stringReplace for match positions `found` of a pattern of length `plen` -/
def stringReplaceM (s : Str) (plen : Nat) (found : List Nat) (repl : Str) : Str :=
  if found.isEmpty then touch s
  else
    let r := replaceGoM s plen (units repl) found 0 SB.empty
    (if r.2 ≠ len s then r.1.writeString (substring s r.2 (len s)) else r.1).toStr

/-- String.prototype.replace, string pattern (builtin_string.go:682) -/
def replaceM (s pat repl : Str) : Str :=
  match indexM s pat 0 with
  | none => stringReplaceM s (len pat) [] repl
  | some p => stringReplaceM s (len pat) [p] repl

def foundAllM (s pat : Str) : Nat → Nat → List Nat
  | 0, _ => []
  | fuel + 1, pos =>
    match indexM s pat pos with
    | none => []
    | some p => p :: foundAllM s pat fuel (p + max 1 (len pat))

/-- String.prototype.replaceAll, string pattern (builtin_string.go:707); the loop runs at most len+1 times -/
def replaceAllM (s pat repl : Str) : Str :=
  stringReplaceM s (len pat) (foundAllM s pat (len s + 2) 0) repl

/-! ### split (string separator, no limit) and Array.prototype.join -/

/-- strings.SplitN(s, sep, -1) for a non-empty separator, modelled by its specification -/
def splitRelB (sep : List UInt8) : Nat → List UInt8 → List (List UInt8)
  | 0, rest => [rest]
  | fuel + 1, rest =>
    match indexFromB sep rest 0 with
    | none => [rest]
    | some idx => rest.take idx :: splitRelB sep fuel (rest.drop (idx + sep.length))

/-- the `for ; limit > 0; limit--` loop of stringproto_split for a UTF-16 subject (builtin_string.go:885-911).
`idx` = position of the next separator in `su`, or len(su) when there is none.  The chunk `su[:idx]` is stored as
ASCII unless it has a unit >= 0x80 (= uniSubstring).  (fuel 0 is unreachable with the fuel used below.) -/
def splitLoopM (ss : List UInt16) : Nat → List UInt16 → Nat → List Str
  | 0, su, _ => [uniSubstring su 0 su.length]
  | fuel + 1, su, idx =>
    if idx = su.length then [uniSubstring su 0 idx]
    else
      let su' := su.drop (idx + ss.length)
      uniSubstring su 0 idx :: splitLoopM ss fuel su' ((Spec.indexFrom ss su' 0).getD su'.length)

/-- String.prototype.split(separator) (builtin_string.go:830), separator a string, no limit -/
def splitM (s sep : Str) : List Str :=
  match devirt s, devirt sep with
  | .a sa, .a sepa =>
    -- both ASCII: strings.SplitN; "" splits into bytes
    (if sepa.isEmpty then sa.map (fun c => [c]) else splitRelB sepa (sa.length + 1) sa).map .ascii
  | .a _, .u _ => [touch s]                      -- a Unicode separator never matches an ASCII string
  | .u su, dsep =>
    let ss := dsep.units
    if ss.isEmpty then su.map (fun c => if nonAsciiU c then .uni [c] else .ascii [u2b c])
    else match Spec.indexFrom ss su 0 with
      | none => [touch s]                         -- shortcut: the subject itself
      | some idx => splitLoopM ss (su.length + 1) su idx

/-- Array.prototype.join over string elements (builtin_array.go:189) -/
def joinM (ps : List Str) (sep : Str) : Str :=
  match ps with
  | [] => emptyStr
  | p :: rest => ((rest.foldl (fun b q => (b.writeString sep).writeString q) (SB.empty.writeString p))).toStr

end GojaModel.C06.Builtins
