/-
  C06 — property theorems (every `theorem` here is one audited proof obligation).

  Spec: a string's identity is `units : Str → List UInt16`.  Mechanism: the functions of Model.lean that
  transcribe goja's three representations.  The theorems say
    * every constructor / operation returns a value in normal form `NF` (given NF operands) and refines the
      corresponding operation on unit lists (append, slice, identity);
    * under NF, StrictEquals/SameAs as coded, the hash preimage and the property-key encoding identify
      exactly the strings with equal units; CompareTo is the lexicographic order of units;
    * code units are never rewritten (lone surrogates survive).
  Nothing is `_partial`: the model transcribes the code after the fixes 58560e3, ef621e6, 3293be7 and 7f47297.
  The mechanisms those fixes replaced survive only as regression lemmas (`…_prefix_witness`,
  `writeSubstring_unconditional_flag_breaks_nf`, `imported_invalid_spellings_equal`).
-/
import GojaModel.C06.Lemmas
import GojaModel.C06.Utf8
import GojaModel.C06.Spec
import GojaModel.C06.Builtins
namespace GojaModel.C06

/-! ## constructors -/

theorem nf_newStringValue (s : List UInt8) : NF (newStringValue s) := by
  rcases scan_cases s with ⟨h, hs⟩ | ⟨h, hs⟩
  · simp [newStringValue, hs, NF, h]
  · simp [newStringValue, hs, NF, decode_nonascii h]

/-- import_units: a Go string is imported with Go's lenient decoding (invalid byte ↦ U+FFFD) -/
theorem units_newStringValue (s : List UInt8) : units (newStringValue s) = utf16 (decode s) := by
  rcases scan_cases s with ⟨h, hs⟩ | ⟨h, hs⟩
  · simp [newStringValue, hs, units, utf16_decode_ascii h]
  · simp [newStringValue, hs, units]

theorem nf_stringFromUTF16 (c : List UInt16) : NF (stringFromUTF16 c) := by
  unfold stringFromUTF16
  split
  · rename_i h
    exact all_asciiB_u2b h
  · rename_i h
    simp only [NF, any_nonAscii_eq_not_all]
    simpa using h

/-- StringFromUTF16 keeps every code unit as it is (no validation: lone surrogates survive) -/
theorem units_stringFromUTF16 (c : List UInt16) : units (stringFromUTF16 c) = c := by
  unfold stringFromUTF16
  split
  · rename_i h
    simp [units, map_b2u_u2b h]
  · rfl

theorem nf_toValue (s : List UInt8) : NF (toValue s) := by
  unfold toValue
  split
  · rcases scan_cases s with ⟨h, hs⟩ | ⟨h, hs⟩ <;> simp [hs, NF, h]
  · trivial

/-- import_units for Runtime.ToValue: the same units whether scanned eagerly (≤ 16 bytes) or lazily -/
theorem units_toValue (s : List UInt8) : units (toValue s) = utf16 (decode s) := by
  unfold toValue
  split
  · rcases scan_cases s with ⟨h, hs⟩ | ⟨h, hs⟩
    · simp [hs, units, utf16_decode_ascii h]
    · simp [hs, units]
  · rfl

/-- ToValue and newStringValue of the same Go string denote the same JS string -/
theorem toValue_units_eq_newStringValue (s : List UInt8) : units (toValue s) = units (newStringValue s) := by
  rw [units_toValue, units_newStringValue]

/-! ## Concat -/

theorem asciiConcat_units (s : List UInt8) (y : Str) : units (asciiConcat s y) = s.map b2u ++ units y := by
  rw [← devirt_units y]
  unfold asciiConcat
  cases devirt y <;> simp [units, DV.units]

theorem uniConcat_units (s : List UInt16) (y : Str) : units (uniConcat s y) = s ++ units y := by
  rw [← devirt_units y]
  unfold uniConcat
  cases devirt y <;> simp [units, DV.units]

theorem utf16_append (a b : List Nat) : utf16 (a ++ b) = utf16 a ++ utf16 b := by
  simp [utf16]

/-- Go's lenient decoding splits at a junction whose right side is empty or starts with a rune-start byte -/
theorem decode_append_of_junctionSafe (s t : List UInt8) (ht : junctionSafe t = true) :
    decode (s ++ t) = decode s ++ decode t :=
  decodeS_append ht s 0 (Nat.zero_le _)

/-- concat refines list append, for ALL 3×3 representation pairs, unconditionally — including the
unscanned+unscanned shortcut, which joins the Go BYTES only when the junction is safe (3293be7). -/
theorem concat_units (x y : Str) : units (concat x y) = units x ++ units y := by
  unfold concat
  split
  · next s t =>
    split
    · rename_i hj
      simp [units, decode_append_of_junctionSafe s t hj, utf16_append]
    · rw [← devirt_units (.imp s false)]
      cases devirt (.imp s false) <;> simp [dvConcat, asciiConcat_units, uniConcat_units, DV.units]
  · rw [← devirt_units x]
    cases devirt x <;> simp [dvConcat, asciiConcat_units, uniConcat_units, DV.units]

/-- Regression lemma about the OLD mechanism (before 3293be7, no junction guard): two imported strings, each
longer than 16 bytes and not yet scanned, whose junction splits a UTF-8 sequence (… C3 | A9 …) were fused:
41 units instead of 21 + 21. -/
theorem concat_shortcut_prefix_witness :
    ¬ ∀ x y : Str, units (concatOld x y) = units x ++ units y := by
  intro h
  have := h (toValue (List.replicate 20 0x61 ++ [0xC3])) (toValue (0xA9 :: List.replicate 20 0x62))
  have := congrArg List.length this
  revert this
  decide

/-- the same input through the current mechanism: the guard refuses the shortcut and the units are appended -/
theorem concat_guard_on_prefix_witness_input :
    (units (concat (toValue (List.replicate 20 0x61 ++ [0xC3])) (toValue (0xA9 :: List.replicate 20 0x62)))).length = 42 := by
  decide

theorem asciiConcat_nf {s : List UInt8} {y : Str} (hs : s.all asciiB = true) (hy : NF y) :
    NF (asciiConcat s y) := by
  have h := devirt_nf hy
  unfold asciiConcat
  cases hd : devirt y with
  | a a => rw [hd] at h; simp only [NF, DV.NF] at h ⊢; simp [hs, h]
  | u u => rw [hd] at h; simp only [NF, DV.NF] at h ⊢; simp [h]

theorem uniConcat_nf {s : List UInt16} (y : Str) (hs : s.any nonAsciiU = true) : NF (uniConcat s y) := by
  unfold uniConcat
  cases devirt y <;> simp [NF, hs]

/-- nf_preserved: Concat -/
theorem nf_concat {x y : Str} (hx : NF x) (hy : NF y) : NF (concat x y) := by
  unfold concat
  split
  · next s t =>
    split
    · trivial
    · have h := devirt_nf hx
      cases hd : devirt (.imp s false) with
      | a a => rw [hd] at h; exact asciiConcat_nf h hy
      | u u => rw [hd] at h; exact uniConcat_nf _ h
  · have h := devirt_nf hx
    cases hd : devirt x with
    | a a => rw [hd] at h; exact asciiConcat_nf h hy
    | u u => rw [hd] at h; exact uniConcat_nf y h

/-! ## Substring -/

theorem substring_units (x : Str) (st en : Nat) : units (substring x st en) = slice (units x) st en := by
  rw [← devirt_units x]
  unfold substring
  cases devirt x with
  | a b => simp [units, DV.units, slice_map]
  | u u =>
    simp only [DV.units, uniSubstring]
    split
    · rfl
    · rename_i h
      have : (slice u st en).all asciiU = true := by
        rw [any_nonAscii_eq_not_all] at h
        simpa using h
      simp [units, map_b2u_u2b this]

/-- nf_preserved: Substring (downgrades to ASCII storage when the slice has no unit >= 0x80) -/
theorem nf_substring {x : Str} (hx : NF x) (st en : Nat) : NF (substring x st en) := by
  have h := devirt_nf hx
  unfold substring
  cases hd : devirt x with
  | a b => rw [hd] at h; exact all_slice h st en
  | u u =>
    simp only [uniSubstring]
    split
    · rename_i h2; exact h2
    · rename_i h2
      have : (slice u st en).all asciiU = true := by
        rw [any_nonAscii_eq_not_all] at h2
        simpa using h2
      exact all_asciiB_u2b this

/-- lone_surrogate_preserved (and every other unit): a unit of the slice is a unit of the result -/
theorem substring_mem (x : Str) (st en : Nat) (c : UInt16) :
    c ∈ units (substring x st en) ↔ c ∈ slice (units x) st en := by
  rw [substring_units]

/-! ## CompareTo -/

theorem cmpBytes_eq : ∀ s t : List UInt8, cmpBytes s t = lexCmp (s.map b2u) (t.map b2u)
  | [], [] => rfl
  | [], _ :: _ => rfl
  | _ :: _, [] => rfl
  | a :: as, b :: bs => by simp [cmpBytes, lexCmp, cmpBytes_eq as bs]

theorem cmpUA_eq : ∀ (u : List UInt16) (s : List UInt8), cmpUA u s = lexCmp u (s.map b2u)
  | [], [] => rfl
  | [], _ :: _ => rfl
  | _ :: _, [] => rfl
  | a :: as, b :: bs => by simp [cmpUA, lexCmp, cmpUA_eq as bs]

theorem lexCmp_neg : ∀ u v : List UInt16, - lexCmp u v = lexCmp v u
  | [], [] => rfl
  | [], _ :: _ => rfl
  | _ :: _, [] => rfl
  | a :: as, b :: bs => by
    simp only [lexCmp]
    by_cases h1 : a.toNat < b.toNat
    · have : ¬ b.toNat < a.toNat := by omega
      simp [h1, this]
    · by_cases h2 : b.toNat < a.toNat
      · simp [h1, h2]
      · simp [h1, h2, lexCmp_neg as bs]

/-- compare_is_lex_units: CompareTo, for every representation pair, is slices.Compare on the units -/
theorem compareTo_lex (x y : Str) : compareTo x y = lexCmp (units x) (units y) := by
  rw [← devirt_units x, ← devirt_units y]
  unfold compareTo
  cases devirt x <;> cases devirt y <;> simp [DV.units, cmpBytes_eq, cmpUA_eq, lexCmp_neg]

/-- the order is consistent with identity: compare = 0 exactly for equal units -/
theorem lexCmp_eq_zero_iff : ∀ u v : List UInt16, lexCmp u v = 0 ↔ u = v
  | [], [] => by simp [lexCmp]
  | [], _ :: _ => by simp [lexCmp]
  | _ :: _, [] => by simp [lexCmp]
  | a :: as, b :: bs => by
    simp only [lexCmp, List.cons.injEq]
    by_cases h1 : a.toNat < b.toNat
    · have : a ≠ b := fun e => by rw [e] at h1; omega
      simp [h1, this]
    · by_cases h2 : b.toNat < a.toNat
      · have : a ≠ b := fun e => by rw [e] at h2; omega
        simp [h1, h2, this]
      · have : a = b := UInt16.toNat_inj.mp (by omega)
        simp [h1, h2, this, lexCmp_eq_zero_iff as bs]

theorem compareTo_antisymm (x y : Str) : compareTo y x = - compareTo x y := by
  rw [compareTo_lex, compareTo_lex, lexCmp_neg]

/-! ## StrictEquals / SameAs -/

theorem sameAs_eq_strictEq (a b : Str) : sameAs a b = strictEq a b := rfl

/-- soundness, all nine pairs, unconditional: strings that `===` calls equal have equal units -/
theorem strictEq_sound {a b : Str} (ha : NF a) (hb : NF b) (h : strictEq a b = true) : units a = units b := by
  cases a with
  | ascii s =>
    cases b with
    | ascii t => simp [strictEq] at h; simp [h]
    | uni t => simp [strictEq] at h
    | imp t sc =>
      simp only [strictEq] at h
      have : s = t := by simpa using h
      subst this
      simp [units, utf16_decode_ascii ha]
  | uni s =>
    cases b with
    | ascii t => simp [strictEq] at h
    | uni t => simp [strictEq] at h; simp [h]
    | imp t sc =>
      simp only [strictEq] at h
      rcases scan_cases t with ⟨ht, hs⟩ | ⟨ht, hs⟩
      · simp [hs] at h
      · simp [hs] at h
        simp [units, h]
  | imp s sc =>
    cases b with
    | ascii t =>
      simp only [strictEq] at h
      have : s = t := by simpa using h
      subst this
      simp [units, utf16_decode_ascii hb]
    | uni t =>
      simp only [strictEq] at h
      rcases scan_cases s with ⟨ht, hs⟩ | ⟨ht, hs⟩
      · simp [hs] at h
      · simp [hs] at h
        simp [units, h]
    | imp t tc =>
      simp only [strictEq] at h
      split at h
      · rename_i he
        have : s = t := by simpa using he
        simp [units, this]
      · split at h
        · cases h
        · rcases scan_cases s with ⟨hs1, hs⟩ | ⟨hs1, hs⟩ <;> rcases scan_cases t with ⟨ht1, ht⟩ | ⟨ht1, ht⟩ <;>
            simp [hs, ht] at h
          simp [units, h]

/-- completeness for imported/imported; the `utf8.ValidString(a) && utf8.ValidString(b) → false` shortcut
(string_imported.go:140) is justified by `valid_decode_injective` (Utf8.lean). -/
theorem strictEq_complete_imported (s t : List UInt8) (sc tc : Bool)
    (h : units (.imp s sc) = units (.imp t tc)) : strictEq (.imp s sc) (.imp t tc) = true := by
  simp only [units] at h
  simp only [strictEq]
  split
  · rfl
  · rename_i hne
    have hne' : s ≠ t := by simpa using hne
    split
    · rename_i hv
      simp only [Bool.and_eq_true] at hv
      exact absurd (valid_decode_injective s t hv.1 hv.2 h) hne'
    · rcases scan_cases s with ⟨hs1, hs⟩ | ⟨hs1, hs⟩ <;> rcases scan_cases t with ⟨ht1, ht⟩ | ⟨ht1, ht⟩
      · rw [utf16_decode_ascii hs1, utf16_decode_ascii ht1] at h
        exact absurd (map_b2u_inj h) hne'
      · rw [utf16_decode_ascii hs1] at h
        exact absurd h (ascii_ne_nonascii hs1 (decode_nonascii ht1))
      · rw [utf16_decode_ascii ht1] at h
        exact absurd h.symm (ascii_ne_nonascii ht1 (decode_nonascii hs1))
      · simp [hs, ht, h]

/-- completeness, all nine pairs, unconditional: NF strings with equal units are `===` -/
theorem strictEq_complete {a b : Str} (ha : NF a) (hb : NF b) (h : units a = units b) : strictEq a b = true := by
  cases a with
  | ascii s =>
    cases b with
    | ascii t => simp [strictEq, map_b2u_inj h]
    | uni t => exact absurd h (ascii_ne_nonascii ha hb)
    | imp t sc =>
      simp only [units] at h
      rcases scan_cases t with ⟨ht, hs⟩ | ⟨ht, hs⟩
      · rw [utf16_decode_ascii ht] at h
        simp [strictEq, map_b2u_inj h]
      · exact absurd h (ascii_ne_nonascii ha (decode_nonascii ht))
  | uni s =>
    cases b with
    | ascii t => exact absurd h.symm (ascii_ne_nonascii hb ha)
    | uni t => simp [units] at h; simp [strictEq, h]
    | imp t sc =>
      simp only [units] at h
      rcases scan_cases t with ⟨ht, hs⟩ | ⟨ht, hs⟩
      · rw [utf16_decode_ascii ht] at h
        exact absurd h.symm (ascii_ne_nonascii ht ha)
      · simp [strictEq, hs, h]
  | imp s sc =>
    cases b with
    | ascii t =>
      simp only [units] at h
      rcases scan_cases s with ⟨ht, hs⟩ | ⟨ht, hs⟩
      · rw [utf16_decode_ascii ht] at h
        simp [strictEq, map_b2u_inj h]
      · exact absurd h.symm (ascii_ne_nonascii hb (decode_nonascii ht))
    | uni t =>
      simp only [units] at h
      rcases scan_cases s with ⟨ht, hs⟩ | ⟨ht, hs⟩
      · rw [utf16_decode_ascii ht] at h
        exact absurd h (ascii_ne_nonascii ht hb)
      · simp [strictEq, hs, h]
    | imp t tc => exact strictEq_complete_imported s t sc tc h

/-- import: Go's decoder is injective on valid UTF-8 (proved in Utf8.lean by re-encoding) -/
theorem import_injective_on_valid_utf8 (s t : List UInt8) (hs : validUtf8 s = true) (ht : validUtf8 t = true)
    (h : units (.imp s false) = units (.imp t false)) : s = t :=
  valid_decode_injective s t hs ht h

/-- eq_iff_units: under NF, `===` / SameValue as coded ⇔ equal units — all nine pairs, no hypothesis -/
theorem eq_iff_units {a b : Str} (ha : NF a) (hb : NF b) : strictEq a b = true ↔ units a = units b :=
  ⟨strictEq_sound ha hb, strictEq_complete ha hb⟩

/-- StrictEquals is transitive on NF strings (corollary of eq_iff_units) -/
theorem strictEq_trans {a b c : Str} (ha : NF a) (hb : NF b) (hc : NF c)
    (h1 : strictEq a b = true) (h2 : strictEq b c = true) : strictEq a c = true :=
  (eq_iff_units ha hc).mpr (((eq_iff_units ha hb).mp h1).trans ((eq_iff_units hb hc).mp h2))

/-- the regression repaired by ef621e6: comparing imported strings by their Go bytes is not enough —
"\xff" and "\xfe" are different bytes with the same units, and the code as it is now answers `true`. -/
theorem imported_invalid_spellings_equal :
    units (.imp [0xff] false) = units (.imp [0xfe] false) ∧ strictEq (.imp [0xff] false) (.imp [0xfe] false) = true := by
  decide

/-- StrictEquals is symmetric for all nine pairs (no NF needed) -/
theorem strictEq_symm (a b : Str) : strictEq a b = strictEq b a := by
  have e8 : ∀ x y : List UInt8, (x == y) = (y == x) := fun x y => by
    by_cases h : x = y
    · subst h; rfl
    · have h' : y ≠ x := fun e => h e.symm
      rw [beq_eq_false_iff_ne.mpr h, beq_eq_false_iff_ne.mpr h']
  have e16 : ∀ x y : List UInt16, (x == y) = (y == x) := fun x y => by
    by_cases h : x = y
    · subst h; rfl
    · have h' : y ≠ x := fun e => h e.symm
      rw [beq_eq_false_iff_ne.mpr h, beq_eq_false_iff_ne.mpr h']
  cases a <;> cases b <;> simp only [strictEq]
  · exact e8 _ _
  · exact e8 _ _
  · exact e16 _ _
  · rename_i s t sc
    cases scan t <;> simp [e16]
  · exact e8 _ _
  · rename_i s sc t
    cases scan s <;> simp [e16]
  · rename_i s sc t tc
    rw [e8 s t, Bool.and_comm]
    cases scan s <;> cases scan t <;> simp [e16]

/-! ## hash preimage and property-key encoding -/

theorem le16_cons (c : UInt16) (cs : List UInt16) :
    le16 (c :: cs) = UInt8.ofNat (c.toNat % 256) :: UInt8.ofNat (c.toNat / 256) :: le16 cs := by
  simp [le16]

theorem de16_le16 : ∀ u : List UInt16, de16 (le16 u) = u
  | [] => rfl
  | c :: cs => by
    rw [le16_cons, de16, de16_le16 cs]
    congr 1
    apply UInt16.toNat_inj.mp
    have := c.toNat_lt
    simp
    omega

theorem le16_inj {u v : List UInt16} (h : le16 u = le16 v) : u = v := by
  rw [← de16_le16 u, ← de16_le16 v, h]

theorem le16_length (u : List UInt16) : (le16 u).length = 2 * u.length := by
  induction u with
  | nil => rfl
  | cons c cs ih => rw [le16_cons]; simp [ih]; omega

theorem ascii_ne_bom {b : List UInt8} (hb : b.all asciiB = true) (u : List UInt16) : b ≠ le16 (BOM :: u) := by
  intro h
  rw [le16_cons] at h
  subst h
  simp [asciiB, BOM] at hb

/-- hashpre_iff_units: two NF strings write the same bytes into the hasher iff their units are equal -/
theorem hashpre_iff_units {a b : Str} (ha : NF a) (hb : NF b) : hashPre a = hashPre b ↔ units a = units b := by
  have h1 := devirt_nf ha
  have h2 := devirt_nf hb
  rw [← devirt_units a, ← devirt_units b]
  unfold hashPre keyOf
  cases hda : devirt a with
  | a s =>
    rw [hda] at h1
    cases hdb : devirt b with
    | a t => simp only [DV.units]; exact ⟨fun h => by rw [h], map_b2u_inj⟩
    | u v =>
      rw [hdb] at h2
      simp only [DV.units]
      exact ⟨fun h => absurd h (ascii_ne_bom h1 v), fun h => absurd h (ascii_ne_nonascii h1 h2)⟩
  | u u =>
    rw [hda] at h1
    cases hdb : devirt b with
    | a t =>
      rw [hdb] at h2
      simp only [DV.units]
      exact ⟨fun h => absurd h.symm (ascii_ne_bom h2 u), fun h => absurd h.symm (ascii_ne_nonascii h2 h1)⟩
    | u v =>
      simp only [DV.units]
      constructor
      · intro h
        have := le16_inj h
        simpa using this
      · intro h; rw [h]

/-- key_injective: the unistring property key distinguishes exactly the strings with different units -/
theorem key_injective {a b : Str} (ha : NF a) (hb : NF b) : keyOf a = keyOf b ↔ units a = units b :=
  hashpre_iff_units ha hb

/-- Map/Set lookup (hash, then SameAs) and `===` agree: equal hash preimage ⇔ StrictEquals -/
theorem hash_agrees_with_strictEq {a b : Str} (ha : NF a) (hb : NF b) :
    hashPre a = hashPre b ↔ strictEq a b = true := by
  rw [hashpre_iff_units ha hb, eq_iff_units ha hb]

theorem asUtf16_le16 {u : List UInt16} (hne : u ≠ []) : asUtf16 (le16 (BOM :: u)) = some u := by
  cases u with
  | nil => exact absurd rfl hne
  | cons c cs =>
    unfold asUtf16
    have hl : (le16 (BOM :: c :: cs)).length = 2 * (cs.length + 2) := by rw [le16_length]; simp
    rw [de16_le16]
    have h1 : ¬ (2 * (cs.length + 2) < 4) := by omega
    have h2 : 2 * (cs.length + 2) % 2 = 0 := by omega
    simp [hl, h1, h2]

theorem asUtf16_ascii {b : List UInt8} (hb : b.all asciiB = true) : asUtf16 b = none := by
  unfold asUtf16
  split
  · rfl
  · match b, hb with
    | [], _ => rfl
    | [_], _ => rfl
    | lo :: hi :: rest, hb =>
      simp only [de16]
      have hlo : lo.toNat < 128 := by
        simp only [List.all_cons, Bool.and_eq_true] at hb
        simpa [asciiB] using hb.1
      have hhi := hi.toNat_lt
      have : (UInt16.ofNat (lo.toNat + 256 * hi.toNat) == BOM) = false := by
        rw [beq_eq_false_iff_ne]
        intro h
        have := congrArg UInt16.toNat h
        simp [BOM] at this
        omega
      simp only [this, Bool.false_eq_true, if_false]

/-- key_roundtrip: string → unistring key → stringValueFromRaw gives back the same units, in normal form -/
theorem key_roundtrip {x : Str} (hx : NF x) :
    units (stringValueFromRaw (keyOf x)) = units x ∧ NF (stringValueFromRaw (keyOf x)) := by
  have h := devirt_nf hx
  rw [← devirt_units x]
  unfold keyOf stringValueFromRaw
  cases hd : devirt x with
  | a s =>
    rw [hd] at h
    simp only [asUtf16_ascii h, DV.units, units]
    exact ⟨trivial, h⟩
  | u u =>
    rw [hd] at h
    have hne : u ≠ [] := by
      intro e; subst e; simp [DV.NF] at h
    simp only [asUtf16_le16 hne, DV.units, units]
    exact ⟨trivial, h⟩

/-- AsUtf16 (FromUtf16 u) = u for every UTF-16 payload with at least one unit -/
theorem key_roundtrip_utf16 {u : List UInt16} (hne : u ≠ []) : asUtf16 (le16 (BOM :: u)) = some u :=
  asUtf16_le16 hne

/-! ## StringBuilder / unicodeStringBuilder -/

theorem sb_inv_empty : SB.empty.Inv := by simp [SB.Inv, SB.empty]

theorem sb_switch {b : SB} (h : b.Inv) :
    b.switchToUnicode.Inv ∧ b.switchToUnicode.started = true ∧ b.switchToUnicode.units = b.units := by
  obtain ⟨h1, h2, h3, h4⟩ := h
  unfold SB.switchToUnicode
  by_cases hst : b.started = true
  · rw [if_pos hst]
    exact ⟨⟨h1, h2, h3, h4⟩, hst, rfl⟩
  · rw [if_neg hst]
    have hst' : b.started = false := by simpa using hst
    obtain ⟨h5, h6⟩ := h2 hst'
    simp [SB.Inv, SB.units, h5, h6, h1]
    exact nonAscii_b2u_of_all h1

/-- builder_units / builder_nf: WriteString appends the operand's units and keeps the invariant -/
theorem sb_writeString {b : SB} {s : Str} (h : b.Inv) (hs : NF s) :
    (b.writeString s).Inv ∧ (b.writeString s).units = b.units ++ units s := by
  have hd := devirt_nf hs
  obtain ⟨⟨k1, k2, k3, k4⟩, kst, ku⟩ := sb_switch h
  obtain ⟨h1, h2, h3, h4⟩ := h
  rw [← devirt_units s]
  unfold SB.writeString
  cases hdv : devirt s with
  | a a =>
    rw [hdv] at hd
    simp only [DV.NF] at hd
    cases hst : b.started
    · obtain ⟨h5, h6⟩ := h2 hst
      simp [SB.Inv, SB.units, DV.units, hst, h5, h6, h1, hd]
    · simp [SB.Inv, SB.units, DV.units, hst, h1, h3 hst, h4, any_nonAscii_map_b2u, hd]
      intro x hx hn
      rw [nonAscii_b2u_of_all hd x hx] at hn
      cases hn
  | u u =>
    rw [hdv] at hd
    simp only [DV.NF] at hd
    simp only [SB.units] at ku
    simp [SB.Inv, SB.units, DV.units, k1, kst, k3 kst, hd, ← ku]

theorem nonAsciiU_ofNat {r : Nat} (h : r ≤ 0xFFFF) : nonAsciiU (UInt16.ofNat r) = decide (0x80 ≤ r) := by
  have : r % 65536 = r := by omega
  simp [nonAsciiU, asciiU, this]
  by_cases h2 : r < 128 <;> simp [h2] <;> omega

theorem sb_writeRuneFast {b : SB} {r : Nat} (h : b.Inv) (hst : b.started = true) (hr : r ≤ 0x10FFFF) :
    (b.writeRuneFast r).Inv ∧ (b.writeRuneFast r).started = true ∧
      (b.writeRuneFast r).units = b.units ++ utf16One r := by
  obtain ⟨h1, h2, h3, h4⟩ := h
  unfold SB.writeRuneFast
  split
  · rename_i hle
    simp [SB.Inv, SB.units, hst, h1, h3 hst, h4, utf16One, hle, nonAsciiU_ofNat hle]
  · rename_i hgt
    have hna : (utf16One r).any nonAsciiU = true := by
      have := utf16One_head_nonascii (r := r) (by omega) hr []
      simpa using this
    simp [SB.Inv, SB.units, hst, h1, h3 hst, hna]

/-- WriteRune appends the UTF-16 encoding of the rune; a surrogate code point is appended AS IS -/
theorem sb_writeRune {b : SB} {r : Nat} (h : b.Inv) (hr : r ≤ 0x10FFFF) :
    (b.writeRune r).Inv ∧ (b.writeRune r).units = b.units ++ utf16One r := by
  unfold SB.writeRune
  split
  · rename_i hlt
    cases hst : b.started
    · obtain ⟨h1, h2, h3, h4⟩ := h
      obtain ⟨h5, h6⟩ := h2 hst
      have e1 : asciiB (UInt8.ofNat r) = true := by
        have : r % 256 = r := by omega
        simp [asciiB, this]; omega
      have e2 : b2u (UInt8.ofNat r) = UInt16.ofNat r := by
        apply UInt16.toNat_inj.mp
        simp; omega
      have e3 : utf16One r = [UInt16.ofNat r] := by simp [utf16One]; omega
      simp [SB.Inv, SB.units, hst, h1, h5, h6, e1, e2, e3]
    · simp only [if_true]
      have := sb_writeRuneFast h hst hr
      exact ⟨this.1, this.2.2⟩
  · obtain ⟨k, kst, ku⟩ := sb_switch h
    have := sb_writeRuneFast k kst hr
    exact ⟨this.1, by rw [this.2.2, ku]⟩

/-- lone_surrogate_preserved (builder): writing the code point of a surrogate appends exactly that unit -/
theorem sb_writeRune_surrogate {b : SB} {r : Nat} (h : b.Inv) (hr : 0xD800 ≤ r ∧ r ≤ 0xDFFF) :
    (b.writeRune r).units = b.units ++ [UInt16.ofNat r] := by
  have := (sb_writeRune h (r := r) (by omega)).2
  rw [this]
  simp [utf16One]
  omega

theorem decodeS_le : ∀ (s : List UInt8) (k : Nat), ∀ r ∈ decodeS k s, r ≤ 0x10FFFF
  | [], _, r, hr => by simp [decodeS] at hr
  | b :: bs, k + 1, r, hr => by
    simp only [decodeS] at hr
    exact decodeS_le bs k r hr
  | b :: bs, 0, r, hr => by
    simp only [decodeS, List.mem_cons] at hr
    rcases hr with rfl | hr
    · by_cases hb : b.toNat < 128
      · have : asciiB b = true := by simp [asciiB, hb]
        rw [decodeRune_ascii bs this]
        simp only
        omega
      · exact (decodeRune_bounds b bs hb).2
    · exact decodeS_le bs _ r hr

theorem sb_foldl_writeRuneFast : ∀ (rs : List Nat) {b : SB}, b.Inv → b.started = true → (∀ r ∈ rs, r ≤ 0x10FFFF) →
    (rs.foldl SB.writeRuneFast b).Inv ∧ (rs.foldl SB.writeRuneFast b).units = b.units ++ utf16 rs
  | [], b, h, _, _ => by simp [utf16, h]
  | r :: rs, b, h, hst, hr => by
    have h1 := sb_writeRuneFast h hst (hr r (by simp))
    have h2 := sb_foldl_writeRuneFast rs h1.1 h1.2.1 (fun x hx => hr x (by simp [hx]))
    simp only [List.foldl_cons]
    exact ⟨h2.1, by rw [h2.2, h1.2.2, utf16_cons]; simp⟩

theorem utf16_decode_takeWhile : ∀ s : List UInt8,
    utf16 (decode s) = (s.takeWhile asciiB).map b2u ++ utf16 (decode (s.dropWhile asciiB))
  | [] => rfl
  | b :: bs => by
    by_cases hb : asciiB b = true
    · have ih := utf16_decode_takeWhile bs
      simp only [decode] at ih ⊢
      simp only [List.takeWhile_cons, List.dropWhile_cons, hb, if_true, decodeS, decodeRune_ascii bs hb, utf16_cons,
        utf16One_ascii b hb, List.map_cons]
      simpa using ih
    · simp [List.takeWhile_cons, List.dropWhile_cons, hb]

/-- WriteUTF8String appends the leniently decoded units of the Go string -/
theorem sb_writeUTF8 {b : SB} (h : b.Inv) (s : List UInt8) :
    (b.writeUTF8 s).Inv ∧ (b.writeUTF8 s).units = b.units ++ utf16 (decode s) := by
  unfold SB.writeUTF8
  split
  · rename_i hst
    exact sb_foldl_writeRuneFast _ h hst (decodeS_le s 0)
  · rename_i hst
    have hst' : b.started = false := by simpa using hst
    split
    · rename_i hall
      obtain ⟨h1, h2, h3, h4⟩ := h
      obtain ⟨h5, h6⟩ := h2 hst'
      simp [SB.Inv, SB.units, hst', h1, h5, h6, hall, utf16_decode_ascii hall]
    · obtain ⟨⟨k1, k2, k3, k4⟩, kst, ku⟩ := sb_switch h
      have hpre : ((s.takeWhile asciiB).map b2u).any nonAsciiU = false := by
        rw [any_nonAscii_map_b2u]
        simp [all_takeWhile asciiB s]
      have hinv : SB.Inv { b.switchToUnicode with ubuf := b.switchToUnicode.ubuf ++ (s.takeWhile asciiB).map b2u } := by
        simp [SB.Inv, k1, kst, k3 kst, k4, hpre]
      have := sb_foldl_writeRuneFast (decode (s.dropWhile asciiB)) hinv kst (decodeS_le _ 0)
      refine ⟨this.1, ?_⟩
      rw [this.2, utf16_decode_takeWhile s]
      simp only [SB.units] at ku ⊢
      rw [← List.append_assoc, ← List.append_assoc, ← ku]

/-- WriteSubstring (as repaired by 58560e3) appends the slice's units; the `unicode` flag follows the slice -/
theorem sb_writeSubstring {b : SB} {src : Str} (h : b.Inv) (hs : NF src) (st en : Nat) :
    (b.writeSubstring src st en).Inv ∧ (b.writeSubstring src st en).units = b.units ++ slice (units src) st en := by
  have hd := devirt_nf hs
  obtain ⟨⟨k1, k2, k3, k4⟩, kst, ku⟩ := sb_switch h
  obtain ⟨h1, h2, h3, h4⟩ := h
  rw [← devirt_units src]
  unfold SB.writeSubstring
  cases hdv : devirt src with
  | a a =>
    rw [hdv] at hd
    simp only [DV.NF] at hd
    have hsl := all_slice hd st en
    cases hst : b.started
    · obtain ⟨h5, h6⟩ := h2 hst
      simp [SB.Inv, SB.units, DV.units, hst, h5, h6, h1, hsl, slice_map]
    · simp [SB.Inv, SB.units, DV.units, hst, h1, h3 hst, h4, any_nonAscii_map_b2u, hsl, slice_map]
      intro x hx hn
      rw [nonAscii_b2u_of_all hsl x hx] at hn
      cases hn
  | u us =>
    simp only [DV.units]
    cases hst : b.started
    · obtain ⟨h5, h6⟩ := h2 hst
      simp only [Bool.false_eq_true, if_false]
      split
      · rename_i hany
        simp only [SB.units] at ku
        simp [SB.Inv, SB.units, k1, kst, k3 kst, k4, hany, ← ku]
      · rename_i hany
        have hall : (slice us st en).all asciiU = true := by
          rw [any_nonAscii_eq_not_all] at hany
          simpa using hany
        simp [SB.Inv, SB.units, hst, h5, h6, h1, all_asciiB_u2b hall, map_b2u_u2b hall]
    · simp [SB.Inv, SB.units, hst, h1, h3 hst, h4]

/-- builder_nf: String() returns a normal-form value (downgrading to ASCII storage when the flag is off)
whose units are exactly what was written -/
theorem sb_toStr {b : SB} (h : b.Inv) : NF b.toStr ∧ units b.toStr = b.units := by
  obtain ⟨h1, h2, h3, h4⟩ := h
  unfold SB.toStr
  cases hst : b.started
  · obtain ⟨h5, h6⟩ := h2 hst
    simp [NF, units, SB.units, h1, h5]
  · simp only [if_true]
    cases hu : b.unicode
    · have hall : b.ubuf.all asciiU = true := by
        rw [hu, any_nonAscii_eq_not_all] at h4
        simpa using h4.symm
      simp [NF, units, SB.units, h3 hst, all_asciiB_u2b hall, map_b2u_u2b hall]
    · rw [hu] at h4
      simp [NF, units, SB.units, h3 hst, ← h4]

/-- the regression repaired by 58560e3: setting the flag unconditionally in UTF-16 mode yields a
UTF-16-stored "ab" — not in normal form, and `!==` the ASCII-stored "ab" although the units are equal. -/
theorem writeSubstring_unconditional_flag_breaks_nf :
    ¬ NF sbOldExample.toStr ∧ units sbOldExample.toStr = units (.ascii [0x61, 0x62]) ∧
      strictEq sbOldExample.toStr (.ascii [0x61, 0x62]) = false := by
  refine ⟨?_, by decide, by decide⟩
  have : sbOldExample.toStr = .uni [0x61, 0x62] := by decide
  rw [this]
  simp only [NF]
  decide

/-! ## unistring.Scan: the two-pass mechanism equals the one-pass specification -/

theorem fillUnits_eq_utf16 : ∀ rs : List Nat, fillUnits rs = utf16 rs
  | [] => rfl
  | r :: rs => by
    rw [utf16_cons, fillUnits, fillUnits_eq_utf16 rs]
    simp [utf16One, scanFillTest]

theorem countUnits_eq_length : ∀ rs : List Nat, countUnits rs = (utf16 rs).length
  | [] => rfl
  | r :: rs => by
    rw [utf16_cons, countUnits, countUnits_eq_length rs, List.length_append]
    by_cases h : r ≤ 0xFFFF
    · have : ¬ r > 0xFFFF := by omega
      simp [utf16One, scanCountTest, h, this]
    · have : r > 0xFFFF := by omega
      simp [utf16One, scanCountTest, h, this]

/-- the buffer allocated by pass 1 has exactly 1 (BOM) + #units elements: `scanSize` counts the units -/
theorem scanSize_eq_length (s : List UInt8) : scanSize s = (utf16 (decode s)).length := by
  rw [utf16_decode_takeWhile s, List.length_append, List.length_map, scanSize, countUnits_eq_length]

/-- scan_units: what the two passes of unistring.Scan return is the leniently decoded unit sequence, no more, no less -/
theorem scanTwoPass_eq_scan (s : List UInt8) : scanTwoPass s = scan s := by
  unfold scanTwoPass scan
  split
  · rfl
  · rw [fillUnits_eq_utf16, scanSize_eq_length]
    simp

/-- regression lemma for the seeded off-by-one (`chr >= 0xFFFF` in the counting pass): counting U+FFFF as two units
makes the buffer one longer than the units written, i.e. a trailing 0x0000 unit. -/
theorem scan_count_geq_prefix_witness :
    (if (0xFFFF : Nat) ≥ 0xFFFF then 2 else 1) + countUnits [] ≠ (utf16 [0xFFFF]).length := by
  decide

/-! ## concatStrings (template literals) -/

theorem concatStrings_units (l : List Str) : units (concatStrings l) = l.flatMap units := by
  simp only [concatStrings]
  have key : ∀ l : List Str, ((l.map devirt).flatMap DV.units) = l.flatMap units := by
    intro l
    induction l with
    | nil => rfl
    | cons x xs ih => simp [devirt_units, ih]
  have key2 : ∀ ds : List DV, ds.all DV.isA = true → (ds.flatMap DV.bytes).map b2u = ds.flatMap DV.units := by
    intro ds
    induction ds with
    | nil => intro _; rfl
    | cons d ds ih =>
      intro h
      simp only [List.all_cons, Bool.and_eq_true] at h
      cases d with
      | a bs => simp [DV.bytes, DV.units, ih h.2]
      | u us => simp [DV.isA] at h
  split
  · rename_i h
    simp only [units]
    rw [key2 _ h, key]
  · simp only [units]
    exact key l

theorem nf_concatStrings {l : List Str} (hl : ∀ x ∈ l, NF x) : NF (concatStrings l) := by
  simp only [concatStrings]
  have hdv : ∀ d ∈ l.map devirt, d.NF := by
    intro d hd
    obtain ⟨x, hx, rfl⟩ := List.mem_map.mp hd
    exact devirt_nf (hl x hx)
  generalize l.map devirt = ds at hdv
  split
  · rename_i h
    simp only [NF]
    rw [List.all_eq_true]
    intro c hc
    obtain ⟨d, hd, hcd⟩ := List.mem_flatMap.mp hc
    have hA := (List.all_eq_true.mp h) d hd
    have hN := hdv d hd
    cases d with
    | a bs => exact (List.all_eq_true.mp hN) c hcd
    | u us => simp [DV.isA] at hA
  · rename_i h
    simp only [NF]
    have : ∃ d ∈ ds, DV.isA d = false := by
      have h' : ds.all DV.isA = false := by simpa using h
      rw [List.all_eq_false] at h'
      obtain ⟨d, hd, hdA⟩ := h'
      exact ⟨d, hd, by simpa using hdA⟩
    obtain ⟨d, hd, hdA⟩ := this
    have hN := hdv d hd
    cases d with
    | a bs => simp [DV.isA] at hdA
    | u us =>
      simp only [DV.NF] at hN
      obtain ⟨c, hc, hcn⟩ := List.any_eq_true.mp hN
      exact List.any_eq_true.mpr ⟨c, List.mem_flatMap.mpr ⟨.u us, hd, hc⟩, hcn⟩

/-! ## lone surrogates: units are never rewritten -/

/-- a unit of either operand (a lone surrogate in particular) is a unit of the concatenation, and nothing else is -/
theorem concat_mem (x y : Str) (c : UInt16) : c ∈ units (concat x y) ↔ c ∈ units x ∨ c ∈ units y := by
  rw [concat_units x y, List.mem_append]

/-! ## lenientUtf16Decoder (string iteration, JSON.stringify quoting, regexp position maps) -/

/-- The decoder with its push-back yields exactly the spec's code-point segmentation, for every unit list, every
pending pushed-back unit and any sufficient fuel.  (A pushed-back unit is re-examined: `D800 D83D DE00` is the lone
D800 followed by ONE code point.) -/
theorem lenientF_eq_codePoints : ∀ (fuel : Nat) (prev : Option UInt16) (input : List UInt16),
    prev.toList.length + input.length < fuel →
    Spec.lenientF fuel prev input = Spec.codePoints (prev.toList ++ input)
  | 0, _, _, h => by omega
  | fuel + 1, none, [], _ => by simp [Spec.lenientF, Spec.codePoints]
  | fuel + 1, none, [c], _ => by
    by_cases hc : Spec.isHi c = true
    · simp [Spec.lenientF, Spec.codePoints, hc]
    · cases fuel <;> simp [Spec.lenientF, Spec.codePoints, hc]
  | fuel + 1, none, c :: d :: rest, h => by
    simp only [Option.toList, List.nil_append, List.length_nil, List.length_cons] at h
    by_cases hc : Spec.isHi c = true
    · by_cases hd : Spec.isLo d = true
      · have ih := lenientF_eq_codePoints fuel none rest (by simp; omega)
        simp only [Option.toList, List.nil_append] at ih
        simp [Spec.lenientF, Spec.codePoints, hc, hd, ih]
      · have ih := lenientF_eq_codePoints fuel (some d) rest (by simp; omega)
        simp only [Option.toList, List.singleton_append] at ih
        simp [Spec.lenientF, Spec.codePoints, hc, hd, ih]
    · have ih := lenientF_eq_codePoints fuel none (d :: rest) (by simp; omega)
      simp only [Option.toList, List.nil_append] at ih
      simp [Spec.lenientF, Spec.codePoints, hc, ih]
  | fuel + 1, some c, [], _ => by
    by_cases hc : Spec.isHi c = true
    · simp [Spec.lenientF, Spec.codePoints, hc]
    · cases fuel <;> simp [Spec.lenientF, Spec.codePoints, hc]
  | fuel + 1, some c, d :: rest, h => by
    simp only [Option.toList, List.singleton_append, List.length_cons, List.length_nil] at h
    by_cases hc : Spec.isHi c = true
    · by_cases hd : Spec.isLo d = true
      · have ih := lenientF_eq_codePoints fuel none rest (by simp; omega)
        simp only [Option.toList, List.nil_append] at ih
        simp [Spec.lenientF, Spec.codePoints, hc, hd, ih]
      · have ih := lenientF_eq_codePoints fuel (some d) rest (by simp; omega)
        simp only [Option.toList, List.singleton_append] at ih
        simp [Spec.lenientF, Spec.codePoints, hc, hd, ih]
    · have ih := lenientF_eq_codePoints fuel none (d :: rest) (by simp; omega)
      simp only [Option.toList, List.nil_append] at ih
      simp [Spec.lenientF, Spec.codePoints, hc, ih]

/-- string iteration / JSON.stringify / regexp see the spec's code points of any unit list -/
theorem lenientDecode_eq_codePoints (s : List UInt16) : Spec.lenientDecode s = Spec.codePoints s := by
  have := lenientF_eq_codePoints (s.length + 1) none s (by simp)
  simpa [Spec.lenientDecode] using this

/-- regression lemma for the seeded change C06-m4 (returning the pushed-back unit as it is): on `D800 D83D DE00` the
spec has two code points (the lone D800 and U+1F600) — the changed decoder produced three. -/
theorem lenient_pushback_reexamined_witness :
    Spec.lenientDecode [0xD800, 0xD83D, 0xDE00] = [0xD800, 0x1F600] := by
  decide

/-! ## String built-ins: the mechanism (Builtins.lean) refines the spec (Spec.lean) and preserves NF -/

section BuiltinsSection
open Builtins

theorem nf_emptyStr : NF emptyStr := by simp [emptyStr, NF]
theorem units_emptyStr : units emptyStr = [] := rfl

theorem relIdx_clampRel (l : Nat) (x : Int) : (clampRel x (l : Int)).toNat = Spec.relIdx l x := by
  unfold clampRel Spec.relIdx
  simp only [Int.ofNat_eq_natCast]
  split <;> split <;> omega

theorem clampRel_self (l : Nat) : (clampRel (l : Int) (l : Int)).toNat = l := by
  unfold clampRel; split <;> split <;> omega

theorem slice_empty_of_le {α : Type} (l : List α) {a b : Nat} (h : b ≤ a) : slice l a b = [] := by
  simp [slice, Nat.sub_eq_zero_of_le h]

/-- String.prototype.slice as coded = the spec's slice on units -/
theorem sliceM_units (s : Str) (i : Int) (j : Option Int) :
    units (sliceM s i j) = Spec.jsSlice (units s) i j := by
  unfold sliceM Spec.jsSlice
  simp only [len]
  have e1 := relIdx_clampRel (units s).length i
  cases j with
  | none =>
    simp only [Option.getD]
    have e2 := clampRel_self (units s).length
    by_cases h : clampRel ↑(units s).length ↑(units s).length > clampRel i ↑(units s).length
    · simp only [h, ↓reduceIte]
      rw [substring_units, e1, e2]
    · simp only [h, ↓reduceIte]
      rw [units_emptyStr, ← e1, slice_empty_of_le]
      omega
  | some j =>
    simp only [Option.getD]
    have e2 := relIdx_clampRel (units s).length j
    by_cases h : clampRel j ↑(units s).length > clampRel i ↑(units s).length
    · simp only [h, ↓reduceIte]
      rw [substring_units, e1, e2]
    · simp only [h, ↓reduceIte]
      rw [units_emptyStr, ← e1, ← e2, slice_empty_of_le]
      omega

theorem nf_sliceM {s : Str} (h : NF s) (i : Int) (j : Option Int) : NF (sliceM s i j) := by
  simp only [sliceM]
  split
  · exact nf_substring h _ _
  · exact nf_emptyStr

theorem clampIdx_clamp0 (l : Nat) (x : Int) : (clamp0 x (l : Int)).toNat = Spec.clampIdx l x := by
  unfold clamp0 Spec.clampIdx
  split
  · simp
  · split <;> omega

theorem clamp0_self (l : Nat) : (clamp0 (l : Int) (l : Int)).toNat = l := by
  unfold clamp0; split <;> (try split) <;> omega

theorem clamp0_le (x : Int) (l : Nat) : 0 ≤ clamp0 x (l : Int) := by
  unfold clamp0; split <;> (try split) <;> omega

theorem len_def (s : Str) : (units s).length = len s := rfl

/-- String.prototype.substring as coded = the spec's substring on units -/
theorem substringM_units (s : Str) (i : Int) (j : Option Int) :
    units (substringM s i j) = Spec.jsSubstring (units s) i j := by
  have e1 := clampIdx_clamp0 (len s) i
  have p1 := clamp0_le i (len s)
  cases j with
  | none =>
    simp only [substringM, Spec.jsSubstring, len_def, Option.getD]
    have e2 := clamp0_self (len s)
    rw [← e1]
    split
    · rw [substring_units]; congr 1 <;> omega
    · rw [substring_units]; congr 1 <;> omega
  | some j =>
    simp only [substringM, Spec.jsSubstring, len_def, Option.getD]
    have e2 := clampIdx_clamp0 (len s) j
    have p2 := clamp0_le j (len s)
    rw [← e1, ← e2]
    split
    · rw [substring_units]; congr 1 <;> omega
    · rw [substring_units]; congr 1 <;> omega

theorem nf_substringM {s : Str} (h : NF s) (i : Int) (j : Option Int) : NF (substringM s i j) := by
  simp only [substringM]
  split <;> exact nf_substring h _ _

theorem substr_idx (L : Nat) (i : Int) (n : Option Int) :
    let start : Int := if i < 0 then max ((L : Int) + i) 0 else i
    let length : Int := min (max (n.getD (L : Int)) 0) ((L : Int) - start)
    let a := Spec.relIdx L i
    let cnt := Spec.substrCnt L a n
    (length ≤ 0 → cnt = 0) ∧ (¬ length ≤ 0 → start.toNat = a ∧ (start + length).toNat = a + cnt) := by
  simp only [Spec.relIdx, Int.ofNat_eq_natCast]
  cases n with
  | none =>
    simp only [Option.getD, Spec.substrCnt]
    split <;> constructor <;> intro h <;> omega
  | some n =>
    simp only [Option.getD, Spec.substrCnt]
    split <;> split <;> constructor <;> intro h <;> omega

/-- String.prototype.substr as coded = the spec's substr on units -/
theorem substrM_units (s : Str) (i : Int) (n : Option Int) :
    units (substrM s i n) = Spec.jsSubstr (units s) i n := by
  have k := substr_idx (len s) i n
  simp only at k
  simp only [substrM, Spec.jsSubstr, len_def]
  by_cases hi : i < 0
  · simp only [hi, ↓reduceIte] at k ⊢
    by_cases h : min (max (n.getD (len s : Int)) 0) ((len s : Int) - max ((len s : Int) + i) 0) ≤ 0
    · simp only [h, ↓reduceIte]
      rw [units_emptyStr, k.1 h, slice_empty_of_le]
      omega
    · simp only [h, ↓reduceIte]
      rw [substring_units, (k.2 h).1, (k.2 h).2]
  · simp only [hi, ↓reduceIte] at k ⊢
    by_cases h : min (max (n.getD (len s : Int)) 0) ((len s : Int) - i) ≤ 0
    · simp only [h, ↓reduceIte]
      rw [units_emptyStr, k.1 h, slice_empty_of_le]
      omega
    · simp only [h, ↓reduceIte]
      rw [substring_units, (k.2 h).1, (k.2 h).2]

theorem nf_substrM {s : Str} (h : NF s) (i : Int) (n : Option Int) : NF (substrM s i n) := by
  simp only [substrM]
  repeat' split
  all_goals first | exact nf_emptyStr | exact nf_substring h _ _

theorem take1_drop {α : Type} : ∀ (l : List α) (k : Nat) (h : k < l.length), (l.drop k).take 1 = [l[k]]
  | a :: as, 0, _ => rfl
  | a :: as, k + 1, h => by
    have := take1_drop as k (by simpa using h)
    simpa using this

theorem slice_one {α : Type} (l : List α) (k : Nat) (h : k < l.length) : slice l k (k + 1) = [l[k]] := by
  simp only [slice]
  have e : k + 1 - k = 1 := by omega
  rw [e, take1_drop l k h]

/-- String.prototype.at as coded: undefined exactly when out of range, else the one-unit string the spec names -/
theorem atM_units (s : Str) (pos : Int) :
    (match atM s pos with | none => [] | some r => units r) = Spec.jsAt (units s) pos := by
  simp only [atM, Spec.jsAt, len_def, Int.ofNat_eq_natCast]
  have hL := len_def s
  by_cases hp : pos < 0
  · simp only [hp, ↓reduceIte]
    by_cases hr : (len s : Int) + pos ≥ (len s : Int) ∨ (len s : Int) + pos < 0
    · rw [if_pos hr]
      rcases hr with hr | hr
      · omega
      · simp [hr]
    · rw [if_neg hr]
      have h0 : ¬ ((len s : Int) + pos < 0) := by omega
      simp only [h0, ↓reduceIte]
      rw [substring_units]
      have hlt : ((len s : Int) + pos).toNat < (units s).length := by rw [hL]; omega
      rw [List.getElem?_eq_getElem hlt]
      have e : ((len s : Int) + pos + 1).toNat = ((len s : Int) + pos).toNat + 1 := by omega
      rw [e, slice_one _ _ hlt]
  · simp only [hp, ↓reduceIte, or_false]
    by_cases hr : pos ≥ (len s : Int)
    · rw [if_pos hr]
      have hge : (units s).length ≤ pos.toNat := by rw [hL]; omega
      simp [List.getElem?_eq_none hge]
    · rw [if_neg hr]
      simp only
      rw [substring_units]
      have hlt : pos.toNat < (units s).length := by rw [hL]; omega
      rw [List.getElem?_eq_getElem hlt]
      have e : (pos + 1).toNat = pos.toNat + 1 := by omega
      rw [e, slice_one _ _ hlt]

theorem nf_atM {s : Str} (h : NF s) (pos : Int) : ∀ r, atM s pos = some r → NF r := by
  intro r hr
  simp only [atM] at hr
  by_cases hc : (if pos < 0 then (len s : Int) + pos else pos) ≥ (len s : Int) ∨ (if pos < 0 then (len s : Int) + pos else pos) < 0
  · simp [hc] at hr
  · simp only [hc, ↓reduceIte, Option.some.injEq] at hr
    rw [← hr]
    exact nf_substring h _ _

/-- String.prototype.charAt as coded = the spec's charAt on units -/
theorem charAtM_units (s : Str) (pos : Int) : units (charAtM s pos) = Spec.jsCharAt (units s) pos := by
  simp only [charAtM, Spec.jsCharAt, Int.ofNat_eq_natCast]
  have hL := len_def s
  by_cases hp : pos < 0
  · simp [hp, units_emptyStr]
  · by_cases hr : pos ≥ (len s : Int)
    · have hge : (units s).length ≤ pos.toNat := by rw [hL]; omega
      simp [hp, hr, units_emptyStr, List.getElem?_eq_none hge]
    · have hlt : pos.toNat < (units s).length := by rw [hL]; omega
      have e : (pos + 1).toNat = pos.toNat + 1 := by omega
      simp only [hp, hr, or_self, ↓reduceIte]
      rw [substring_units, List.getElem?_eq_getElem hlt, e, slice_one _ _ hlt]

theorem nf_charAtM {s : Str} (h : NF s) (pos : Int) : NF (charAtM s pos) := by
  simp only [charAtM]
  split
  · exact nf_emptyStr
  · exact nf_substring h _ _


/-! builders -/

theorem units_touch (s : Str) : units (touch s) = units s := by cases s <;> rfl
theorem nf_touch {s : Str} (h : NF s) : NF (touch s) := by cases s <;> first | exact h | trivial

theorem usb0_inv : usb0.Inv ∧ usb0.units = [] := by
  have := sb_switch sb_inv_empty
  exact ⟨this.1, by rw [usb0, this.2.2]; rfl⟩

theorem rep_succ (x : Spec.S) (k : Nat) : Spec.rep x (k + 1) = x ++ Spec.rep x k := by
  simp [Spec.rep, List.replicate_succ]

theorem rep_zero (x : Spec.S) : Spec.rep x 0 = [] := rfl

theorem rep_nil : ∀ k : Nat, Spec.rep [] k = []
  | 0 => rfl
  | k + 1 => by rw [rep_succ, rep_nil k]; rfl

theorem writeTimes_spec : ∀ (k : Nat) {b : SB} {x : Str}, b.Inv → NF x →
    (writeTimes b x k).Inv ∧ (writeTimes b x k).units = b.units ++ Spec.rep (units x) k
  | 0, b, x, h, _ => by simp [writeTimes, h, rep_zero]
  | k + 1, b, x, h, hx => by
    have h1 := sb_writeString h hx
    have h2 := writeTimes_spec k h1.1 hx
    simp only [writeTimes]
    exact ⟨h2.1, by rw [h2.2, h1.2, rep_succ, List.append_assoc]⟩

theorem map_flatten_replicate {α β : Type} (f : α → β) (a : List α) : ∀ k : Nat,
    ((List.replicate k a).flatten).map f = (List.replicate k (a.map f)).flatten
  | 0 => rfl
  | k + 1 => by simp [List.replicate_succ, map_flatten_replicate f a k]

theorem all_flatten_replicate {α : Type} (p : α → Bool) (a : List α) (h : a.all p = true) : ∀ k : Nat,
    ((List.replicate k a).flatten).all p = true
  | 0 => rfl
  | k + 1 => by simp [List.replicate_succ, List.all_append, h, all_flatten_replicate p a h k]

theorem all_take {α : Type} {p : α → Bool} {l : List α} (h : l.all p = true) (n : Nat) : (l.take n).all p = true := by
  rw [List.all_eq_true] at h ⊢
  intro x hx
  exact h x (List.mem_of_mem_take hx)

theorem slice_zero {α : Type} (l : List α) (n : Nat) : slice l 0 n = l.take n := by simp [slice]

/-- padStart / padEnd as coded (both the strings.Builder path and the unicodeStringBuilder path, incl. the partial
last copy of the filler) = the spec on units -/
theorem padM_spec {s f : Str} (hs : NF s) (hf : NF f) (n : Nat) (atStart : Bool) :
    NF (padM s f n atStart) ∧ units (padM s f n atStart) =
      (if atStart then Spec.padStart (units s) n (units f) else Spec.padEnd (units s) n (units f)) := by
  have hsl := len_def s
  have hfl := len_def f
  unfold padM
  by_cases h1 : n ≤ len s
  · rw [if_pos h1, units_touch]
    refine ⟨nf_touch hs, ?_⟩
    cases atStart <;> simp [Spec.padStart, Spec.padEnd, hsl, h1]
  · rw [if_neg h1]
    by_cases h2 : len f = 0
    · rw [if_pos h2, units_touch]
      have : (units f).isEmpty = true := by
        have : (units f).length = 0 := by rw [hfl]; exact h2
        simpa using this
      refine ⟨nf_touch hs, ?_⟩
      cases atStart <;> simp [Spec.padStart, Spec.padEnd, this]
    · rw [if_neg h2]
      have he : (units f).isEmpty = false := by
        cases hu : units f with
        | nil => rw [← hfl, hu] at h2; simp at h2
        | cons a as => rfl
      have hn : ¬ n ≤ (units s).length := by rw [hsl]; exact h1
      have spec1 : Spec.padStart (units s) n (units f) = Spec.padFill (units f) (n - len s) ++ units s := by
        simp [Spec.padStart, he, hsl, h1]
      have spec2 : Spec.padEnd (units s) n (units f) = units s ++ Spec.padFill (units f) (n - len s) := by
        simp [Spec.padEnd, he, hsl, h1]
      have hds := devirt_units s
      have hdf := devirt_units f
      have hns := devirt_nf hs
      have hnf := devirt_nf hf
      -- the unicodeStringBuilder path, shared by three of the four devirtualisation cases
      have upath : (fun r : Str => NF r ∧ units r = if atStart then Spec.padStart (units s) n (units f) else Spec.padEnd (units s) n (units f)) ((let fl := len f
          let b0 := if atStart then usb0 else usb0.writeString s
          let b1 := writeTimes b0 f ((n - len s) / fl)
          let b2 := if (n - len s) % fl > 0 then b1.writeString (substring f 0 ((n - len s) % fl)) else b1
          let b3 := if atStart then b2.writeString s else b2
          b3.toStr)) := by
        simp only
        have i0 := usb0_inv
        have fillEq : ∀ b : SB, b.Inv →
            let b1 := writeTimes b f ((n - len s) / len f)
            let b2 := if (n - len s) % len f > 0 then b1.writeString (substring f 0 ((n - len s) % len f)) else b1
            b2.Inv ∧ b2.units = b.units ++ Spec.padFill (units f) (n - len s) := by
          intro b hb
          simp only
          have w := writeTimes_spec ((n - len s) / len f) hb hf
          by_cases hr : (n - len s) % len f > 0
          · rw [if_pos hr]
            have w2 := sb_writeString w.1 (nf_substring hf 0 ((n - len s) % len f))
            refine ⟨w2.1, ?_⟩
            rw [w2.2, w.2, substring_units, slice_zero, Spec.padFill, hfl, List.append_assoc]
          · rw [if_neg hr]
            have hz : (n - len s) % len f = 0 := by omega
            refine ⟨w.1, ?_⟩
            rw [w.2, Spec.padFill, hfl, hz]
            simp
        cases atStart with
        | true =>
          simp only [if_true]
          have f1 := fillEq usb0 i0.1
          simp only at f1
          have w3 := sb_writeString f1.1 hs
          refine ⟨(sb_toStr w3.1).1, ?_⟩
          rw [(sb_toStr w3.1).2, w3.2, f1.2, i0.2, spec1]
          simp
        | false =>
          simp only [Bool.false_eq_true, if_false]
          have w0 := sb_writeString i0.1 hs
          have f1 := fillEq (usb0.writeString s) w0.1
          simp only at f1
          refine ⟨(sb_toStr f1.1).1, ?_⟩
          rw [(sb_toStr f1.1).2, f1.2, w0.2, i0.2, spec2]
          simp
      cases hdS : devirt s with
      | a sa =>
        cases hdF : devirt f with
        | a fa =>
          simp only
          rw [hdS] at hds; rw [hdF] at hdf
          simp only [DV.units] at hds hdf
          have hfal : fa.length = len f := by rw [← hfl, ← hdf]; simp
          have ua : ∀ b : List UInt8, units (.ascii b) = b.map b2u := fun _ => rfl
          rw [hdS] at hns; rw [hdF] at hnf
          simp only [DV.NF] at hns hnf
          have hfill : ((List.replicate ((n - len s) / fa.length) fa).flatten ++ fa.take ((n - len s) % fa.length)).all asciiB = true := by
            rw [List.all_append, all_flatten_replicate asciiB fa hnf, all_take hnf]; rfl
          refine ⟨?_, ?_⟩
          · cases atStart <;> simp only [NF, if_true, Bool.false_eq_true, if_false, List.all_append, hfill, hns] <;> rfl
          cases atStart with
          | true =>
            simp only [if_true]
            rw [spec1, ua, Spec.padFill, Spec.rep, hfl, ← hfal, ← hds, ← hdf]
            simp only [List.map_append, map_flatten_replicate, List.map_take]
          | false =>
            simp only [Bool.false_eq_true, if_false]
            rw [spec2, ua, Spec.padFill, Spec.rep, hfl, ← hfal, ← hds, ← hdf]
            simp only [List.map_append, map_flatten_replicate, List.map_take]
        | u fu => simp only; exact upath
      | u su =>
        cases hdF : devirt f with
        | a fa => simp only; exact upath
        | u fu => simp only; exact upath


theorem padM_units {s f : Str} (hs : NF s) (hf : NF f) (n : Nat) (atStart : Bool) :
    units (padM s f n atStart) =
      (if atStart then Spec.padStart (units s) n (units f) else Spec.padEnd (units s) n (units f)) :=
  (padM_spec hs hf n atStart).2

/-- nf_preserved: padStart / padEnd (the class of the seeded change C06-m1) -/
theorem nf_padM {s f : Str} (hs : NF s) (hf : NF f) (n : Nat) (atStart : Bool) : NF (padM s f n atStart) :=
  (padM_spec hs hf n atStart).1

/-- String.prototype.repeat as coded = the spec, in normal form -/
theorem repeatM_spec {s : Str} (hs : NF s) (n : Nat) :
    NF (repeatM s n) ∧ units (repeatM s n) = Spec.rep (units s) n := by
  unfold Builtins.repeatM
  by_cases h0 : n = 0 ∨ len s = 0
  · rw [if_pos h0]
    refine ⟨nf_emptyStr, ?_⟩
    rcases h0 with h0 | h0
    · rw [h0]; rfl
    · have : units s = [] := by
        have : (units s).length = 0 := h0
        simpa using this
      rw [this, rep_nil]; rfl
  · rw [if_neg h0]
    have hd := devirt_units s
    have hn := devirt_nf hs
    cases hdS : devirt s with
    | a a =>
      rw [hdS] at hd hn
      simp only [DV.units, DV.NF] at hd hn
      simp only
      refine ⟨all_flatten_replicate asciiB a hn n, ?_⟩
      show ((List.replicate n a).flatten).map b2u = _
      rw [map_flatten_replicate, hd]; rfl
    | u u =>
      rw [hdS] at hd hn
      simp only [DV.units, DV.NF] at hd hn
      simp only
      have w := writeTimes_spec n usb0_inv.1 (x := .uni u) hn
      refine ⟨(sb_toStr w.1).1, ?_⟩
      rw [(sb_toStr w.1).2, w.2, usb0_inv.2, ← hd]
      rfl

/-- String.fromCharCode as coded keeps every unit and returns a normal-form value -/
theorem fromCharCodeM_spec (cs : List UInt16) : NF (fromCharCodeM cs) ∧ units (fromCharCodeM cs) = cs := by
  unfold Builtins.fromCharCodeM
  split
  · rename_i h
    exact ⟨all_asciiB_u2b h, map_b2u_u2b h⟩
  · rename_i h
    have hpre : (cs.takeWhile asciiU).all asciiU = true := all_takeWhile asciiU cs
    have e : ((cs.takeWhile asciiU).map u2b).map b2u ++ cs.dropWhile asciiU = cs := by
      rw [map_b2u_u2b hpre, List.takeWhile_append_dropWhile]
    refine ⟨?_, by simp only [units]; exact e⟩
    simp only [NF]
    rw [e, any_nonAscii_eq_not_all]
    simpa using h

theorem sb_foldl_writeRune : ∀ (rs : List Nat) {b : SB}, b.Inv → (∀ r ∈ rs, r ≤ 0x10FFFF) →
    (rs.foldl SB.writeRune b).Inv ∧ (rs.foldl SB.writeRune b).units = b.units ++ utf16 rs
  | [], b, h, _ => by simp [utf16, h]
  | r :: rs, b, h, hr => by
    have h1 := sb_writeRune h (hr r (by simp))
    have h2 := sb_foldl_writeRune rs h1.1 (fun x hx => hr x (by simp [hx]))
    simp only [List.foldl_cons]
    exact ⟨h2.1, by rw [h2.2, h1.2, utf16_cons]; simp⟩

/-- String.fromCodePoint as coded: the UTF-16 encoding of the code points (a surrogate code point stays one unit) -/
theorem fromCodePointM_spec (cps : List Nat) (h : ∀ c ∈ cps, c ≤ 0x10FFFF) :
    NF (fromCodePointM cps) ∧ units (fromCodePointM cps) = utf16 cps := by
  have w := sb_foldl_writeRune cps sb_inv_empty h
  refine ⟨(sb_toStr w.1).1, ?_⟩
  rw [fromCodePointM, (sb_toStr w.1).2, w.2]
  rfl

/-- String.prototype.concat is coded like the template-literal instruction -/
theorem protoConcatM_eq (l : List Str) : protoConcatM l = concatStrings l := rfl


theorem beq_b2u (a b : UInt8) : (b2u a == b2u b) = (a == b) := by
  by_cases h : a = b
  · subst h; simp
  · have : b2u a ≠ b2u b := fun e => h (b2u_inj e)
    rw [beq_eq_false_iff_ne.mpr h, beq_eq_false_iff_ne.mpr this]

theorem isPrefixB_map : ∀ p l : List UInt8, isPrefixB p l = Spec.isPrefix (p.map b2u) (l.map b2u)
  | [], _ => by simp [isPrefixB, Spec.isPrefix]
  | _ :: _, [] => by simp [isPrefixB, Spec.isPrefix]
  | a :: as, b :: bs => by simp [isPrefixB, Spec.isPrefix, beq_b2u, isPrefixB_map as bs]

theorem indexFromB_map (p : List UInt8) : ∀ (l : List UInt8) (k : Nat),
    indexFromB p l k = Spec.indexFrom (p.map b2u) (l.map b2u) k
  | [], k => by simp [indexFromB, Spec.indexFrom]
  | c :: cs, k => by
    have := isPrefixB_map p (c :: cs)
    simp only [List.map_cons] at this
    simp only [indexFromB, Spec.indexFrom, List.map_cons, this, indexFromB_map p cs (k + 1)]

theorem isPrefix_mem : ∀ (p l : List UInt16), Spec.isPrefix p l = true → ∀ x ∈ p, x ∈ l
  | [], _, _, x, hx => by simp at hx
  | _ :: _, [], h, _, _ => by simp [Spec.isPrefix] at h
  | a :: as, b :: bs, h, x, hx => by
    simp only [Spec.isPrefix, Bool.and_eq_true, beq_iff_eq] at h
    simp only [List.mem_cons] at hx ⊢
    rcases hx with rfl | hx
    · exact Or.inl h.1
    · exact Or.inr (isPrefix_mem as bs h.2 x hx)

theorem indexFrom_none {p : List UInt16} {x : UInt16} (hx : x ∈ p) : ∀ (l : List UInt16) (k : Nat), x ∉ l →
    Spec.indexFrom p l k = none
  | [], k, _ => by
    have : p.isEmpty = false := by cases p with
      | nil => simp at hx
      | cons => rfl
    simp [Spec.indexFrom, this]
  | c :: cs, k, hn => by
    have h1 : Spec.isPrefix p (c :: cs) = false := by
      cases h : Spec.isPrefix p (c :: cs) with
      | false => rfl
      | true => exact absurd (isPrefix_mem p _ h x hx) hn
    have h2 : x ∉ cs := fun h => hn (List.mem_cons_of_mem _ h)
    simp [Spec.indexFrom, h1, indexFrom_none hx cs (k + 1) h2]

/-- String index search as coded for every representation pair = StringIndexOf on units -/
theorem indexM_spec {s pat : Str} (hs : NF s) (hp : NF pat) (start : Nat) :
    indexM s pat start = Spec.indexOf (units s) (units pat) start := by
  have hds := devirt_units s
  have hdp := devirt_units pat
  have hns := devirt_nf hs
  have hnp := devirt_nf hp
  unfold indexM Spec.indexOf
  rw [← hds, ← hdp]
  cases hS : devirt s with
  | a a =>
    rw [hS] at hns
    cases hP : devirt pat with
    | a p =>
      simp only [DV.units, List.length_map]
      split
      · rfl
      · rw [indexFromB_map, List.map_drop]
    | u p =>
      rw [hP] at hnp
      simp only [DV.units, DV.NF, List.length_map] at hns hnp ⊢
      obtain ⟨x, hx, hxn⟩ := List.any_eq_true.mp hnp
      have hnot : x ∉ (List.map b2u a).drop start := by
        intro hmem
        have hmem' := List.mem_of_mem_drop hmem
        obtain ⟨y, hy, rfl⟩ := List.mem_map.mp hmem'
        rw [nonAscii_b2u_of_all hns y hy] at hxn
        cases hxn
      split
      · rfl
      · rw [indexFrom_none hx _ _ hnot]
  | u u => rfl

theorem slice_full {α : Type} (l : List α) : slice l 0 l.length = l := by simp [slice]
theorem slice_self {α : Type} (l : List α) (k : Nat) : slice l k k = [] := by simp [slice]
theorem slice_to_end {α : Type} (l : List α) (k : Nat) : slice l k l.length = l.drop k := by
  simp only [slice]
  exact List.take_of_length_le (by simp)

theorem utf16One_unit (c : UInt16) : utf16One c.toNat = [c] := by
  have := c.toNat_lt
  have h : c.toNat ≤ 0xFFFF := by omega
  simp only [utf16One, h, if_true]
  congr 1
  apply UInt16.toNat_inj.mp
  simp

theorem sb_writeUnit {b : SB} (h : b.Inv) (c : UInt16) :
    (b.writeRune c.toNat).Inv ∧ (b.writeRune c.toNat).units = b.units ++ [c] := by
  have := c.toNat_lt
  have w := sb_writeRune h (r := c.toNat) (by omega)
  exact ⟨w.1, by rw [w.2, utf16One_unit]⟩

/-- writeSubstitution as coded (string pattern) = GetSubstitution on units; units of the replacement text are
written one by one with WriteRune, so lone surrogates in it survive -/
theorem writeSubst_spec {s matched : Str} (hs : NF s) (hm : NF matched) (pos : Nat) :
    ∀ (repl : List UInt16) {b : SB}, b.Inv →
      (writeSubst s pos matched repl b).Inv ∧
      (writeSubst s pos matched repl b).units = b.units ++ Spec.getSubst (units s) pos (units matched) repl
  | [], b, h => by simp [writeSubst, Spec.getSubst, h]
  | [c], b, h => by
    have w := sb_writeUnit h c
    simpa [writeSubst, Spec.getSubst] using w
  | c :: ch :: rest, b, h => by
    simp only [writeSubst, Spec.getSubst]
    by_cases h1 : c.toNat = 36
    · simp only [h1, if_true]
      by_cases h2 : ch.toNat = 36
      · simp only [h2, if_true]
        have w := sb_writeUnit h (36 : UInt16)
        rw [show (36 : UInt16).toNat = 36 from rfl] at w
        have ih := writeSubst_spec hs hm pos rest w.1
        exact ⟨ih.1, by rw [ih.2, w.2]; simp⟩
      · simp only [h2, if_false]
        by_cases h3 : ch.toNat = 96
        · simp only [h3, if_true]
          have w := sb_writeString h (nf_substring hs 0 pos)
          have ih := writeSubst_spec hs hm pos rest w.1
          exact ⟨ih.1, by rw [ih.2, w.2, substring_units, slice_zero]; simp⟩
        · simp only [h3, if_false]
          by_cases h4 : ch.toNat = 39
          · simp only [h4, if_true]
            by_cases h5 : pos + len matched < len s
            · rw [if_pos h5]
              have w := sb_writeString h (nf_substring hs (pos + len matched) (len s))
              have ih := writeSubst_spec hs hm pos rest w.1
              refine ⟨ih.1, ?_⟩
              rw [ih.2, w.2, substring_units, ← len_def s, slice_to_end, len_def matched]
              simp
            · rw [if_neg h5]
              have ih := writeSubst_spec hs hm pos rest h
              refine ⟨ih.1, ?_⟩
              have : (units s).drop (pos + (units matched).length) = [] := by
                apply List.drop_eq_nil_of_le
                rw [len_def s, len_def matched]; omega
              rw [ih.2, this]; simp
          · simp only [h4, if_false]
            by_cases h6 : ch.toNat = 38
            · simp only [h6, if_true]
              have w := sb_writeString h hm
              have ih := writeSubst_spec hs hm pos rest w.1
              exact ⟨ih.1, by rw [ih.2, w.2]; simp⟩
            · simp only [h6, if_false]
              have w1 := sb_writeUnit h (36 : UInt16)
              rw [show (36 : UInt16).toNat = 36 from rfl] at w1
              have w2 := sb_writeUnit w1.1 ch
              have ih := writeSubst_spec hs hm pos rest w2.1
              have hc : c = 36 := UInt16.toNat_inj.mp (by simpa using h1)
              refine ⟨ih.1, ?_⟩
              rw [ih.2, w2.2, w1.2, hc]; simp
    · simp only [h1, if_false]
      have w := sb_writeUnit h c
      have ih := writeSubst_spec hs hm pos (ch :: rest) w.1
      exact ⟨ih.1, by rw [ih.2, w.2]; simp⟩

/-- the `found` loop of stringReplace = the spec's result construction, for ANY list of positions -/
theorem replaceGoM_spec {s : Str} (hs : NF s) (plen : Nat) (repl : List UInt16) :
    ∀ (ps : List Nat) (last : Nat) {b : SB}, b.Inv →
      (replaceGoM s plen repl ps last b).1.Inv ∧
      Spec.replaceWithGo (units s) plen repl ps last b.units =
        (replaceGoM s plen repl ps last b).1.units ++
          slice (units s) (replaceGoM s plen repl ps last b).2 (units s).length
  | [], last, b, h => by simp [replaceGoM, Spec.replaceWithGo, h]
  | p :: ps, last, b, h => by
    simp only [replaceGoM, Spec.replaceWithGo]
    have hb1 : (if p ≠ last then b.writeString (substring s last p) else b).Inv ∧
        (if p ≠ last then b.writeString (substring s last p) else b).units = b.units ++ slice (units s) last p := by
      by_cases hp : p ≠ last
      · rw [if_pos hp]
        have w := sb_writeString h (nf_substring hs last p)
        exact ⟨w.1, by rw [w.2, substring_units]⟩
      · rw [if_neg hp]
        have : p = last := by simpa using hp
        subst this
        exact ⟨h, by rw [slice_self]; simp⟩
    have w := writeSubst_spec hs (nf_substring hs p (p + plen)) p repl hb1.1
    have ih := replaceGoM_spec hs plen repl ps (p + plen) w.1
    refine ⟨ih.1, ?_⟩
    rw [← ih.2, w.2, hb1.2, substring_units]

/-- Runtime.stringReplace as coded (string replacement): normal form, and the spec's result for the same positions -/
theorem stringReplaceM_spec {s repl : Str} (hs : NF s) (plen : Nat) (found : List Nat) :
    NF (stringReplaceM s plen found repl) ∧
      units (stringReplaceM s plen found repl) = Spec.replaceWith (units s) plen found (units repl) := by
  unfold stringReplaceM
  cases found with
  | nil =>
    simp only [List.isEmpty_nil, if_true]
    exact ⟨nf_touch hs, by rw [units_touch, Spec.replaceWith, Spec.replaceWithGo, slice_full]; rfl⟩
  | cons p ps =>
    simp only [List.isEmpty_cons, Bool.false_eq_true, if_false]
    have g := replaceGoM_spec hs plen (units repl) (p :: ps) 0 sb_inv_empty
    have hfin : (if (replaceGoM s plen (units repl) (p :: ps) 0 SB.empty).2 ≠ len s then
          (replaceGoM s plen (units repl) (p :: ps) 0 SB.empty).1.writeString
            (substring s (replaceGoM s plen (units repl) (p :: ps) 0 SB.empty).2 (len s))
        else (replaceGoM s plen (units repl) (p :: ps) 0 SB.empty).1).Inv ∧
        (if (replaceGoM s plen (units repl) (p :: ps) 0 SB.empty).2 ≠ len s then
          (replaceGoM s plen (units repl) (p :: ps) 0 SB.empty).1.writeString
            (substring s (replaceGoM s plen (units repl) (p :: ps) 0 SB.empty).2 (len s))
        else (replaceGoM s plen (units repl) (p :: ps) 0 SB.empty).1).units =
          Spec.replaceWith (units s) plen (p :: ps) (units repl) := by
      rw [Spec.replaceWith]
      have e0 : SB.empty.units = [] := rfl
      rw [e0] at g
      by_cases hl : (replaceGoM s plen (units repl) (p :: ps) 0 SB.empty).2 ≠ len s
      · rw [if_pos hl]
        have w := sb_writeString g.1 (nf_substring hs (replaceGoM s plen (units repl) (p :: ps) 0 SB.empty).2 (len s))
        exact ⟨w.1, by rw [w.2, substring_units, g.2, len_def]⟩
      · rw [if_neg hl]
        have : (replaceGoM s plen (units repl) (p :: ps) 0 SB.empty).2 = len s := by simpa using hl
        refine ⟨g.1, ?_⟩
        rw [g.2, this, len_def, slice_self]; simp
    exact ⟨(sb_toStr hfin.1).1, by rw [(sb_toStr hfin.1).2, hfin.2]⟩

/-- String.prototype.replace(string, string) as coded = the spec on units, in normal form -/
theorem replaceM_spec {s pat repl : Str} (hs : NF s) (hp : NF pat) :
    NF (replaceM s pat repl) ∧
      units (replaceM s pat repl) = Spec.replaceFirst (units s) (units pat) (units repl) := by
  unfold replaceM Spec.replaceFirst
  rw [indexM_spec hs hp 0]
  cases Spec.indexOf (units s) (units pat) 0 with
  | none =>
    have w := stringReplaceM_spec (repl := repl) hs (len pat) []
    refine ⟨w.1, ?_⟩
    rw [w.2, Spec.replaceWith, Spec.replaceWithGo, slice_full]; rfl
  | some p =>
    have w := stringReplaceM_spec (repl := repl) hs (len pat) [p]
    exact ⟨w.1, by rw [w.2, len_def]⟩

theorem foundAllM_eq {s pat : Str} (hs : NF s) (hp : NF pat) : ∀ (fuel pos : Nat),
    foundAllM s pat fuel pos = Spec.matchPositions (units s) (units pat) fuel pos
  | 0, _ => rfl
  | fuel + 1, pos => by
    simp only [foundAllM, Spec.matchPositions, indexM_spec hs hp pos]
    cases Spec.indexOf (units s) (units pat) pos with
    | none => rfl
    | some p => simp only [foundAllM_eq hs hp fuel, len_def]

/-- String.prototype.replaceAll(string, string) as coded = the spec on units, in normal form -/
theorem replaceAllM_spec {s pat repl : Str} (hs : NF s) (hp : NF pat) :
    NF (replaceAllM s pat repl) ∧
      units (replaceAllM s pat repl) = Spec.replaceAll (units s) (units pat) (units repl) := by
  unfold replaceAllM Spec.replaceAll
  have w := stringReplaceM_spec (repl := repl) hs (len pat) (foundAllM s pat (len s + 2) 0)
  exact ⟨w.1, by rw [w.2, foundAllM_eq hs hp, len_def, len_def]⟩


theorem uniSubstring_spec (u : List UInt16) (st en : Nat) :
    NF (uniSubstring u st en) ∧ units (uniSubstring u st en) = slice u st en := by
  simp only [uniSubstring]
  split
  · rename_i h; exact ⟨h, rfl⟩
  · rename_i h
    have : (slice u st en).all asciiU = true := by
      rw [any_nonAscii_eq_not_all] at h
      simpa using h
    exact ⟨all_asciiB_u2b this, map_b2u_u2b this⟩

theorem indexFrom_lt {ss : List UInt16} (hne : ss ≠ []) : ∀ (l : List UInt16) (k i : Nat),
    Spec.indexFrom ss l k = some i → i < k + l.length
  | [], k, i, h => by
    have : ss.isEmpty = false := by cases ss with
      | nil => exact absurd rfl hne
      | cons => rfl
    simp [Spec.indexFrom, this] at h
  | c :: cs, k, i, h => by
    simp only [Spec.indexFrom] at h
    split at h
    · cases h; simp
    · have := indexFrom_lt hne cs (k + 1) i h
      simp; omega

theorem splitLoopM_spec {ss : List UInt16} (hne : ss ≠ []) : ∀ (fuel : Nat) (su : List UInt16) (idx : Nat),
    idx = (Spec.indexFrom ss su 0).getD su.length →
    (∀ p ∈ splitLoopM ss fuel su idx, NF p) ∧ (splitLoopM ss fuel su idx).map units = Spec.splitRel ss fuel su
  | 0, su, idx, _ => by
    have w := uniSubstring_spec su 0 su.length
    simp only [splitLoopM, Spec.splitRel, List.mem_singleton, List.map_cons, List.map_nil]
    exact ⟨fun p hp => by rw [hp]; exact w.1, by rw [w.2, slice_full]⟩
  | fuel + 1, su, idx, hidx => by
    simp only [splitLoopM, Spec.splitRel]
    cases hi : Spec.indexFrom ss su 0 with
    | none =>
      rw [hi] at hidx
      simp only [Option.getD] at hidx
      have w := uniSubstring_spec su 0 idx
      rw [if_pos hidx]
      simp only [List.mem_singleton, List.map_cons, List.map_nil]
      exact ⟨fun p hp => by rw [hp]; exact w.1, by rw [w.2, hidx, slice_full]⟩
    | some i =>
      rw [hi] at hidx
      simp only [Option.getD] at hidx
      subst hidx
      have hlt := indexFrom_lt hne su 0 idx hi
      have hne' : ¬ idx = su.length := by omega
      rw [if_neg hne']
      have w := uniSubstring_spec su 0 idx
      have ih := splitLoopM_spec hne fuel (su.drop (idx + ss.length))
        ((Spec.indexFrom ss (su.drop (idx + ss.length)) 0).getD (su.drop (idx + ss.length)).length) rfl
      simp only [List.mem_cons, List.map_cons]
      refine ⟨?_, by rw [w.2, slice_zero, ih.2]⟩
      intro p hp
      rcases hp with rfl | hp
      · exact w.1
      · exact ih.1 p hp

theorem splitRelB_map (sep : List UInt8) : ∀ (fuel : Nat) (l : List UInt8),
    (splitRelB sep fuel l).map (List.map b2u) = Spec.splitRel (sep.map b2u) fuel (l.map b2u)
  | 0, l => rfl
  | fuel + 1, l => by
    simp only [splitRelB, Spec.splitRel, indexFromB_map sep l 0]
    cases Spec.indexFrom (sep.map b2u) (l.map b2u) 0 with
    | none => rfl
    | some idx =>
      simp only [List.map_cons, List.map_take, splitRelB_map sep fuel, List.map_drop, List.length_map]

theorem all_ascii_splitRelB (sep : List UInt8) : ∀ (fuel : Nat) (l : List UInt8), l.all asciiB = true →
    ∀ p ∈ splitRelB sep fuel l, p.all asciiB = true
  | 0, l, h, p, hp => by simp only [splitRelB, List.mem_singleton] at hp; rw [hp]; exact h
  | fuel + 1, l, h, p, hp => by
    simp only [splitRelB] at hp
    split at hp
    · simp only [List.mem_singleton] at hp; rw [hp]; exact h
    · simp only [List.mem_cons] at hp
      rcases hp with rfl | hp
      · exact all_take h _
      · refine all_ascii_splitRelB sep fuel _ ?_ p hp
        rw [List.all_eq_true] at h ⊢
        intro x hx
        exact h x (List.mem_of_mem_drop hx)

/-- String.prototype.split(string) as coded: every piece is in normal form and the pieces are the spec's pieces -/
theorem splitM_spec {s sep : Str} (hs : NF s) (hp : NF sep) :
    (∀ p ∈ splitM s sep, NF p) ∧ (splitM s sep).map units = Spec.split (units s) (units sep) := by
  have hds := devirt_units s
  have hdp := devirt_units sep
  have hns := devirt_nf hs
  have hnp := devirt_nf hp
  unfold splitM Spec.split
  rw [← hds, ← hdp]
  cases hS : devirt s with
  | a sa =>
    rw [hS] at hns hds
    simp only [DV.NF] at hns
    cases hP : devirt sep with
    | a sepa =>
      simp only [DV.units, List.isEmpty_map, List.length_map]
      by_cases he : sepa.isEmpty = true
      · simp only [he, if_true]
        refine ⟨?_, ?_⟩
        · intro p hp
          simp only [List.mem_map] at hp
          obtain ⟨q, ⟨c, hc, rfl⟩, rfl⟩ := hp
          simp only [NF, List.all_cons, List.all_nil, Bool.and_true]
          exact (List.all_eq_true.mp hns) c hc
        · simp [units, Function.comp_def]
      · simp only [he, if_false]
        refine ⟨?_, ?_⟩
        · intro p hp
          simp only [List.mem_map] at hp
          obtain ⟨q, hq, rfl⟩ := hp
          exact all_ascii_splitRelB sepa _ sa hns q hq
        · rw [← splitRelB_map]
          simp [units, Function.comp_def]
    | u sepu =>
      rw [hP] at hnp
      simp only [DV.units, DV.NF] at hnp ⊢
      simp only [List.mem_singleton, List.map_cons, List.map_nil]
      refine ⟨fun p hp => by rw [hp]; exact nf_touch hs, ?_⟩
      have hne : sepu.isEmpty = false := by
        cases sepu with
        | nil => simp at hnp
        | cons => rfl
      obtain ⟨x, hx, hxn⟩ := List.any_eq_true.mp hnp
      have hnot : x ∉ List.map b2u sa := by
        intro hmem
        obtain ⟨y, hy, rfl⟩ := List.mem_map.mp hmem
        rw [nonAscii_b2u_of_all hns y hy] at hxn
        cases hxn
      simp only [hne, Bool.false_eq_true, if_false, List.length_map, Spec.splitRel,
        indexFrom_none hx _ 0 hnot]
      rw [units_touch, ← hds]; rfl
  | u su =>
    rw [hS] at hds
    have e1 : (DV.u su).units = su := rfl
    rw [e1] at hds ⊢
    simp only
    by_cases he : (devirt sep).units.isEmpty = true
    · simp only [he, if_true]
      refine ⟨?_, ?_⟩
      · intro p hp
        simp only [List.mem_map] at hp
        obtain ⟨c, _, rfl⟩ := hp
        split
        · rename_i h; simp [NF, h]
        · rename_i h
          have : asciiU c = true := by simpa [nonAsciiU] using h
          simp [NF, asciiB_u2b this]
      · rw [List.map_map]
        apply List.map_congr_left
        intro c _
        simp only [Function.comp]
        split
        · rfl
        · rename_i h
          have : asciiU c = true := by simpa [nonAsciiU] using h
          simp [units, b2u_u2b this]
    · simp only [he, if_false]
      have hne : (devirt sep).units ≠ [] := by
        intro e; rw [e] at he; simp at he
      cases hi : Spec.indexFrom (devirt sep).units su 0 with
      | none =>
        simp only [Bool.false_eq_true, if_false, List.mem_singleton, List.map_cons, List.map_nil, Spec.splitRel, hi]
        exact ⟨fun p hp => by rw [hp]; exact nf_touch hs, by rw [units_touch, ← hds]⟩
      | some idx =>
        simp only [Bool.false_eq_true, if_false]
        exact splitLoopM_spec hne (su.length + 1) su idx (by rw [hi]; rfl)

theorem sb_foldl_join {sep : Str} (hsep : NF sep) : ∀ (rest : List Str) {b : SB}, b.Inv → (∀ q ∈ rest, NF q) →
    (rest.foldl (fun b q => (b.writeString sep).writeString q) b).Inv ∧
    (rest.foldl (fun b q => (b.writeString sep).writeString q) b).units =
      b.units ++ rest.flatMap (fun q => units sep ++ units q)
  | [], b, h, _ => by simp [h]
  | q :: rest, b, h, hq => by
    have w1 := sb_writeString h hsep
    have w2 := sb_writeString w1.1 (hq q (by simp))
    have ih := sb_foldl_join hsep rest w2.1 (fun x hx => hq x (by simp [hx]))
    simp only [List.foldl_cons, List.flatMap_cons]
    exact ⟨ih.1, by rw [ih.2, w2.2, w1.2]; simp⟩

/-- Array.prototype.join over strings as coded = the spec's join on units, in normal form -/
theorem joinM_spec {ps : List Str} {sep : Str} (hps : ∀ p ∈ ps, NF p) (hsep : NF sep) :
    NF (joinM ps sep) ∧ units (joinM ps sep) = Spec.join (ps.map units) (units sep) := by
  cases ps with
  | nil => exact ⟨nf_emptyStr, rfl⟩
  | cons p rest =>
    simp only [joinM, Spec.join, List.map_cons]
    have w0 := sb_writeString sb_inv_empty (hps p (by simp))
    have w := sb_foldl_join hsep rest w0.1 (fun x hx => hps x (by simp [hx]))
    refine ⟨(sb_toStr w.1).1, ?_⟩
    rw [(sb_toStr w.1).2, w.2, w0.2]
    simp [SB.units, SB.empty, List.flatMap_map]

/-- s.split(sep).join(j) as coded = the spec -/
theorem splitJoinM_spec {s sep j : Str} (hs : NF s) (hp : NF sep) (hj : NF j) :
    NF (joinM (splitM s sep) j) ∧
      units (joinM (splitM s sep) j) = Spec.join (Spec.split (units s) (units sep)) (units j) := by
  have w := splitM_spec hs hp
  have v := joinM_spec w.1 hj
  exact ⟨v.1, by rw [v.2, w.2]⟩

end BuiltinsSection

/-! ## non-vacuity (tests on literals, not proofs of the property) -/

-- NF is satisfiable in all three representations, on non-trivial values
example : NF (.ascii [0x61, 0x62]) ∧ NF (.uni [0x61, 0xD800]) ∧ NF (.imp [0xff, 0x61] false) := by
  refine ⟨?_, ?_, trivial⟩ <;> simp only [NF] <;> decide
-- the builder invariant holds in a state that is in UTF-16 mode with a non-ASCII unit
example : (SB.empty.writeRune 0xD800).Inv := (sb_writeRune sb_inv_empty (by decide)).1
example : (SB.empty.writeRune 0xD800).toStr = .uni [0xD800] := by decide
-- both branches of the guarded shortcut are reachable
example : junctionSafe [0x62] = true ∧ junctionSafe [0xA9] = false := by decide
-- three representations of "é" are pairwise StrictEqual in both directions
example : strictEq (.uni [0xe9]) (.imp [0xc3, 0xa9] false) = true ∧ strictEq (.imp [0xc3, 0xa9] true) (.uni [0xe9]) = true := by
  decide

end GojaModel.C06
