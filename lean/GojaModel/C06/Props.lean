/-
  C06 — property theorems (every `theorem` here is one audited proof obligation).

  Spec: a string's identity is `units : Str → List UInt16`.  Mechanism: the functions of Model.lean that
  transcribe goja's three representations.  The theorems say
    * every constructor / operation returns a value in normal form `NF` (given NF operands) and refines the
      corresponding operation on unit lists (append, slice, identity);
    * under NF, StrictEquals/SameAs as coded, the hash preimage and the property-key encoding identify
      exactly the strings with equal units; CompareTo is the lexicographic order of units;
    * code units are never rewritten (lone surrogates survive).
  Nothing is `_partial`: the model transcribes the code after the fixes 58560e3, ef621e6, 3293be7 and 7f47297.
  The mechanisms those fixes replaced survive only as regression lemmas (`…_prefix_witness`,
  `writeSubstring_unconditional_flag_breaks_nf`, `imported_invalid_spellings_equal`).
-/
import GojaModel.C06.Lemmas
import GojaModel.C06.Utf8
import GojaModel.C06.Spec
namespace GojaModel.C06

/-! ## constructors -/

theorem nf_newStringValue (s : List UInt8) : NF (newStringValue s) := by
  rcases scan_cases s with ⟨h, hs⟩ | ⟨h, hs⟩
  · simp [newStringValue, hs, NF, h]
  · simp [newStringValue, hs, NF, decode_nonascii h]

/-- import_units: a Go string is imported with Go's lenient decoding (invalid byte ↦ U+FFFD) -/
theorem units_newStringValue (s : List UInt8) : units (newStringValue s) = utf16 (decode s) := by
  rcases scan_cases s with ⟨h, hs⟩ | ⟨h, hs⟩
  · simp [newStringValue, hs, units, utf16_decode_ascii h]
  · simp [newStringValue, hs, units]

theorem nf_stringFromUTF16 (c : List UInt16) : NF (stringFromUTF16 c) := by
  unfold stringFromUTF16
  split
  · rename_i h
    exact all_asciiB_u2b h
  · rename_i h
    simp only [NF, any_nonAscii_eq_not_all]
    simpa using h

/-- StringFromUTF16 keeps every code unit as it is (no validation: lone surrogates survive) -/
theorem units_stringFromUTF16 (c : List UInt16) : units (stringFromUTF16 c) = c := by
  unfold stringFromUTF16
  split
  · rename_i h
    simp [units, map_b2u_u2b h]
  · rfl

theorem nf_toValue (s : List UInt8) : NF (toValue s) := by
  unfold toValue
  split
  · rcases scan_cases s with ⟨h, hs⟩ | ⟨h, hs⟩ <;> simp [hs, NF, h]
  · trivial

/-- import_units for Runtime.ToValue: the same units whether scanned eagerly (≤ 16 bytes) or lazily -/
theorem units_toValue (s : List UInt8) : units (toValue s) = utf16 (decode s) := by
  unfold toValue
  split
  · rcases scan_cases s with ⟨h, hs⟩ | ⟨h, hs⟩
    · simp [hs, units, utf16_decode_ascii h]
    · simp [hs, units]
  · rfl

/-- ToValue and newStringValue of the same Go string denote the same JS string -/
theorem toValue_units_eq_newStringValue (s : List UInt8) : units (toValue s) = units (newStringValue s) := by
  rw [units_toValue, units_newStringValue]

/-! ## Concat -/

theorem asciiConcat_units (s : List UInt8) (y : Str) : units (asciiConcat s y) = s.map b2u ++ units y := by
  rw [← devirt_units y]
  unfold asciiConcat
  cases devirt y <;> simp [units, DV.units]

theorem uniConcat_units (s : List UInt16) (y : Str) : units (uniConcat s y) = s ++ units y := by
  rw [← devirt_units y]
  unfold uniConcat
  cases devirt y <;> simp [units, DV.units]

theorem utf16_append (a b : List Nat) : utf16 (a ++ b) = utf16 a ++ utf16 b := by
  simp [utf16]

/-- Go's lenient decoding splits at a junction whose right side is empty or starts with a rune-start byte -/
theorem decode_append_of_junctionSafe (s t : List UInt8) (ht : junctionSafe t = true) :
    decode (s ++ t) = decode s ++ decode t :=
  decodeS_append ht s 0 (Nat.zero_le _)

/-- concat refines list append, for ALL 3×3 representation pairs, unconditionally — including the
unscanned+unscanned shortcut, which joins the Go BYTES only when the junction is safe (3293be7). -/
theorem concat_units (x y : Str) : units (concat x y) = units x ++ units y := by
  unfold concat
  split
  · next s t =>
    split
    · rename_i hj
      simp [units, decode_append_of_junctionSafe s t hj, utf16_append]
    · rw [← devirt_units (.imp s false)]
      cases devirt (.imp s false) <;> simp [dvConcat, asciiConcat_units, uniConcat_units, DV.units]
  · rw [← devirt_units x]
    cases devirt x <;> simp [dvConcat, asciiConcat_units, uniConcat_units, DV.units]

/-- Regression lemma about the OLD mechanism (before 3293be7, no junction guard): two imported strings, each
longer than 16 bytes and not yet scanned, whose junction splits a UTF-8 sequence (… C3 | A9 …) were fused:
41 units instead of 21 + 21. -/
theorem concat_shortcut_prefix_witness :
    ¬ ∀ x y : Str, units (concatOld x y) = units x ++ units y := by
  intro h
  have := h (toValue (List.replicate 20 0x61 ++ [0xC3])) (toValue (0xA9 :: List.replicate 20 0x62))
  have := congrArg List.length this
  revert this
  decide

/-- the same input through the current mechanism: the guard refuses the shortcut and the units are appended -/
theorem concat_guard_on_prefix_witness_input :
    (units (concat (toValue (List.replicate 20 0x61 ++ [0xC3])) (toValue (0xA9 :: List.replicate 20 0x62)))).length = 42 := by
  decide

theorem asciiConcat_nf {s : List UInt8} {y : Str} (hs : s.all asciiB = true) (hy : NF y) :
    NF (asciiConcat s y) := by
  have h := devirt_nf hy
  unfold asciiConcat
  cases hd : devirt y with
  | a a => rw [hd] at h; simp only [NF, DV.NF] at h ⊢; simp [hs, h]
  | u u => rw [hd] at h; simp only [NF, DV.NF] at h ⊢; simp [h]

theorem uniConcat_nf {s : List UInt16} (y : Str) (hs : s.any nonAsciiU = true) : NF (uniConcat s y) := by
  unfold uniConcat
  cases devirt y <;> simp [NF, hs]

/-- nf_preserved: Concat -/
theorem nf_concat {x y : Str} (hx : NF x) (hy : NF y) : NF (concat x y) := by
  unfold concat
  split
  · next s t =>
    split
    · trivial
    · have h := devirt_nf hx
      cases hd : devirt (.imp s false) with
      | a a => rw [hd] at h; exact asciiConcat_nf h hy
      | u u => rw [hd] at h; exact uniConcat_nf _ h
  · have h := devirt_nf hx
    cases hd : devirt x with
    | a a => rw [hd] at h; exact asciiConcat_nf h hy
    | u u => rw [hd] at h; exact uniConcat_nf y h

/-! ## Substring -/

theorem substring_units (x : Str) (st en : Nat) : units (substring x st en) = slice (units x) st en := by
  rw [← devirt_units x]
  unfold substring
  cases devirt x with
  | a b => simp [units, DV.units, slice_map]
  | u u =>
    simp only [DV.units, uniSubstring]
    split
    · rfl
    · rename_i h
      have : (slice u st en).all asciiU = true := by
        rw [any_nonAscii_eq_not_all] at h
        simpa using h
      simp [units, map_b2u_u2b this]

/-- nf_preserved: Substring (downgrades to ASCII storage when the slice has no unit >= 0x80) -/
theorem nf_substring {x : Str} (hx : NF x) (st en : Nat) : NF (substring x st en) := by
  have h := devirt_nf hx
  unfold substring
  cases hd : devirt x with
  | a b => rw [hd] at h; exact all_slice h st en
  | u u =>
    simp only [uniSubstring]
    split
    · rename_i h2; exact h2
    · rename_i h2
      have : (slice u st en).all asciiU = true := by
        rw [any_nonAscii_eq_not_all] at h2
        simpa using h2
      exact all_asciiB_u2b this

/-- lone_surrogate_preserved (and every other unit): a unit of the slice is a unit of the result -/
theorem substring_mem (x : Str) (st en : Nat) (c : UInt16) :
    c ∈ units (substring x st en) ↔ c ∈ slice (units x) st en := by
  rw [substring_units]

/-! ## CompareTo -/

theorem cmpBytes_eq : ∀ s t : List UInt8, cmpBytes s t = lexCmp (s.map b2u) (t.map b2u)
  | [], [] => rfl
  | [], _ :: _ => rfl
  | _ :: _, [] => rfl
  | a :: as, b :: bs => by simp [cmpBytes, lexCmp, cmpBytes_eq as bs]

theorem cmpUA_eq : ∀ (u : List UInt16) (s : List UInt8), cmpUA u s = lexCmp u (s.map b2u)
  | [], [] => rfl
  | [], _ :: _ => rfl
  | _ :: _, [] => rfl
  | a :: as, b :: bs => by simp [cmpUA, lexCmp, cmpUA_eq as bs]

theorem lexCmp_neg : ∀ u v : List UInt16, - lexCmp u v = lexCmp v u
  | [], [] => rfl
  | [], _ :: _ => rfl
  | _ :: _, [] => rfl
  | a :: as, b :: bs => by
    simp only [lexCmp]
    by_cases h1 : a.toNat < b.toNat
    · have : ¬ b.toNat < a.toNat := by omega
      simp [h1, this]
    · by_cases h2 : b.toNat < a.toNat
      · simp [h1, h2]
      · simp [h1, h2, lexCmp_neg as bs]

/-- compare_is_lex_units: CompareTo, for every representation pair, is slices.Compare on the units -/
theorem compareTo_lex (x y : Str) : compareTo x y = lexCmp (units x) (units y) := by
  rw [← devirt_units x, ← devirt_units y]
  unfold compareTo
  cases devirt x <;> cases devirt y <;> simp [DV.units, cmpBytes_eq, cmpUA_eq, lexCmp_neg]

/-- the order is consistent with identity: compare = 0 exactly for equal units -/
theorem lexCmp_eq_zero_iff : ∀ u v : List UInt16, lexCmp u v = 0 ↔ u = v
  | [], [] => by simp [lexCmp]
  | [], _ :: _ => by simp [lexCmp]
  | _ :: _, [] => by simp [lexCmp]
  | a :: as, b :: bs => by
    simp only [lexCmp, List.cons.injEq]
    by_cases h1 : a.toNat < b.toNat
    · have : a ≠ b := fun e => by rw [e] at h1; omega
      simp [h1, this]
    · by_cases h2 : b.toNat < a.toNat
      · have : a ≠ b := fun e => by rw [e] at h2; omega
        simp [h1, h2, this]
      · have : a = b := UInt16.toNat_inj.mp (by omega)
        simp [h1, h2, this, lexCmp_eq_zero_iff as bs]

theorem compareTo_antisymm (x y : Str) : compareTo y x = - compareTo x y := by
  rw [compareTo_lex, compareTo_lex, lexCmp_neg]

/-! ## StrictEquals / SameAs -/

theorem sameAs_eq_strictEq (a b : Str) : sameAs a b = strictEq a b := rfl

/-- soundness, all nine pairs, unconditional: strings that `===` calls equal have equal units -/
theorem strictEq_sound {a b : Str} (ha : NF a) (hb : NF b) (h : strictEq a b = true) : units a = units b := by
  cases a with
  | ascii s =>
    cases b with
    | ascii t => simp [strictEq] at h; simp [h]
    | uni t => simp [strictEq] at h
    | imp t sc =>
      simp only [strictEq] at h
      have : s = t := by simpa using h
      subst this
      simp [units, utf16_decode_ascii ha]
  | uni s =>
    cases b with
    | ascii t => simp [strictEq] at h
    | uni t => simp [strictEq] at h; simp [h]
    | imp t sc =>
      simp only [strictEq] at h
      rcases scan_cases t with ⟨ht, hs⟩ | ⟨ht, hs⟩
      · simp [hs] at h
      · simp [hs] at h
        simp [units, h]
  | imp s sc =>
    cases b with
    | ascii t =>
      simp only [strictEq] at h
      have : s = t := by simpa using h
      subst this
      simp [units, utf16_decode_ascii hb]
    | uni t =>
      simp only [strictEq] at h
      rcases scan_cases s with ⟨ht, hs⟩ | ⟨ht, hs⟩
      · simp [hs] at h
      · simp [hs] at h
        simp [units, h]
    | imp t tc =>
      simp only [strictEq] at h
      split at h
      · rename_i he
        have : s = t := by simpa using he
        simp [units, this]
      · split at h
        · cases h
        · rcases scan_cases s with ⟨hs1, hs⟩ | ⟨hs1, hs⟩ <;> rcases scan_cases t with ⟨ht1, ht⟩ | ⟨ht1, ht⟩ <;>
            simp [hs, ht] at h
          simp [units, h]

/-- completeness for imported/imported; the `utf8.ValidString(a) && utf8.ValidString(b) → false` shortcut
(string_imported.go:140) is justified by `valid_decode_injective` (Utf8.lean). -/
theorem strictEq_complete_imported (s t : List UInt8) (sc tc : Bool)
    (h : units (.imp s sc) = units (.imp t tc)) : strictEq (.imp s sc) (.imp t tc) = true := by
  simp only [units] at h
  simp only [strictEq]
  split
  · rfl
  · rename_i hne
    have hne' : s ≠ t := by simpa using hne
    split
    · rename_i hv
      simp only [Bool.and_eq_true] at hv
      exact absurd (valid_decode_injective s t hv.1 hv.2 h) hne'
    · rcases scan_cases s with ⟨hs1, hs⟩ | ⟨hs1, hs⟩ <;> rcases scan_cases t with ⟨ht1, ht⟩ | ⟨ht1, ht⟩
      · rw [utf16_decode_ascii hs1, utf16_decode_ascii ht1] at h
        exact absurd (map_b2u_inj h) hne'
      · rw [utf16_decode_ascii hs1] at h
        exact absurd h (ascii_ne_nonascii hs1 (decode_nonascii ht1))
      · rw [utf16_decode_ascii ht1] at h
        exact absurd h.symm (ascii_ne_nonascii ht1 (decode_nonascii hs1))
      · simp [hs, ht, h]

/-- completeness, all nine pairs, unconditional: NF strings with equal units are `===` -/
theorem strictEq_complete {a b : Str} (ha : NF a) (hb : NF b) (h : units a = units b) : strictEq a b = true := by
  cases a with
  | ascii s =>
    cases b with
    | ascii t => simp [strictEq, map_b2u_inj h]
    | uni t => exact absurd h (ascii_ne_nonascii ha hb)
    | imp t sc =>
      simp only [units] at h
      rcases scan_cases t with ⟨ht, hs⟩ | ⟨ht, hs⟩
      · rw [utf16_decode_ascii ht] at h
        simp [strictEq, map_b2u_inj h]
      · exact absurd h (ascii_ne_nonascii ha (decode_nonascii ht))
  | uni s =>
    cases b with
    | ascii t => exact absurd h.symm (ascii_ne_nonascii hb ha)
    | uni t => simp [units] at h; simp [strictEq, h]
    | imp t sc =>
      simp only [units] at h
      rcases scan_cases t with ⟨ht, hs⟩ | ⟨ht, hs⟩
      · rw [utf16_decode_ascii ht] at h
        exact absurd h.symm (ascii_ne_nonascii ht ha)
      · simp [strictEq, hs, h]
  | imp s sc =>
    cases b with
    | ascii t =>
      simp only [units] at h
      rcases scan_cases s with ⟨ht, hs⟩ | ⟨ht, hs⟩
      · rw [utf16_decode_ascii ht] at h
        simp [strictEq, map_b2u_inj h]
      · exact absurd h.symm (ascii_ne_nonascii hb (decode_nonascii ht))
    | uni t =>
      simp only [units] at h
      rcases scan_cases s with ⟨ht, hs⟩ | ⟨ht, hs⟩
      · rw [utf16_decode_ascii ht] at h
        exact absurd h (ascii_ne_nonascii ht hb)
      · simp [strictEq, hs, h]
    | imp t tc => exact strictEq_complete_imported s t sc tc h

/-- import: Go's decoder is injective on valid UTF-8 (proved in Utf8.lean by re-encoding) -/
theorem import_injective_on_valid_utf8 (s t : List UInt8) (hs : validUtf8 s = true) (ht : validUtf8 t = true)
    (h : units (.imp s false) = units (.imp t false)) : s = t :=
  valid_decode_injective s t hs ht h

/-- eq_iff_units: under NF, `===` / SameValue as coded ⇔ equal units — all nine pairs, no hypothesis -/
theorem eq_iff_units {a b : Str} (ha : NF a) (hb : NF b) : strictEq a b = true ↔ units a = units b :=
  ⟨strictEq_sound ha hb, strictEq_complete ha hb⟩

/-- StrictEquals is transitive on NF strings (corollary of eq_iff_units) -/
theorem strictEq_trans {a b c : Str} (ha : NF a) (hb : NF b) (hc : NF c)
    (h1 : strictEq a b = true) (h2 : strictEq b c = true) : strictEq a c = true :=
  (eq_iff_units ha hc).mpr (((eq_iff_units ha hb).mp h1).trans ((eq_iff_units hb hc).mp h2))

/-- the regression repaired by ef621e6: comparing imported strings by their Go bytes is not enough —
"\xff" and "\xfe" are different bytes with the same units, and the code as it is now answers `true`. -/
theorem imported_invalid_spellings_equal :
    units (.imp [0xff] false) = units (.imp [0xfe] false) ∧ strictEq (.imp [0xff] false) (.imp [0xfe] false) = true := by
  decide

/-- StrictEquals is symmetric for all nine pairs (no NF needed) -/
theorem strictEq_symm (a b : Str) : strictEq a b = strictEq b a := by
  have e8 : ∀ x y : List UInt8, (x == y) = (y == x) := fun x y => by
    by_cases h : x = y
    · subst h; rfl
    · have h' : y ≠ x := fun e => h e.symm
      rw [beq_eq_false_iff_ne.mpr h, beq_eq_false_iff_ne.mpr h']
  have e16 : ∀ x y : List UInt16, (x == y) = (y == x) := fun x y => by
    by_cases h : x = y
    · subst h; rfl
    · have h' : y ≠ x := fun e => h e.symm
      rw [beq_eq_false_iff_ne.mpr h, beq_eq_false_iff_ne.mpr h']
  cases a <;> cases b <;> simp only [strictEq]
  · exact e8 _ _
  · exact e8 _ _
  · exact e16 _ _
  · rename_i s t sc
    cases scan t <;> simp [e16]
  · exact e8 _ _
  · rename_i s sc t
    cases scan s <;> simp [e16]
  · rename_i s sc t tc
    rw [e8 s t, Bool.and_comm]
    cases scan s <;> cases scan t <;> simp [e16]

/-! ## hash preimage and property-key encoding -/

theorem le16_cons (c : UInt16) (cs : List UInt16) :
    le16 (c :: cs) = UInt8.ofNat (c.toNat % 256) :: UInt8.ofNat (c.toNat / 256) :: le16 cs := by
  simp [le16]

theorem de16_le16 : ∀ u : List UInt16, de16 (le16 u) = u
  | [] => rfl
  | c :: cs => by
    rw [le16_cons, de16, de16_le16 cs]
    congr 1
    apply UInt16.toNat_inj.mp
    have := c.toNat_lt
    simp
    omega

theorem le16_inj {u v : List UInt16} (h : le16 u = le16 v) : u = v := by
  rw [← de16_le16 u, ← de16_le16 v, h]

theorem le16_length (u : List UInt16) : (le16 u).length = 2 * u.length := by
  induction u with
  | nil => rfl
  | cons c cs ih => rw [le16_cons]; simp [ih]; omega

theorem ascii_ne_bom {b : List UInt8} (hb : b.all asciiB = true) (u : List UInt16) : b ≠ le16 (BOM :: u) := by
  intro h
  rw [le16_cons] at h
  subst h
  simp [asciiB, BOM] at hb

/-- hashpre_iff_units: two NF strings write the same bytes into the hasher iff their units are equal -/
theorem hashpre_iff_units {a b : Str} (ha : NF a) (hb : NF b) : hashPre a = hashPre b ↔ units a = units b := by
  have h1 := devirt_nf ha
  have h2 := devirt_nf hb
  rw [← devirt_units a, ← devirt_units b]
  unfold hashPre keyOf
  cases hda : devirt a with
  | a s =>
    rw [hda] at h1
    cases hdb : devirt b with
    | a t => simp only [DV.units]; exact ⟨fun h => by rw [h], map_b2u_inj⟩
    | u v =>
      rw [hdb] at h2
      simp only [DV.units]
      exact ⟨fun h => absurd h (ascii_ne_bom h1 v), fun h => absurd h (ascii_ne_nonascii h1 h2)⟩
  | u u =>
    rw [hda] at h1
    cases hdb : devirt b with
    | a t =>
      rw [hdb] at h2
      simp only [DV.units]
      exact ⟨fun h => absurd h.symm (ascii_ne_bom h2 u), fun h => absurd h.symm (ascii_ne_nonascii h2 h1)⟩
    | u v =>
      simp only [DV.units]
      constructor
      · intro h
        have := le16_inj h
        simpa using this
      · intro h; rw [h]

/-- key_injective: the unistring property key distinguishes exactly the strings with different units -/
theorem key_injective {a b : Str} (ha : NF a) (hb : NF b) : keyOf a = keyOf b ↔ units a = units b :=
  hashpre_iff_units ha hb

/-- Map/Set lookup (hash, then SameAs) and `===` agree: equal hash preimage ⇔ StrictEquals -/
theorem hash_agrees_with_strictEq {a b : Str} (ha : NF a) (hb : NF b) :
    hashPre a = hashPre b ↔ strictEq a b = true := by
  rw [hashpre_iff_units ha hb, eq_iff_units ha hb]

theorem asUtf16_le16 {u : List UInt16} (hne : u ≠ []) : asUtf16 (le16 (BOM :: u)) = some u := by
  cases u with
  | nil => exact absurd rfl hne
  | cons c cs =>
    unfold asUtf16
    have hl : (le16 (BOM :: c :: cs)).length = 2 * (cs.length + 2) := by rw [le16_length]; simp
    rw [de16_le16]
    have h1 : ¬ (2 * (cs.length + 2) < 4) := by omega
    have h2 : 2 * (cs.length + 2) % 2 = 0 := by omega
    simp [hl, h1, h2]

theorem asUtf16_ascii {b : List UInt8} (hb : b.all asciiB = true) : asUtf16 b = none := by
  unfold asUtf16
  split
  · rfl
  · match b, hb with
    | [], _ => rfl
    | [_], _ => rfl
    | lo :: hi :: rest, hb =>
      simp only [de16]
      have hlo : lo.toNat < 128 := by
        simp only [List.all_cons, Bool.and_eq_true] at hb
        simpa [asciiB] using hb.1
      have hhi := hi.toNat_lt
      have : (UInt16.ofNat (lo.toNat + 256 * hi.toNat) == BOM) = false := by
        rw [beq_eq_false_iff_ne]
        intro h
        have := congrArg UInt16.toNat h
        simp [BOM] at this
        omega
      simp only [this, Bool.false_eq_true, if_false]

/-- key_roundtrip: string → unistring key → stringValueFromRaw gives back the same units, in normal form -/
theorem key_roundtrip {x : Str} (hx : NF x) :
    units (stringValueFromRaw (keyOf x)) = units x ∧ NF (stringValueFromRaw (keyOf x)) := by
  have h := devirt_nf hx
  rw [← devirt_units x]
  unfold keyOf stringValueFromRaw
  cases hd : devirt x with
  | a s =>
    rw [hd] at h
    simp only [asUtf16_ascii h, DV.units, units]
    exact ⟨trivial, h⟩
  | u u =>
    rw [hd] at h
    have hne : u ≠ [] := by
      intro e; subst e; simp [DV.NF] at h
    simp only [asUtf16_le16 hne, DV.units, units]
    exact ⟨trivial, h⟩

/-- AsUtf16 (FromUtf16 u) = u for every UTF-16 payload with at least one unit -/
theorem key_roundtrip_utf16 {u : List UInt16} (hne : u ≠ []) : asUtf16 (le16 (BOM :: u)) = some u :=
  asUtf16_le16 hne

/-! ## StringBuilder / unicodeStringBuilder -/

theorem sb_inv_empty : SB.empty.Inv := by simp [SB.Inv, SB.empty]

theorem sb_switch {b : SB} (h : b.Inv) :
    b.switchToUnicode.Inv ∧ b.switchToUnicode.started = true ∧ b.switchToUnicode.units = b.units := by
  obtain ⟨h1, h2, h3, h4⟩ := h
  unfold SB.switchToUnicode
  by_cases hst : b.started = true
  · rw [if_pos hst]
    exact ⟨⟨h1, h2, h3, h4⟩, hst, rfl⟩
  · rw [if_neg hst]
    have hst' : b.started = false := by simpa using hst
    obtain ⟨h5, h6⟩ := h2 hst'
    simp [SB.Inv, SB.units, h5, h6, h1]
    exact nonAscii_b2u_of_all h1

/-- builder_units / builder_nf: WriteString appends the operand's units and keeps the invariant -/
theorem sb_writeString {b : SB} {s : Str} (h : b.Inv) (hs : NF s) :
    (b.writeString s).Inv ∧ (b.writeString s).units = b.units ++ units s := by
  have hd := devirt_nf hs
  obtain ⟨⟨k1, k2, k3, k4⟩, kst, ku⟩ := sb_switch h
  obtain ⟨h1, h2, h3, h4⟩ := h
  rw [← devirt_units s]
  unfold SB.writeString
  cases hdv : devirt s with
  | a a =>
    rw [hdv] at hd
    simp only [DV.NF] at hd
    cases hst : b.started
    · obtain ⟨h5, h6⟩ := h2 hst
      simp [SB.Inv, SB.units, DV.units, hst, h5, h6, h1, hd]
    · simp [SB.Inv, SB.units, DV.units, hst, h1, h3 hst, h4, any_nonAscii_map_b2u, hd]
      intro x hx hn
      rw [nonAscii_b2u_of_all hd x hx] at hn
      cases hn
  | u u =>
    rw [hdv] at hd
    simp only [DV.NF] at hd
    simp only [SB.units] at ku
    simp [SB.Inv, SB.units, DV.units, k1, kst, k3 kst, hd, ← ku]

theorem nonAsciiU_ofNat {r : Nat} (h : r ≤ 0xFFFF) : nonAsciiU (UInt16.ofNat r) = decide (0x80 ≤ r) := by
  have : r % 65536 = r := by omega
  simp [nonAsciiU, asciiU, this]
  by_cases h2 : r < 128 <;> simp [h2] <;> omega

theorem sb_writeRuneFast {b : SB} {r : Nat} (h : b.Inv) (hst : b.started = true) (hr : r ≤ 0x10FFFF) :
    (b.writeRuneFast r).Inv ∧ (b.writeRuneFast r).started = true ∧
      (b.writeRuneFast r).units = b.units ++ utf16One r := by
  obtain ⟨h1, h2, h3, h4⟩ := h
  unfold SB.writeRuneFast
  split
  · rename_i hle
    simp [SB.Inv, SB.units, hst, h1, h3 hst, h4, utf16One, hle, nonAsciiU_ofNat hle]
  · rename_i hgt
    have hna : (utf16One r).any nonAsciiU = true := by
      have := utf16One_head_nonascii (r := r) (by omega) hr []
      simpa using this
    simp [SB.Inv, SB.units, hst, h1, h3 hst, hna]

/-- WriteRune appends the UTF-16 encoding of the rune; a surrogate code point is appended AS IS -/
theorem sb_writeRune {b : SB} {r : Nat} (h : b.Inv) (hr : r ≤ 0x10FFFF) :
    (b.writeRune r).Inv ∧ (b.writeRune r).units = b.units ++ utf16One r := by
  unfold SB.writeRune
  split
  · rename_i hlt
    cases hst : b.started
    · obtain ⟨h1, h2, h3, h4⟩ := h
      obtain ⟨h5, h6⟩ := h2 hst
      have e1 : asciiB (UInt8.ofNat r) = true := by
        have : r % 256 = r := by omega
        simp [asciiB, this]; omega
      have e2 : b2u (UInt8.ofNat r) = UInt16.ofNat r := by
        apply UInt16.toNat_inj.mp
        simp; omega
      have e3 : utf16One r = [UInt16.ofNat r] := by simp [utf16One]; omega
      simp [SB.Inv, SB.units, hst, h1, h5, h6, e1, e2, e3]
    · simp only [if_true]
      have := sb_writeRuneFast h hst hr
      exact ⟨this.1, this.2.2⟩
  · obtain ⟨k, kst, ku⟩ := sb_switch h
    have := sb_writeRuneFast k kst hr
    exact ⟨this.1, by rw [this.2.2, ku]⟩

/-- lone_surrogate_preserved (builder): writing the code point of a surrogate appends exactly that unit -/
theorem sb_writeRune_surrogate {b : SB} {r : Nat} (h : b.Inv) (hr : 0xD800 ≤ r ∧ r ≤ 0xDFFF) :
    (b.writeRune r).units = b.units ++ [UInt16.ofNat r] := by
  have := (sb_writeRune h (r := r) (by omega)).2
  rw [this]
  simp [utf16One]
  omega

theorem decodeS_le : ∀ (s : List UInt8) (k : Nat), ∀ r ∈ decodeS k s, r ≤ 0x10FFFF
  | [], _, r, hr => by simp [decodeS] at hr
  | b :: bs, k + 1, r, hr => by
    simp only [decodeS] at hr
    exact decodeS_le bs k r hr
  | b :: bs, 0, r, hr => by
    simp only [decodeS, List.mem_cons] at hr
    rcases hr with rfl | hr
    · by_cases hb : b.toNat < 128
      · have : asciiB b = true := by simp [asciiB, hb]
        rw [decodeRune_ascii bs this]
        simp only
        omega
      · exact (decodeRune_bounds b bs hb).2
    · exact decodeS_le bs _ r hr

theorem sb_foldl_writeRuneFast : ∀ (rs : List Nat) {b : SB}, b.Inv → b.started = true → (∀ r ∈ rs, r ≤ 0x10FFFF) →
    (rs.foldl SB.writeRuneFast b).Inv ∧ (rs.foldl SB.writeRuneFast b).units = b.units ++ utf16 rs
  | [], b, h, _, _ => by simp [utf16, h]
  | r :: rs, b, h, hst, hr => by
    have h1 := sb_writeRuneFast h hst (hr r (by simp))
    have h2 := sb_foldl_writeRuneFast rs h1.1 h1.2.1 (fun x hx => hr x (by simp [hx]))
    simp only [List.foldl_cons]
    exact ⟨h2.1, by rw [h2.2, h1.2.2, utf16_cons]; simp⟩

theorem utf16_decode_takeWhile : ∀ s : List UInt8,
    utf16 (decode s) = (s.takeWhile asciiB).map b2u ++ utf16 (decode (s.dropWhile asciiB))
  | [] => rfl
  | b :: bs => by
    by_cases hb : asciiB b = true
    · have ih := utf16_decode_takeWhile bs
      simp only [decode] at ih ⊢
      simp only [List.takeWhile_cons, List.dropWhile_cons, hb, if_true, decodeS, decodeRune_ascii bs hb, utf16_cons,
        utf16One_ascii b hb, List.map_cons]
      simpa using ih
    · simp [List.takeWhile_cons, List.dropWhile_cons, hb]

/-- WriteUTF8String appends the leniently decoded units of the Go string -/
theorem sb_writeUTF8 {b : SB} (h : b.Inv) (s : List UInt8) :
    (b.writeUTF8 s).Inv ∧ (b.writeUTF8 s).units = b.units ++ utf16 (decode s) := by
  unfold SB.writeUTF8
  split
  · rename_i hst
    exact sb_foldl_writeRuneFast _ h hst (decodeS_le s 0)
  · rename_i hst
    have hst' : b.started = false := by simpa using hst
    split
    · rename_i hall
      obtain ⟨h1, h2, h3, h4⟩ := h
      obtain ⟨h5, h6⟩ := h2 hst'
      simp [SB.Inv, SB.units, hst', h1, h5, h6, hall, utf16_decode_ascii hall]
    · obtain ⟨⟨k1, k2, k3, k4⟩, kst, ku⟩ := sb_switch h
      have hpre : ((s.takeWhile asciiB).map b2u).any nonAsciiU = false := by
        rw [any_nonAscii_map_b2u]
        simp [all_takeWhile asciiB s]
      have hinv : SB.Inv { b.switchToUnicode with ubuf := b.switchToUnicode.ubuf ++ (s.takeWhile asciiB).map b2u } := by
        simp [SB.Inv, k1, kst, k3 kst, k4, hpre]
      have := sb_foldl_writeRuneFast (decode (s.dropWhile asciiB)) hinv kst (decodeS_le _ 0)
      refine ⟨this.1, ?_⟩
      rw [this.2, utf16_decode_takeWhile s]
      simp only [SB.units] at ku ⊢
      rw [← List.append_assoc, ← List.append_assoc, ← ku]

/-- WriteSubstring (as repaired by 58560e3) appends the slice's units; the `unicode` flag follows the slice -/
theorem sb_writeSubstring {b : SB} {src : Str} (h : b.Inv) (hs : NF src) (st en : Nat) :
    (b.writeSubstring src st en).Inv ∧ (b.writeSubstring src st en).units = b.units ++ slice (units src) st en := by
  have hd := devirt_nf hs
  obtain ⟨⟨k1, k2, k3, k4⟩, kst, ku⟩ := sb_switch h
  obtain ⟨h1, h2, h3, h4⟩ := h
  rw [← devirt_units src]
  unfold SB.writeSubstring
  cases hdv : devirt src with
  | a a =>
    rw [hdv] at hd
    simp only [DV.NF] at hd
    have hsl := all_slice hd st en
    cases hst : b.started
    · obtain ⟨h5, h6⟩ := h2 hst
      simp [SB.Inv, SB.units, DV.units, hst, h5, h6, h1, hsl, slice_map]
    · simp [SB.Inv, SB.units, DV.units, hst, h1, h3 hst, h4, any_nonAscii_map_b2u, hsl, slice_map]
      intro x hx hn
      rw [nonAscii_b2u_of_all hsl x hx] at hn
      cases hn
  | u us =>
    simp only [DV.units]
    cases hst : b.started
    · obtain ⟨h5, h6⟩ := h2 hst
      simp only [Bool.false_eq_true, if_false]
      split
      · rename_i hany
        simp only [SB.units] at ku
        simp [SB.Inv, SB.units, k1, kst, k3 kst, k4, hany, ← ku]
      · rename_i hany
        have hall : (slice us st en).all asciiU = true := by
          rw [any_nonAscii_eq_not_all] at hany
          simpa using hany
        simp [SB.Inv, SB.units, hst, h5, h6, h1, all_asciiB_u2b hall, map_b2u_u2b hall]
    · simp [SB.Inv, SB.units, hst, h1, h3 hst, h4]

/-- builder_nf: String() returns a normal-form value (downgrading to ASCII storage when the flag is off)
whose units are exactly what was written -/
theorem sb_toStr {b : SB} (h : b.Inv) : NF b.toStr ∧ units b.toStr = b.units := by
  obtain ⟨h1, h2, h3, h4⟩ := h
  unfold SB.toStr
  cases hst : b.started
  · obtain ⟨h5, h6⟩ := h2 hst
    simp [NF, units, SB.units, h1, h5]
  · simp only [if_true]
    cases hu : b.unicode
    · have hall : b.ubuf.all asciiU = true := by
        rw [hu, any_nonAscii_eq_not_all] at h4
        simpa using h4.symm
      simp [NF, units, SB.units, h3 hst, all_asciiB_u2b hall, map_b2u_u2b hall]
    · rw [hu] at h4
      simp [NF, units, SB.units, h3 hst, ← h4]

/-- the regression repaired by 58560e3: setting the flag unconditionally in UTF-16 mode yields a
UTF-16-stored "ab" — not in normal form, and `!==` the ASCII-stored "ab" although the units are equal. -/
theorem writeSubstring_unconditional_flag_breaks_nf :
    ¬ NF sbOldExample.toStr ∧ units sbOldExample.toStr = units (.ascii [0x61, 0x62]) ∧
      strictEq sbOldExample.toStr (.ascii [0x61, 0x62]) = false := by
  refine ⟨?_, by decide, by decide⟩
  have : sbOldExample.toStr = .uni [0x61, 0x62] := by decide
  rw [this]
  simp only [NF]
  decide

/-! ## unistring.Scan: the two-pass mechanism equals the one-pass specification -/

theorem fillUnits_eq_utf16 : ∀ rs : List Nat, fillUnits rs = utf16 rs
  | [] => rfl
  | r :: rs => by
    rw [utf16_cons, fillUnits, fillUnits_eq_utf16 rs]
    simp [utf16One, scanFillTest]

theorem countUnits_eq_length : ∀ rs : List Nat, countUnits rs = (utf16 rs).length
  | [] => rfl
  | r :: rs => by
    rw [utf16_cons, countUnits, countUnits_eq_length rs, List.length_append]
    by_cases h : r ≤ 0xFFFF
    · have : ¬ r > 0xFFFF := by omega
      simp [utf16One, scanCountTest, h, this]
    · have : r > 0xFFFF := by omega
      simp [utf16One, scanCountTest, h, this]

/-- the buffer allocated by pass 1 has exactly 1 (BOM) + #units elements: `scanSize` counts the units -/
theorem scanSize_eq_length (s : List UInt8) : scanSize s = (utf16 (decode s)).length := by
  rw [utf16_decode_takeWhile s, List.length_append, List.length_map, scanSize, countUnits_eq_length]

/-- scan_units: what the two passes of unistring.Scan return is the leniently decoded unit sequence, no more, no less -/
theorem scanTwoPass_eq_scan (s : List UInt8) : scanTwoPass s = scan s := by
  unfold scanTwoPass scan
  split
  · rfl
  · rw [fillUnits_eq_utf16, scanSize_eq_length]
    simp

/-- regression lemma for the seeded off-by-one (`chr >= 0xFFFF` in the counting pass): counting U+FFFF as two units
makes the buffer one longer than the units written, i.e. a trailing 0x0000 unit. -/
theorem scan_count_geq_prefix_witness :
    (if (0xFFFF : Nat) ≥ 0xFFFF then 2 else 1) + countUnits [] ≠ (utf16 [0xFFFF]).length := by
  decide

/-! ## concatStrings (template literals) -/

theorem concatStrings_units (l : List Str) : units (concatStrings l) = l.flatMap units := by
  simp only [concatStrings]
  have key : ∀ l : List Str, ((l.map devirt).flatMap DV.units) = l.flatMap units := by
    intro l
    induction l with
    | nil => rfl
    | cons x xs ih => simp [devirt_units, ih]
  have key2 : ∀ ds : List DV, ds.all DV.isA = true → (ds.flatMap DV.bytes).map b2u = ds.flatMap DV.units := by
    intro ds
    induction ds with
    | nil => intro _; rfl
    | cons d ds ih =>
      intro h
      simp only [List.all_cons, Bool.and_eq_true] at h
      cases d with
      | a bs => simp [DV.bytes, DV.units, ih h.2]
      | u us => simp [DV.isA] at h
  split
  · rename_i h
    simp only [units]
    rw [key2 _ h, key]
  · simp only [units]
    exact key l

theorem nf_concatStrings {l : List Str} (hl : ∀ x ∈ l, NF x) : NF (concatStrings l) := by
  simp only [concatStrings]
  have hdv : ∀ d ∈ l.map devirt, d.NF := by
    intro d hd
    obtain ⟨x, hx, rfl⟩ := List.mem_map.mp hd
    exact devirt_nf (hl x hx)
  generalize l.map devirt = ds at hdv
  split
  · rename_i h
    simp only [NF]
    rw [List.all_eq_true]
    intro c hc
    obtain ⟨d, hd, hcd⟩ := List.mem_flatMap.mp hc
    have hA := (List.all_eq_true.mp h) d hd
    have hN := hdv d hd
    cases d with
    | a bs => exact (List.all_eq_true.mp hN) c hcd
    | u us => simp [DV.isA] at hA
  · rename_i h
    simp only [NF]
    have : ∃ d ∈ ds, DV.isA d = false := by
      have h' : ds.all DV.isA = false := by simpa using h
      rw [List.all_eq_false] at h'
      obtain ⟨d, hd, hdA⟩ := h'
      exact ⟨d, hd, by simpa using hdA⟩
    obtain ⟨d, hd, hdA⟩ := this
    have hN := hdv d hd
    cases d with
    | a bs => simp [DV.isA] at hdA
    | u us =>
      simp only [DV.NF] at hN
      obtain ⟨c, hc, hcn⟩ := List.any_eq_true.mp hN
      exact List.any_eq_true.mpr ⟨c, List.mem_flatMap.mpr ⟨.u us, hd, hc⟩, hcn⟩

/-! ## lone surrogates: units are never rewritten -/

/-- a unit of either operand (a lone surrogate in particular) is a unit of the concatenation, and nothing else is -/
theorem concat_mem (x y : Str) (c : UInt16) : c ∈ units (concat x y) ↔ c ∈ units x ∨ c ∈ units y := by
  rw [concat_units x y, List.mem_append]

/-! ## lenientUtf16Decoder (string iteration, JSON.stringify quoting, regexp position maps) -/

/-- The decoder with its push-back yields exactly the spec's code-point segmentation, for every unit list, every
pending pushed-back unit and any sufficient fuel.  (A pushed-back unit is re-examined: `D800 D83D DE00` is the lone
D800 followed by ONE code point.) -/
theorem lenientF_eq_codePoints : ∀ (fuel : Nat) (prev : Option UInt16) (input : List UInt16),
    prev.toList.length + input.length < fuel →
    Spec.lenientF fuel prev input = Spec.codePoints (prev.toList ++ input)
  | 0, _, _, h => by omega
  | fuel + 1, none, [], _ => by simp [Spec.lenientF, Spec.codePoints]
  | fuel + 1, none, [c], _ => by
    by_cases hc : Spec.isHi c = true
    · simp [Spec.lenientF, Spec.codePoints, hc]
    · cases fuel <;> simp [Spec.lenientF, Spec.codePoints, hc]
  | fuel + 1, none, c :: d :: rest, h => by
    simp only [Option.toList, List.nil_append, List.length_nil, List.length_cons] at h
    by_cases hc : Spec.isHi c = true
    · by_cases hd : Spec.isLo d = true
      · have ih := lenientF_eq_codePoints fuel none rest (by simp; omega)
        simp only [Option.toList, List.nil_append] at ih
        simp [Spec.lenientF, Spec.codePoints, hc, hd, ih]
      · have ih := lenientF_eq_codePoints fuel (some d) rest (by simp; omega)
        simp only [Option.toList, List.singleton_append] at ih
        simp [Spec.lenientF, Spec.codePoints, hc, hd, ih]
    · have ih := lenientF_eq_codePoints fuel none (d :: rest) (by simp; omega)
      simp only [Option.toList, List.nil_append] at ih
      simp [Spec.lenientF, Spec.codePoints, hc, ih]
  | fuel + 1, some c, [], _ => by
    by_cases hc : Spec.isHi c = true
    · simp [Spec.lenientF, Spec.codePoints, hc]
    · cases fuel <;> simp [Spec.lenientF, Spec.codePoints, hc]
  | fuel + 1, some c, d :: rest, h => by
    simp only [Option.toList, List.singleton_append, List.length_cons, List.length_nil] at h
    by_cases hc : Spec.isHi c = true
    · by_cases hd : Spec.isLo d = true
      · have ih := lenientF_eq_codePoints fuel none rest (by simp; omega)
        simp only [Option.toList, List.nil_append] at ih
        simp [Spec.lenientF, Spec.codePoints, hc, hd, ih]
      · have ih := lenientF_eq_codePoints fuel (some d) rest (by simp; omega)
        simp only [Option.toList, List.singleton_append] at ih
        simp [Spec.lenientF, Spec.codePoints, hc, hd, ih]
    · have ih := lenientF_eq_codePoints fuel none (d :: rest) (by simp; omega)
      simp only [Option.toList, List.nil_append] at ih
      simp [Spec.lenientF, Spec.codePoints, hc, ih]

/-- string iteration / JSON.stringify / regexp see the spec's code points of any unit list -/
theorem lenientDecode_eq_codePoints (s : List UInt16) : Spec.lenientDecode s = Spec.codePoints s := by
  have := lenientF_eq_codePoints (s.length + 1) none s (by simp)
  simpa [Spec.lenientDecode] using this

/-- regression lemma for the seeded change C06-m4 (returning the pushed-back unit as it is): on `D800 D83D DE00` the
spec has two code points (the lone D800 and U+1F600) — the changed decoder produced three. -/
theorem lenient_pushback_reexamined_witness :
    Spec.lenientDecode [0xD800, 0xD83D, 0xDE00] = [0xD800, 0x1F600] := by
  decide

/-! ## non-vacuity (tests on literals, not proofs of the property) -/

-- NF is satisfiable in all three representations, on non-trivial values
example : NF (.ascii [0x61, 0x62]) ∧ NF (.uni [0x61, 0xD800]) ∧ NF (.imp [0xff, 0x61] false) := by
  refine ⟨?_, ?_, trivial⟩ <;> simp only [NF] <;> decide
-- the builder invariant holds in a state that is in UTF-16 mode with a non-ASCII unit
example : (SB.empty.writeRune 0xD800).Inv := (sb_writeRune sb_inv_empty (by decide)).1
example : (SB.empty.writeRune 0xD800).toStr = .uni [0xD800] := by decide
-- both branches of the guarded shortcut are reachable
example : junctionSafe [0x62] = true ∧ junctionSafe [0xA9] = false := by decide
-- three representations of "é" are pairwise StrictEqual in both directions
example : strictEq (.uni [0xe9]) (.imp [0xc3, 0xa9] false) = true ∧ strictEq (.imp [0xc3, 0xa9] true) (.uni [0xe9]) = true := by
  decide

end GojaModel.C06
