/-
  C06 — property theorems, second module (deepening round 2).  Audited like Props.lean (every `theorem` is one proof
  obligation).  trimString (trim / trimStart / trimEnd) and String.raw: mechanism (Builtins2.lean) ⊑ spec, NF preserved.
-/
import GojaModel.C06.Props
import GojaModel.C06.Builtins2
namespace GojaModel.C06
open Builtins

theorem isWsUnit_eq (c : UInt16) : isWsUnit c = Spec.isWS c := by
  unfold isWsUnit
  cases h : Spec.isWS c
  · simp
  · have : (Spec.isHi c || Spec.isLo c) = false := by
      simp only [Spec.isWS, Bool.or_eq_true, beq_iff_eq, Bool.and_eq_true, decide_eq_true_eq] at h
      simp only [Spec.isHi, Spec.isLo, Bool.or_eq_false_iff, Bool.and_eq_false_iff, decide_eq_false_iff_not]
      omega
    simp [this]

theorem getD_eq_getElem {α : Type} (l : List α) (i : Nat) (d : α) (h : i < l.length) : l.getD i d = l[i] := by
  simp [List.getD, List.getElem?_eq_getElem h]

/-- the left loop stops after the leading white-space units of `u.drop start` -/
theorem leftLoop_spec (u : List UInt16) : ∀ (fuel start : Nat), start ≤ u.length → u.length - start ≤ fuel →
    leftLoop u fuel start u.length = start + ((u.drop start).takeWhile Spec.isWS).length
  | 0, start, h1, h2 => by
    have : start = u.length := by omega
    subst this
    simp [leftLoop]
  | f + 1, start, h1, h2 => by
    simp only [leftLoop]
    by_cases hlt : start < u.length
    · rw [List.drop_eq_getElem_cons hlt, List.takeWhile_cons, getD_eq_getElem u start 0 hlt, isWsUnit_eq]
      cases hw : Spec.isWS u[start]
      · simp [hlt]
      · simp only [hlt, decide_true, Bool.and_self, if_true, List.length_cons]
        rw [leftLoop_spec u f (start + 1) (by omega) (by omega)]
        omega
    · have : start = u.length := by omega
      subst this
      simp

def trimEndS (m : List UInt16) : List UInt16 := (m.reverse.dropWhile Spec.isWS).reverse

theorem trimEndS_snoc_ws (m : List UInt16) (x : UInt16) (h : Spec.isWS x = true) : trimEndS (m ++ [x]) = trimEndS m := by
  simp [trimEndS, List.dropWhile_cons, h]

theorem trimEndS_snoc_not (m : List UInt16) (x : UInt16) (h : Spec.isWS x = false) : trimEndS (m ++ [x]) = m ++ [x] := by
  simp [trimEndS, List.dropWhile_cons, h]

theorem slice_snoc (u : List UInt16) (start en : Nat) (h1 : start < en) (h2 : en ≤ u.length) :
    slice u start en = slice u start (en - 1) ++ [u[en - 1]'(by omega)] := by
  have hlt : en - 1 < u.length := by omega
  simp only [slice]
  have e1 : en - start = (en - 1 - start) + 1 := by omega
  rw [e1, List.take_succ]
  congr 1
  have : (List.drop start u)[en - 1 - start]? = some u[en - 1] := by
    rw [List.getElem?_drop]
    have : start + (en - 1 - start) = en - 1 := by omega
    rw [this, List.getElem?_eq_getElem hlt]
  rw [this]; rfl

/-- the right loop stops at the end of the slice with its trailing white space removed -/
theorem rightLoop_spec (u : List UInt16) : ∀ (fuel start en : Nat), start ≤ en → en ≤ u.length → en - start ≤ fuel →
    rightLoop u fuel start en = start + (trimEndS (slice u start en)).length
  | 0, start, en, h1, h2, h3 => by
    have : en = start := by omega
    subst this
    simp [rightLoop, slice_self, trimEndS]
  | f + 1, start, en, h1, h2, h3 => by
    simp only [rightLoop]
    by_cases hgt : en > start
    · have hlt : en - 1 < u.length := by omega
      rw [getD_eq_getElem u (en - 1) 0 hlt, isWsUnit_eq, slice_snoc u start en hgt h2]
      cases hw : Spec.isWS u[en - 1]
      · simp only [hgt, decide_true, Bool.and_false, Bool.false_eq_true, if_false]
        rw [trimEndS_snoc_not _ _ hw]
        simp [slice]; omega
      · simp only [hgt, decide_true, Bool.and_self, if_true]
        rw [trimEndS_snoc_ws _ _ hw, rightLoop_spec u f start (en - 1) (by omega) (by omega) (by omega)]
    · have : en = start := by omega
      subst this
      simp [slice_self, trimEndS]

theorem drop_takeWhile_length {α : Type} (p : α → Bool) : ∀ l : List α, l.drop (l.takeWhile p).length = l.dropWhile p
  | [] => rfl
  | a :: as => by
    by_cases h : p a = true
    · simp [List.takeWhile_cons, List.dropWhile_cons, h, drop_takeWhile_length p as]
    · simp [List.takeWhile_cons, List.dropWhile_cons, h]

theorem takeWhile_length_le {α : Type} (p : α → Bool) : ∀ l : List α, (l.takeWhile p).length ≤ l.length
  | [] => by simp
  | a :: as => by
    by_cases h : p a = true
    · simp [List.takeWhile_cons, h, takeWhile_length_le p as]
    · simp [List.takeWhile_cons, h]

theorem trimEndS_take (x : List UInt16) : x.take (trimEndS x).length = trimEndS x := by
  have h := List.takeWhile_append_dropWhile (p := Spec.isWS) (l := x.reverse)
  have hx : x = trimEndS x ++ (x.reverse.takeWhile Spec.isWS).reverse := by
    have := congrArg List.reverse h
    simp only [List.reverse_append, List.reverse_reverse] at this
    exact this.symm
  have key : (trimEndS x ++ (x.reverse.takeWhile Spec.isWS).reverse).take (trimEndS x).length = trimEndS x := by simp
  rw [← hx] at key
  exact key

theorem map_dropWhile_ws : ∀ a : List UInt8, (a.dropWhile wsB).map b2u = (a.map b2u).dropWhile Spec.isWS
  | [] => rfl
  | b :: bs => by
    by_cases h : wsB b = true
    · have h' : Spec.isWS (b2u b) = true := h
      simp [List.dropWhile_cons, h, h', map_dropWhile_ws bs]
    · have h' : ¬ Spec.isWS (b2u b) = true := h
      simp [List.dropWhile_cons, h, h']

theorem all_dropWhile {α : Type} (p q : α → Bool) {l : List α} (h : l.all p = true) : (l.dropWhile q).all p = true := by
  rw [List.all_eq_true] at h ⊢
  intro x hx
  exact h x ((List.dropWhile_sublist q).subset hx)

/-- trimString as coded (trim = both, trimStart = left, trimEnd = right) = the spec's trimming on units, in normal
form; units that are not white space — lone surrogates in particular — are never touched -/
theorem trimM_spec {s : Str} (hs : NF s) (left right : Bool) :
    NF (trimM s left right) ∧
      units (trimM s left right) =
        (if right then Spec.trimEnd (if left then Spec.trimStart (units s) else units s)
         else (if left then Spec.trimStart (units s) else units s)) := by
  have hd := devirt_units s
  have hn := devirt_nf hs
  unfold trimM
  rw [← hd]
  cases hS : devirt s with
  | a a =>
    rw [hS] at hn
    simp only [DV.NF] at hn
    simp only [DV.units]
    have ua : ∀ b : List UInt8, units (.ascii b) = b.map b2u := fun _ => rfl
    refine ⟨?_, ?_⟩
    · simp only [NF]
      cases left <;> cases right <;>
        simp only [if_true, Bool.false_eq_true, if_false, List.all_reverse] <;>
        first
          | exact hn
          | exact all_dropWhile _ _ hn
          | exact all_dropWhile _ _ (by rw [List.all_reverse]; exact hn)
          | exact all_dropWhile _ _ (by rw [List.all_reverse]; exact all_dropWhile _ _ hn)
    · rw [ua]
      cases left <;> cases right <;>
        simp only [if_true, Bool.false_eq_true, if_false, Spec.trimEnd, Spec.trimStart, List.map_reverse,
          map_dropWhile_ws]
  | u u =>
    simp only [DV.units]
    have hstart : (if left then leftLoop u u.length 0 u.length else 0) =
        (if left then (u.takeWhile Spec.isWS).length else 0) := by
      cases left
      · rfl
      · simp only [if_true]
        have := leftLoop_spec u u.length 0 (Nat.zero_le _) (by omega)
        simpa using this
    have hx : u.drop (if left then (u.takeWhile Spec.isWS).length else 0) =
        (if left then Spec.trimStart u else u) := by
      cases left
      · simp
      · simp only [if_true, Spec.trimStart]
        exact drop_takeWhile_length _ u
    have hle : (if left then (u.takeWhile Spec.isWS).length else 0) ≤ u.length := by
      cases left
      · simp
      · simp only [if_true]; exact takeWhile_length_le _ u
    rw [hstart]
    have w := uniSubstring_spec u (if left then (u.takeWhile Spec.isWS).length else 0)
      (if right then rightLoop u u.length (if left then (u.takeWhile Spec.isWS).length else 0) u.length else u.length)
    refine ⟨w.1, ?_⟩
    rw [w.2]
    cases right
    · simp only [Bool.false_eq_true, if_false]
      rw [slice_to_end, hx]
    · simp only [if_true]
      rw [rightLoop_spec u u.length _ u.length hle (Nat.le_refl _) (by omega), slice_to_end, hx]
      simp only [slice]
      have e : ∀ a k : Nat, a + k - a = k := by intro a k; omega
      rw [e, hx]
      exact trimEndS_take _

theorem rawLoopM_spec : ∀ (segs subs : List Str) {b : SB}, b.Inv → (∀ x ∈ segs, NF x) → (∀ x ∈ subs, NF x) →
    (rawLoopM segs subs b).Inv ∧
      (rawLoopM segs subs b).units = b.units ++ Spec.rawS (segs.map units) (subs.map units)
  | [], _, b, h, _, _ => by simp [rawLoopM, Spec.rawS, h]
  | [seg], subs, b, h, hs, _ => by
    have w := sb_writeString h (hs seg (by simp))
    simpa [rawLoopM, Spec.rawS] using w
  | seg :: seg2 :: segs, [], b, h, hs, hx => by
    have w := sb_writeString h (hs seg (by simp))
    have ih := rawLoopM_spec (seg2 :: segs) [] w.1 (fun x hx' => hs x (by simp [hx'])) hx
    simp only [rawLoopM, List.map_cons, List.map_nil, Spec.rawS]
    simp only [List.map_cons, List.map_nil] at ih
    exact ⟨ih.1, by rw [ih.2, w.2, List.append_assoc]⟩
  | seg :: seg2 :: segs, x :: xs, b, h, hs, hx => by
    have w := sb_writeString h (hs seg (by simp))
    have w2 := sb_writeString w.1 (hx x (by simp))
    have ih := rawLoopM_spec (seg2 :: segs) xs w2.1 (fun y hy => hs y (by simp [hy])) (fun y hy => hx y (by simp [hy]))
    simp only [rawLoopM, List.map_cons, Spec.rawS]
    simp only [List.map_cons] at ih
    exact ⟨ih.1, by rw [ih.2, w2.2, w.2]; simp⟩

/-- String.raw as coded = the spec's interleaving of raw segments and substitutions on units, in normal form -/
theorem rawM_spec {segs subs : List Str} (hs : ∀ x ∈ segs, NF x) (hx : ∀ x ∈ subs, NF x) :
    NF (rawM segs subs) ∧ units (rawM segs subs) = Spec.rawS (segs.map units) (subs.map units) := by
  unfold rawM
  cases segs with
  | nil => exact ⟨nf_emptyStr, rfl⟩
  | cons seg rest =>
    simp only [List.isEmpty_cons, Bool.false_eq_true, if_false]
    have w := rawLoopM_spec (seg :: rest) subs sb_inv_empty hs hx
    refine ⟨(sb_toStr w.1).1, ?_⟩
    rw [(sb_toStr w.1).2, w.2]
    simp [SB.units, SB.empty]
end GojaModel.C06
