/-
  C06 model driver (line protocol, core Lean only).

  Stream A — Go-API register machine (mechanism-level model, representation tags predicted exactly):
    reset
    tv d HEXBYTES | nsv d HEXBYTES | u16 d HEXUNITS | raw d s
    cat d a b | sub d a p q | tpl d a b c...
    dump a | len a | cmp a b | seq a b | same a b | heq a b
    sbnew k | sbws k a | sbwsub k a p q | sbwr k HEXRUNE | sbw8 k HEXBYTES | sblu k n | sbstr d k
  Value-producing ops answer the representation tag; a suffix ` !SPEC` / ` !NF` is appended by the model
  (only) when the mechanism's result differs from the specification on units / is not in normal form.
  Stream B — `E tok tok ...`: SPEC evaluation of an expression tree in RPN; answer = hex of the units.
-/
import GojaModel.Base.Proto
import GojaModel.C06.Model
import GojaModel.C06.Spec
import GojaModel.C06.Builtins
import GojaModel.C06.Builtins2
import GojaModel.C06.Builtins3
namespace GojaModel.C06.Driver
open GojaModel.C06 GojaModel.Proto

structure St where
  regs : List (Nat × Str) := []
  sbs : List (Nat × SB) := []

def St.get (s : St) (k : Nat) : Option Str := (s.regs.find? (·.1 == k)).map (·.2)
def St.set (s : St) (k : Nat) (v : Str) : St := { s with regs := (k, v) :: s.regs.filter (·.1 != k) }
def St.getSB (s : St) (k : Nat) : Option SB := (s.sbs.find? (·.1 == k)).map (·.2)
def St.setSB (s : St) (k : Nat) (v : SB) : St := { s with sbs := (k, v) :: s.sbs.filter (·.1 != k) }

def nat? (s : String) : Option Nat := Spec.parseNat? s.toList

/-- "-" denotes the empty hex payload -/
def hx (s : String) : List Char := if s == "-" then [] else s.toList

/-- answer of a value-producing op: tag (+ markers when mechanism ≠ spec) -/
def answer (r : Str) (specUnits : List UInt16) : String :=
  tag r ++ (if units r == specUnits then "" else " !SPEC") ++ (if nfb r then "" else " !NF")

def subRange (len p q : Nat) : Nat × Nat :=
  let st := min p len
  (st, min (max q st) len)

def getAll (s : St) : List String → Option (List (Nat × Str))
  | [] => some []
  | w :: ws => do
    let k ← nat? w
    let v ← s.get k
    let r ← getAll s ws
    pure ((k, v) :: r)

def sgn (i : Int) : String := if i < 0 then "-1" else if i > 0 then "1" else "0"

def step (s : St) (line : String) : St × String :=
  let bad := (s, "ERR")
  match words line with
  | "E" :: toks =>
    match Spec.evalRPN toks with
    | some u => (s, "u=" ++ Spec.hexOfUnits u)
    | none => bad
  | ["X", h] =>
    -- SPEC observations derived from a unit list: QuoteJSONString and the code-point segmentation
    match Spec.parseUnits (hx h) with
    | some u => (s, "q=" ++ Spec.hexOfUnits (Spec.jsonQuote u) ++ " cp=" ++
        String.join ((Spec.codePoints u).map Spec.hex6) ++ " it=" ++ String.join ((Spec.lenientDecode u).map Spec.hex6))
    | none => bad
  | ["reset"] => ({}, "ok")
  | ["tv", d, h] =>
    match nat? d, Spec.parseBytes (hx h) with
    | some d, some b => let r := toValue b; (s.set d r, answer r (utf16 (decode b)))
    | _, _ => bad
  | ["nsv", d, h] =>
    match nat? d, Spec.parseBytes (hx h) with
    | some d, some b => let r := newStringValue b; (s.set d r, answer r (utf16 (decode b)))
    | _, _ => bad
  | ["u16", d, h] =>
    match nat? d, Spec.parseUnits (hx h) with
    | some d, some u => let r := stringFromUTF16 u; (s.set d r, answer r u)
    | _, _ => bad
  | ["raw", d, a] =>
    match nat? d, nat? a with
    | some d, some a =>
      match s.get a with
      | some x => let r := stringValueFromRaw (keyOf x); ((s.set a (touch x)).set d r, answer r (units x))
      | none => bad
    | _, _ => bad
  | ["cat", d, a, b] =>
    match nat? d, nat? a, nat? b with
    | some d, some a, some b =>
      match s.get a, s.get b with
      | some x, some y =>
        let r := concat x y
        let (x', y') := if a == b then (let t := (concatFx x y).1; (t, t)) else concatFx x y
        (((s.set a x').set b y').set d r, answer r (units x ++ units y))
      | _, _ => bad
    | _, _, _ => bad
  | ["sub", d, a, p, q] =>
    match nat? d, nat? a, nat? p, nat? q with
    | some d, some a, some p, some q =>
      match s.get a with
      | some x =>
        let (st, en) := subRange (units x).length p q
        let r := substring x st en
        ((s.set a (touch x)).set d r, answer r (slice (units x) st en))
      | none => bad
    | _, _, _, _ => bad
  | "tpl" :: d :: args =>
    match nat? d, getAll s args with
    | some d, some kvs =>
      let r := concatStrings (kvs.map (·.2))
      let s' := kvs.foldl (fun acc kv => acc.set kv.1 (touch kv.2)) s
      (s'.set d r, answer r (kvs.flatMap (fun kv => units kv.2)))
    | _, _ => bad
  | ["dump", a] =>
    match (nat? a).bind s.get, nat? a with
    | some x, some a => (s.set a (touch x), tag x ++ " " ++ Spec.hexOfUnits (units x) ++ (if nfb x then "" else " !NF"))
    | _, _ => bad
  | ["len", a] =>
    match (nat? a).bind s.get, nat? a with
    | some x, some a => (s.set a (touch x), toString (units x).length)
    | _, _ => bad
  | ["cmp", a, b] =>
    match nat? a, nat? b with
    | some a, some b =>
      match s.get a, s.get b with
      | some x, some y =>
        let c := compareTo x y
        (((s.set a (touch x)).set b (touch y)), sgn c ++ (if sgn c == sgn (lexCmp (units x) (units y)) then "" else " !SPEC"))
      | _, _ => bad
    | _, _ => bad
  | [op, a, b] =>
    if op == "seq" || op == "same" then
      match nat? a, nat? b with
      | some a, some b =>
        match s.get a, s.get b with
        | some x, some y =>
          let r := strictEq x y
          let (x', y') := if a == b then (x, y) else strictEqFx x y
          (((s.set a x').set b y'), toString r ++ (if r == (units x == units y) then "" else " !SPEC"))
        | _, _ => bad
      | _, _ => bad
    else if op == "heq" then
      match nat? a, nat? b with
      | some a, some b =>
        match s.get a, s.get b with
        | some x, some y =>
          let r := hashPre x == hashPre y
          (((s.set a (touch x)).set b (touch y)), toString r ++ (if r == (units x == units y) then "" else " !SPEC"))
        | _, _ => bad
      | _, _ => bad
    else if op == "sbws" then
      match nat? a, nat? b with
      | some k, some b =>
        match s.getSB k, s.get b with
        | some sb, some x => ((s.set b (touch x)).setSB k (sb.writeString x), "ok")
        | _, _ => bad
      | _, _ => bad
    else if op == "sbwr" then
      match nat? a, parseHex? b with
      | some k, some r =>
        match s.getSB k with
        | some sb => (s.setSB k (sb.writeRune r), "ok")
        | none => bad
      | _, _ => bad
    else if op == "sbw8" then
      match nat? a, Spec.parseBytes (hx b) with
      | some k, some bs =>
        match s.getSB k with
        | some sb => (s.setSB k (sb.writeUTF8 bs), "ok")
        | none => bad
      | _, _ => bad
    else if op == "sblu" then
      match nat? a with
      | some k =>
        match s.getSB k with
        | some sb => (s.setSB k sb.switchToUnicode, "ok")
        | none => bad
      | none => bad
    else if op == "sbstr" then
      match nat? a, nat? b with
      | some d, some k =>
        match s.getSB k with
        | some sb => let r := sb.toStr; (s.set d r, answer r sb.units)
        | none => bad
      | _, _ => bad
    else bad
  | ["sbnew", k] =>
    match nat? k with
    | some k => (s.setSB k SB.empty, "ok")
    | none => bad
  | ["sbwsub", k, a, p, q] =>
    match nat? k, nat? a, nat? p, nat? q with
    | some k, some a, some p, some q =>
      match s.getSB k, s.get a with
      | some sb, some x =>
        let (st, en) := subRange (units x).length p q
        ((s.set a (touch x)).setSB k (sb.writeSubstring x st en), "ok")
      | _, _ => bad
    | _, _, _, _ => bad
  | _ => bad

/-- `bi d <builtin> args…`: a String built-in called with register values (mechanism models of Builtins.lean).
Answers like a value-producing op (tag + markers); `undef` for String.prototype.at out of range. -/
def stepBuiltin (s : St) (d : Nat) (op : String) (args : List String) : St × String :=
  let bad := (s, "ERR")
  let reg := fun (w : String) => (nat? w).bind (fun k => (s.get k).map (fun v => (k, v)))
  let touchIn := fun (st : St) (kv : Nat × Str) => st.set kv.1 (touch kv.2)
  match op, args with
  | "slice", [a, i, j] =>
    match reg a, Spec.parseInt? i, Spec.parseOptInt? j with
    | some (ka, x), some i, some j =>
      let r := Builtins.sliceM x i j
      ((touchIn s (ka, x)).set d r, answer r (Spec.jsSlice (units x) i j))
    | _, _, _ => bad
  | "substring", [a, i, j] =>
    match reg a, Spec.parseInt? i, Spec.parseOptInt? j with
    | some (ka, x), some i, some j =>
      let r := Builtins.substringM x i j
      ((touchIn s (ka, x)).set d r, answer r (Spec.jsSubstring (units x) i j))
    | _, _, _ => bad
  | "substr", [a, i, j] =>
    match reg a, Spec.parseInt? i, Spec.parseOptInt? j with
    | some (ka, x), some i, some j =>
      let r := Builtins.substrM x i j
      ((touchIn s (ka, x)).set d r, answer r (Spec.jsSubstr (units x) i j))
    | _, _, _ => bad
  | "at", [a, i] =>
    match reg a, Spec.parseInt? i with
    | some (ka, x), some i =>
      match Builtins.atM x i with
      | some r => ((touchIn s (ka, x)).set d r, answer r (Spec.jsAt (units x) i))
      | none => ((touchIn s (ka, x)).set d Builtins.emptyStr, "undef" ++ (if Spec.jsAt (units x) i == [] then "" else " !SPEC"))
    | _, _ => bad
  | "charAt", [a, i] =>
    match reg a, Spec.parseInt? i with
    | some (ka, x), some i =>
      let r := Builtins.charAtM x i
      ((touchIn s (ka, x)).set d r, answer r (Spec.jsCharAt (units x) i))
    | _, _ => bad
  | "repeat", [a, n] =>
    match reg a, nat? n with
    | some (ka, x), some n =>
      let r := Builtins.repeatM x n
      ((if n == 0 then s else touchIn s (ka, x)).set d r, answer r (Spec.rep (units x) n))
    | _, _ => bad
  | "fcc", [h] =>
    match Spec.parseUnits (hx h) with
    | some u => let r := Builtins.fromCharCodeM u; (s.set d r, answer r u)
    | none => bad
  | "fcp", [h] =>
    match Spec.parseUnits (hx h) with
    | some u =>
      -- code points given as UTF-16 (pairs merged, lone surrogates kept): the harness passes Spec.codePoints
      let cps := Spec.codePoints u
      let r := Builtins.fromCodePointM cps
      (s.set d r, answer r u)
    | none => bad
  | _, _ =>
    if op == "padStart" || op == "padEnd" then
      match args with
      | [a, f, n] =>
        match reg a, reg f, nat? n with
        | some (ka, x), some (kf, y), some n =>
          let atStart := op == "padStart"
          let r := Builtins.padM x y n atStart
          let s1 := touchIn s (ka, x)
          let s2 := if n ≤ Builtins.len x then s1 else (if ka == kf then s1 else touchIn s1 (kf, y))
          (s2.set d r, answer r (if atStart then Spec.padStart (units x) n (units y) else Spec.padEnd (units x) n (units y)))
        | _, _, _ => bad
      | _ => bad
    else if op == "replace" || op == "replaceAll" then
      match args with
      | [a, p, rp] =>
        match reg a, reg p, reg rp with
        | some (ka, x), some (kp, y), some (kr, z) =>
          let all := op == "replaceAll"
          let r := if all then Builtins.replaceAllM x y z else Builtins.replaceM x y z
          let found := (Builtins.indexM x y 0).isSome
          let st1 := [(ka, x), (kp, y)].foldl touchIn s
          let st2 := if found then touchIn st1 (kr, (st1.get kr).getD z) else st1
          (st2.set d r, answer r (if all then Spec.replaceAll (units x) (units y) (units z)
                                   else Spec.replaceFirst (units x) (units y) (units z)))
        | _, _, _ => bad
      | _ => bad
    else if op == "splitjoin" then
      match args with
      | [a, p, j] =>
        match reg a, reg p, reg j with
        | some (ka, x), some (kp, y), some (kj, z) =>
          let ps := Builtins.splitM x y
          let r := Builtins.joinM ps z
          let st1 := [(ka, x), (kp, y)].foldl touchIn s
          let st2 := if ps.length ≥ 2 then touchIn st1 (kj, (st1.get kj).getD z) else st1
          (st2.set d r, answer r (Spec.join (Spec.split (units x) (units y)) (units z)))
        | _, _, _ => bad
      | _ => bad
    else if op == "splitpiece" then
      match args with
      | [a, p, k] =>
        match reg a, reg p, nat? k with
        | some (ka, x), some (kp, y), some k =>
          let ps := Builtins.splitM x y
          let st1 := [(ka, x), (kp, y)].foldl touchIn s
          match ps[k]?, (Spec.split (units x) (units y))[k]? with
          | some r, some u => (st1.set d r, answer r u)
          | some r, none => (st1.set d r, tag r ++ " !SPEC")
          | none, sp => (st1.set d Builtins.emptyStr, "undef" ++ (if sp.isNone then "" else " !SPEC"))
        | _, _, _ => bad
      | _ => bad
    else if op == "splitjoinlim" then
      -- bi d splitjoinlim a sep j lim
      match args with
      | [a, p, j, lim] =>
        match reg a, reg p, reg j, nat? lim with
        | some (ka, x), some (kp, y), some (kj, z), some lim =>
          let ps := Builtins.splitLimM x y (some lim)
          let r := Builtins.joinM ps z
          let st1 := if lim == 0 then s else [(ka, x), (kp, y)].foldl touchIn s
          let st2 := if ps.length ≥ 2 then touchIn st1 (kj, (st1.get kj).getD z) else st1
          (st2.set d r, answer r (Spec.join ((Spec.split (units x) (units y)).take lim) (units z)))
        | _, _, _, _ => bad
      | _ => bad
    else if op == "splitpiecelim" then
      match args with
      | [a, p, k, lim] =>
        match reg a, reg p, nat? k, nat? lim with
        | some (ka, x), some (kp, y), some k, some lim =>
          let ps := Builtins.splitLimM x y (some lim)
          let st1 := if lim == 0 then s else [(ka, x), (kp, y)].foldl touchIn s
          match ps[k]?, ((Spec.split (units x) (units y)).take lim)[k]? with
          | some r, some u => (st1.set d r, answer r u)
          | some r, none => (st1.set d r, tag r ++ " !SPEC")
          | none, sp => (st1.set d Builtins.emptyStr, "undef" ++ (if sp.isNone then "" else " !SPEC"))
        | _, _, _, _ => bad
      | _ => bad
    else if op == "trim" || op == "trimStart" || op == "trimEnd" then
      match args with
      | [a] =>
        match reg a with
        | some (ka, x) =>
          let l := op != "trimEnd"
          let rt := op != "trimStart"
          let r := Builtins.trimM x l rt
          let sp := if op == "trim" then Spec.trim (units x) else if l then Spec.trimStart (units x) else Spec.trimEnd (units x)
          ((touchIn s (ka, x)).set d r, answer r sp)
        | none => bad
      | _ => bad
    else if op == "raw" then
      -- bi d raw <nseg> seg… sub…
      match args with
      | n :: rest =>
        match nat? n, getAll s rest with
        | some n, some kvs =>
          if n == 0 || kvs.length < n then bad else
          let segs := kvs.take n
          let subs := kvs.drop n
          let r := Builtins.rawM (segs.map (·.2)) (subs.map (·.2))
          let s' := (segs ++ subs.take (n - 1)).foldl touchIn s
          (s'.set d r, answer r (Spec.rawS (segs.map (fun kv => units kv.2)) (subs.map (fun kv => units kv.2))))
        | _, _ => bad
      | _ => bad
    else if op == "concat" then
      match getAll s args with
      | some kvs =>
        if kvs.isEmpty then bad else
        let r := Builtins.protoConcatM (kvs.map (·.2))
        let s' := kvs.foldl touchIn s
        (s'.set d r, answer r (kvs.flatMap (fun kv => units kv.2)))
      | none => bad
    else bad

def stepAll (s : St) (line : String) : St × String :=
  match words line with
  | "bi" :: d :: op :: args =>
    match nat? d with
    | some d => stepBuiltin s d op args
    | none => (s, "ERR")
  | _ => step s line

def main : IO Unit := lineLoop stepAll ({} : St)

end GojaModel.C06.Driver
