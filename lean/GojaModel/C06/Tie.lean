/-
  C06 tie: facts regenerated from /repo's Go sources by extract/c06.go on every run
  (GojaModel/Generated/C06_Sites.lean) compared with the hand-reviewed expectation below.

  * `uniSites`     every `unicodeString(e)` conversion in non-test files, with file, enclosing function and the
                   argument text.  Each of the 9 sites was reviewed: the reason why the converted slice contains
                   a unit >= 0x80 (i.e. the result is in normal form) is given next to it, with the model
                   definition / theorem that covers it.
  * `makeUniSites` every `make(unicodeString, n)`.
  * `asciiSites`   every `asciiString(e)` whose argument is not a string literal (string literals are checked
                   to be ASCII by the extractor: `asciiLiteralsAllAscii`).  Each argument is ASCII by
                   construction: a strconv/ftoa/time/hex/big.Int formatter, a class-name constant, the ASCII
                   branch of a scan (`i.s` when `i.u == nil`, `strings.Builder` filled with bytes < 0x80), or
                   `strings.ToLower/ToUpper` of an asciiString, the trim of an asciiString (`trimString`, 86d74e7).
                   Three sites convert a possibly non-ASCII UTF-8 string on purpose, as a TEMPORARY receiver for
                   number parsing that never escapes as a String value: `asciiString(s.toTrimmedUTF8())` in
                   unicodeString.ToNumber / ToInteger / ToFloat (the latter two added by 6010fc8).
                   Re-reviewed after the re-sync (59 fix commits): +3 sites, literal count 83 → 82.
  A new or moved raw conversion site, or a changed argument, makes these equalities fail: the tie is then
  broken until the site has been reviewed and the expectation updated.
-/
import GojaModel.Generated.C06_Sites
import GojaModel.C06.Model
namespace GojaModel.C06.Tie
open GojaModel.Generated

namespace Expected

def uniSites : List (String × String × String) := [
  -- reached only when `unicode` is set, which happens when a unit >= 0x80 is appended (builtin_global.go:314)
  ("builtin_global.go", "Runtime.builtin_unescape", "unicodeBuf"),
  -- inside `if chr >= utf8.RuneSelf` (builtin_string.go:113): bb contains chr
  ("builtin_string.go", "Runtime.string_fromcharcode", "bb"),
  -- `!allAscii` branch: some operand is a (normal-form) unicodeString
  ("builtin_string.go", "Runtime.stringproto_concat", "buf"),
  -- unistring.Scan result, non-nil only if a byte >= 0x80 was seen  -> Model.newStringValue / scan_some_nonascii
  ("string.go", "newStringValue", "u"),
  -- AsUtf16 of a key that starts with the BOM -> Model.stringValueFromRaw / nf_stringValueFromRaw_keyOf
  ("string.go", "stringValueFromRaw", "b"),
  -- after the `isAscii` loop found a unit >= 0x80 -> Model.stringFromUTF16 / nf_stringFromUTF16
  ("string.go", "StringFromUTF16", "buf"),
  -- `u != nil` branch: right operand devirtualises to a normal-form unicodeString -> Model.asciiConcat
  ("string_ascii.go", "asciiString.Concat", "b"),
  -- guarded by b.unicode -> Model.SB.toStr / SB.Inv
  ("string_unicode.go", "unicodeStringBuilder.String", "b.buf"),
  -- receiver is a normal-form unicodeString -> Model.uniConcat
  ("string_unicode.go", "unicodeString.Concat", "b")
]

def makeUniSites : List (String × String × String) := [
  -- inside `if su[i] >= utf8.RuneSelf`: the chunk contains that unit
  ("builtin_string.go", "Runtime.stringproto_split", "idx + 1"),
  -- receiver (normal form) is copied in -> Model.uniConcat
  ("string_unicode.go", "unicodeString.Concat", "len(s) + len(u) - 1"),
  -- inside `if c >= utf8.RuneSelf` -> Model.uniSubstring
  ("string_unicode.go", "unicodeString.Substring", "end - start + 1")
]

def asciiSites : List (String × String × String) := [
  ("array.go", "arrayPropIter.next", "strconv.Itoa(i.idx)"),
  ("array.go", "arrayObject.stringKeys", "name"),
  ("array_sparse.go", "sparseArrayPropIter.next", "strconv.Itoa(int(i.a.items[i.idx].idx))"),
  ("array_sparse.go", "sparseArrayObject.stringKeys", "strconv.FormatUint(uint64(item.idx), 10)"),
  ("array_sparse.go", "sparseArrayObject.stringKeys", "strconv.FormatUint(uint64(item.idx), 10)"),
  ("builtin_array.go", "Runtime.createArrayIterProto", "classArrayIterator"),
  ("builtin_bigint.go", "valueBigInt.toString", "(*big.Int)(v).String()"),
  ("builtin_bigint.go", "Runtime.bigintproto_toString", "x.Text(radixMV)"),
  ("builtin_date.go", "Runtime.builtin_date", "dateFormat(r.now())"),
  ("builtin_date.go", "Runtime.dateproto_toString", "d.time().Format(dateTimeLayout)"),
  ("builtin_date.go", "Runtime.dateproto_toUTCString", "d.timeUTC().Format(utcDateTimeLayout)"),
  ("builtin_date.go", "Runtime.dateproto_toISOString", "utc.Format(isoDateTimeLayout)"),
  ("builtin_date.go", "Runtime.dateproto_toISOString", "fmt.Sprintf(\"%+06d-\", year) + utc.Format(isoDateTimeLayout[5:])"),
  ("builtin_date.go", "Runtime.dateproto_toDateString", "d.time().Format(dateLayout)"),
  ("builtin_date.go", "Runtime.dateproto_toTimeString", "d.time().Format(timeLayout)"),
  ("builtin_date.go", "Runtime.dateproto_toLocaleString", "d.time().Format(datetimeLayout_en_GB)"),
  ("builtin_date.go", "Runtime.dateproto_toLocaleDateString", "d.time().Format(dateLayout_en_GB)"),
  ("builtin_date.go", "Runtime.dateproto_toLocaleTimeString", "d.time().Format(timeLayout_en_GB)"),
  ("builtin_error.go", "errorObject.stringKeys", "propNameStack"),
  ("builtin_function.go", "Runtime.createAsyncFunctionProto", "classAsyncFunction"),
  ("builtin_function.go", "Runtime.createGeneratorFunctionProto", "classGeneratorFunction"),
  ("builtin_function.go", "Runtime.createGeneratorProto", "classGenerator"),
  ("builtin_global.go", "Runtime._encode", "buf"),
  ("builtin_global.go", "Runtime._decode", "t"),
  ("builtin_global.go", "Runtime.builtin_escape", "sb.String()"),
  ("builtin_global.go", "Runtime.builtin_unescape", "asciiBuf"),
  ("builtin_global.go", "createGlobalObjectTemplate", "classGlobal"),
  ("builtin_json.go", "Runtime.builtinJSON_reviveWalk", "strconv.FormatInt(index, 10)"),
  ("builtin_json.go", "Runtime.builtinJSON_stringify", "ctx.buf.String()"),
  ("builtin_json.go", "_builtinJSON_stringifyContext.ja", "strconv.FormatInt(i, 10)"),
  ("builtin_json.go", "Runtime.getJSON", "classJSON"),
  ("builtin_map.go", "Runtime.createMapProto", "classMap"),
  ("builtin_map.go", "Runtime.createMapIterProto", "classMapIterator"),
  ("builtin_math.go", "createMathTemplate", "classMath"),
  ("builtin_number.go", "Runtime.numberproto_toString", "fToStr(num, ftoa.ModeStandard, 0)"),
  ("builtin_number.go", "Runtime.numberproto_toString", "ftoa.FToBaseStr(num, radix)"),
  ("builtin_number.go", "Runtime.numberproto_toFixed", "fToStr(num, ftoa.ModeFixed, int(prec))"),
  ("builtin_number.go", "Runtime.numberproto_toExponential", "fToStr(num, ftoa.ModeStandardExponential, 0)"),
  ("builtin_number.go", "Runtime.numberproto_toExponential", "fToStr(num, ftoa.ModeExponential, int(prec+1))"),
  ("builtin_number.go", "Runtime.numberproto_toPrecision", "fToStr(num, ftoa.ModePrecision, int(prec))"),
  ("builtin_promise.go", "Runtime.createPromiseProto", "classPromise"),
  ("builtin_regexp.go", "Runtime.regexpproto_getFlags", "sb.String()"),
  ("builtin_regexp.go", "Runtime.createRegExpStringIteratorPrototype", "classRegExpStringIterator"),
  ("builtin_set.go", "Runtime.createSetProto", "classSet"),
  ("builtin_set.go", "Runtime.createSetIterProto", "classSetIterator"),
  ("builtin_string.go", "Runtime.string_fromcharcode", "b"),
  ("builtin_string.go", "Runtime.stringproto_concat", "buf.String()"),
  ("builtin_string.go", "Runtime.stringproto_normalize", "s.s"),
  ("builtin_string.go", "Runtime._stringPad", "sb.String()"),
  ("builtin_string.go", "Runtime.stringproto_repeat", "sb.String()"),
  ("builtin_string.go", "Runtime.stringproto_split", "value"),
  ("builtin_string.go", "Runtime.stringproto_split", "sb.String()"),
  ("builtin_string.go", "Runtime.stringproto_split", "rune(c)"),
  ("builtin_string.go", "trimString", "str"),
  ("builtin_string.go", "Runtime.createStringIterProto", "classStringIterator"),
  ("builtin_typedarrays.go", "Runtime.uint8ArrayProto_toHex", "stdhex.EncodeToString(toEnc)"),
  ("builtin_weakmap.go", "Runtime.createWeakMapProto", "classWeakMap"),
  ("builtin_weakset.go", "Runtime.createWeakSetProto", "classWeakSet"),
  ("object_dynamic.go", "dynArrayPropIter.next", "name"),
  ("object_dynamic.go", "dynamicArray.stringKeys", "strconv.Itoa(i)"),
  ("object_goarray_reflect.go", "goArrayReflectPropIter.next", "name"),
  ("object_goarray_reflect.go", "objectGoArrayReflect.stringKeys", "strconv.Itoa(i)"),
  ("object_gomap_reflect.go", "objectGoMapReflect.keyToString", "str"),
  ("object_goslice.go", "objectGoSlice.stringKeys", "strconv.Itoa(i)"),
  ("runtime.go", "Runtime.toValue", "i"),
  ("string.go", "stringFromRune", "sb.String()"),
  ("string.go", "newStringValue", "s"),
  ("string.go", "stringValueFromRaw", "raw"),
  ("string.go", "stringPropIter.next", "name"),
  ("string.go", "stringObject.stringKeys", "strconv.Itoa(i)"),
  ("string.go", "devirtualizeString", "s.s"),
  ("string.go", "StringFromUTF16", "sb.String()"),
  ("string_ascii.go", "asciiString.toLower", "strings.ToLower(string(s))"),
  ("string_ascii.go", "asciiString.toUpper", "strings.ToUpper(string(s))"),
  ("string_imported.go", "importedString.ToInteger", "i.s"),
  ("string_imported.go", "importedString.ToFloat", "i.s"),
  ("string_imported.go", "importedString.ToNumber", "i.s"),
  ("string_imported.go", "importedString.Equals", "i.s"),
  ("string_imported.go", "importedString.baseObject", "i.s"),
  ("string_imported.go", "importedString.hash", "i.s"),
  ("string_imported.go", "importedString.CharAt", "i.s"),
  ("string_imported.go", "importedString.Length", "i.s"),
  ("string_imported.go", "importedString.Concat", "i.s"),
  ("string_imported.go", "importedString.Substring", "i.s"),
  ("string_imported.go", "importedString.CompareTo", "i.s"),
  ("string_imported.go", "importedString.Reader", "i.s"),
  ("string_imported.go", "importedString.utf16Reader", "i.s"),
  ("string_imported.go", "importedString.utf16RuneReader", "i.s"),
  ("string_imported.go", "importedString.utf16Runes", "i.s"),
  ("string_imported.go", "importedString.index", "i.s"),
  ("string_imported.go", "importedString.lastIndex", "i.s"),
  ("string_imported.go", "importedString.toLower", "i.s"),
  ("string_imported.go", "importedString.toUpper", "i.s"),
  ("string_unicode.go", "unicodeStringBuilder.String", "buf"),
  ("string_unicode.go", "StringBuilder.String", "b.asciiBuilder.String()"),
  ("string_unicode.go", "unicodeString.ToInteger", "s.toTrimmedUTF8()"),
  ("string_unicode.go", "unicodeString.ToFloat", "s.toTrimmedUTF8()"),
  ("string_unicode.go", "unicodeString.ToNumber", "s.toTrimmedUTF8()"),
  ("string_unicode.go", "unicodeString.Substring", "as"),
  ("string_unicode.go", "toLower", "r"),
  ("typedarrays.go", "typedArrayObject.stringKeys", "strconv.Itoa(i)"),
  ("typedarrays.go", "typedArrayPropIter.next", "name"),
  ("value.go", "valueInt.toString", "i.String()"),
  ("value.go", "valueFloat.toString", "f.String()"),
  ("value.go", "funcName", "prefix"),
  ("vm.go", "concatStrings.exec", "s.s"),
  ("vm.go", "concatStrings.exec", "buf.String()")
]

def asciiLiteralCount : Nat := 82

end Expected

theorem uniSites_ok : C06.uniSites = Expected.uniSites := rfl
theorem makeUniSites_ok : C06.makeUniSites = Expected.makeUniSites := rfl
theorem asciiSites_ok : C06.asciiSites = Expected.asciiSites := rfl
theorem asciiLiterals_ok : C06.asciiLiteralsAllAscii = true := rfl
theorem asciiLiteralCount_ok : C06.asciiLiteralCount = Expected.asciiLiteralCount := rfl
/-- the two comparisons of unistring.Scan (counting pass: two units iff `chr > 0xFFFF`; fill pass: one unit iff
`chr <= 0xFFFF`) are the ones `Model.countUnits` / `Model.fillUnits` use (Props.scanTwoPass_eq_scan depends on them) -/
theorem scanTests_ok : (GojaModel.Generated.C06.scanCountTest, GojaModel.Generated.C06.scanFillTest) =
    (GojaModel.C06.scanCountTest, GojaModel.C06.scanFillTest) := rfl
/-- the eager-scan threshold of Runtime.ToValue(string) is the one the model uses -/
theorem eagerMax_ok : C06.toValueEagerMax = GojaModel.C06.eagerMax := rfl

end GojaModel.C06.Tie
