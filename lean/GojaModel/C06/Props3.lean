/-
  C06 — property theorems, third module (deepening round 2): String.prototype.split(separator, limit).
  Audited like Props.lean.
-/
import GojaModel.C06.Props2
import GojaModel.C06.Builtins3
namespace GojaModel.C06
open Builtins

theorem splitRel_take_fuel {sep : List UInt16} (hne : sep ≠ []) : ∀ (k F : Nat) (l : List UInt16), l.length + 1 ≤ F →
    (Spec.splitRel sep k l).take k = (Spec.splitRel sep F l).take k
  | 0, _, _, _ => by simp
  | k + 1, 0, l, h => by omega
  | k + 1, F + 1, l, h => by
    simp only [Spec.splitRel]
    cases hi : Spec.indexFrom sep l 0 with
    | none => rfl
    | some i =>
      have hlt := indexFrom_lt hne l 0 i hi
      have hs : 0 < sep.length := by cases sep with
        | nil => exact absurd rfl hne
        | cons => simp
      have hl : (l.drop (i + sep.length)).length + 1 ≤ F := by simp; omega
      simp only [List.take_succ_cons]
      rw [splitRel_take_fuel hne k F _ hl]

theorem splitLoopLimM_spec {ss : List UInt16} (hne : ss ≠ []) : ∀ (k F : Nat) (su : List UInt16) (idx : Nat),
    su.length + 1 ≤ F → idx = (Spec.indexFrom ss su 0).getD su.length →
    (∀ p ∈ splitLoopLimM ss k su idx, NF p) ∧
      (splitLoopLimM ss k su idx).map units = (Spec.splitRel ss F su).take k
  | 0, _, _, _, _, _ => by simp [splitLoopLimM]
  | k + 1, 0, su, idx, h, _ => by omega
  | k + 1, F + 1, su, idx, h, hidx => by
    simp only [splitLoopLimM, Spec.splitRel]
    cases hi : Spec.indexFrom ss su 0 with
    | none =>
      rw [hi] at hidx
      simp only [Option.getD] at hidx
      have w := uniSubstring_spec su 0 idx
      rw [if_pos hidx]
      simp only [List.mem_singleton, List.map_cons, List.map_nil]
      exact ⟨fun p hp => by rw [hp]; exact w.1, by rw [w.2, hidx, slice_full]; simp⟩
    | some i =>
      rw [hi] at hidx
      simp only [Option.getD] at hidx
      subst hidx
      have hlt := indexFrom_lt hne su 0 idx hi
      have hs : 0 < ss.length := by cases ss with
        | nil => exact absurd rfl hne
        | cons => simp
      have hne' : ¬ idx = su.length := by omega
      rw [if_neg hne']
      have w := uniSubstring_spec su 0 idx
      have hl : (su.drop (idx + ss.length)).length + 1 ≤ F := by simp; omega
      have ih := splitLoopLimM_spec hne k F (su.drop (idx + ss.length))
        ((Spec.indexFrom ss (su.drop (idx + ss.length)) 0).getD (su.drop (idx + ss.length)).length) hl rfl
      simp only [List.mem_cons, List.map_cons, List.take_succ_cons]
      refine ⟨?_, by rw [w.2, slice_zero, ih.2]⟩
      intro p hp
      rcases hp with rfl | hp
      · exact w.1
      · exact ih.1 p hp

theorem take_take_self {α : Type} (l : List α) (n : Nat) : (l.take n).take n = l.take n := by
  rw [List.take_take, Nat.min_self]

/-- String.prototype.split(separator, limit) as coded: every piece in normal form, and the pieces are the first
`limit` pieces of the unlimited split (ECMA-262: "lim" truncates the list of substrings) -/
theorem splitLimM_spec {s sep : Str} (hs : NF s) (hp : NF sep) (limit : Option Nat) :
    (∀ p ∈ splitLimM s sep limit, NF p) ∧
      (splitLimM s sep limit).map units =
        (match limit with
         | none => Spec.split (units s) (units sep)
         | some n => (Spec.split (units s) (units sep)).take n) := by
  cases limit with
  | none => exact splitM_spec hs hp
  | some n =>
    cases n with
    | zero => simp [splitLimM]
    | succ l =>
      have hds := devirt_units s
      have hdp := devirt_units sep
      have hns := devirt_nf hs
      have hnp := devirt_nf hp
      simp only [splitLimM, Spec.split]
      rw [← hds, ← hdp]
      cases hS : devirt s with
      | a sa =>
        rw [hS] at hns hds
        simp only [DV.NF] at hns
        cases hP : devirt sep with
        | a sepa =>
          simp only [DV.units, List.isEmpty_map, List.length_map]
          by_cases he : sepa.isEmpty = true
          · simp only [he, if_true]
            have hparts : ((sa.take (l + 1)).map (fun c => [c]) ++ (if sa.length > l + 1 then [sa.drop (l + 1)] else [])).take (l + 1)
                = (sa.map (fun c => [c])).take (l + 1) := by
              by_cases hlen : sa.length > l + 1
              · rw [if_pos hlen, List.take_append_of_le_length (by simp; omega), List.map_take, take_take_self]
              · rw [if_neg hlen, List.append_nil, List.map_take, take_take_self]
            rw [hparts]
            refine ⟨?_, ?_⟩
            · intro p hp
              simp only [List.mem_map] at hp
              obtain ⟨q, hq, rfl⟩ := hp
              have hq' := List.mem_of_mem_take hq
              simp only [List.mem_map] at hq'
              obtain ⟨c, hc, rfl⟩ := hq'
              simp only [NF, List.all_cons, List.all_nil, Bool.and_true]
              exact (List.all_eq_true.mp hns) c hc
            · simp only [← List.map_take, List.map_map]
              apply List.map_congr_left
              intro c _
              simp [units]
          · simp only [he, Bool.false_eq_true, if_false]
            have hne : sepa.map b2u ≠ [] := by
              intro e
              have : sepa = [] := by simpa using e
              rw [this] at he; simp at he
            refine ⟨?_, ?_⟩
            · intro p hp
              simp only [List.mem_map] at hp
              obtain ⟨q, hq, rfl⟩ := hp
              exact all_ascii_splitRelB sepa _ sa hns q (List.mem_of_mem_take hq)
            · have e1 : ((splitRelB sepa (l + 1) sa).take (l + 1)).map (fun b => units (Str.ascii b))
                  = ((splitRelB sepa (l + 1) sa).map (List.map b2u)).take (l + 1) := by
                rw [List.map_take]; rfl
              rw [List.map_map]
              show List.map (fun b => units (Str.ascii b)) _ = _
              rw [e1, splitRelB_map, splitRel_take_fuel hne (l + 1) ((sa.map b2u).length + 1) _ (Nat.le_refl _)]
              simp
        | u sepu =>
          rw [hP] at hnp
          simp only [DV.units, DV.NF] at hnp ⊢
          simp only [List.mem_singleton, List.map_cons, List.map_nil]
          refine ⟨fun p hp => by rw [hp]; exact nf_touch hs, ?_⟩
          have hne : sepu.isEmpty = false := by
            cases sepu with
            | nil => simp at hnp
            | cons => rfl
          obtain ⟨x, hx, hxn⟩ := List.any_eq_true.mp hnp
          have hnot : x ∉ List.map b2u sa := by
            intro hmem
            obtain ⟨y, hy, rfl⟩ := List.mem_map.mp hmem
            rw [nonAscii_b2u_of_all hns y hy] at hxn
            cases hxn
          simp only [hne, Bool.false_eq_true, if_false, Spec.splitRel, indexFrom_none hx _ 0 hnot]
          rw [units_touch, ← hds]; simp [DV.units]
      | u su =>
        rw [hS] at hds
        have e1 : (DV.u su).units = su := rfl
        rw [e1] at hds ⊢
        simp only
        by_cases he : (devirt sep).units.isEmpty = true
        · simp only [he, if_true]
          have hsu : (if su.length > l + 1 then su.take (l + 1) else su) = su.take (l + 1) := by
            split
            · rfl
            · rw [List.take_of_length_le (by omega)]
          rw [hsu]
          refine ⟨?_, ?_⟩
          · intro p hp
            simp only [List.mem_map] at hp
            obtain ⟨c, _, rfl⟩ := hp
            split
            · rename_i h; simp [NF, h]
            · rename_i h
              have : asciiU c = true := by simpa [nonAsciiU] using h
              simp [NF, asciiB_u2b this]
          · rw [← List.map_take, List.map_map]
            apply List.map_congr_left
            intro c _
            simp only [Function.comp]
            split
            · rfl
            · rename_i h
              have : asciiU c = true := by simpa [nonAsciiU] using h
              simp [units, b2u_u2b this]
        · simp only [he, if_false]
          have hne : (devirt sep).units ≠ [] := by
            intro e; rw [e] at he; simp at he
          cases hi : Spec.indexFrom (devirt sep).units su 0 with
          | none =>
            simp only [Bool.false_eq_true, if_false, List.mem_singleton, List.map_cons, List.map_nil, Spec.splitRel, hi]
            exact ⟨fun p hp => by rw [hp]; exact nf_touch hs, by rw [units_touch, ← hds]; simp⟩
          | some idx =>
            simp only [Bool.false_eq_true, if_false]
            exact splitLoopLimM_spec hne (l + 1) (su.length + 1) su idx (Nat.le_refl _) (by rw [hi]; rfl)
end GojaModel.C06
