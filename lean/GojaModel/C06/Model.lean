/-
  C06 — shared string model (core Lean only; linked into model_c06).

  goja keeps an ECMAScript string in one of three Go representations
    asciiString      (string_ascii.go:14)   Go string, every byte < 0x80
    unicodeString    (string_unicode.go:24) []uint16 whose element 0 is the marker 0xFEFF (unistring.BOM)
    *importedString  (string_imported.go:24) Go string `s` + lazily computed `u unicodeString` + `scanned`
  and relies on a normal form: UTF-16 storage is used only if some unit is >= 0x80.

  BOM: the `uni` constructor below stores the PAYLOAD only (Go's `s[1:]`); the marker at index 0 is
  abstracted away in `Str` and modelled explicitly where it is semantically relevant, i.e. in the
  unistring key / hash-preimage encoding (`keyOf`, `asUtf16`, `stringValueFromRaw`).

  importedString: `u` is a function of `s` (`unistring.Scan`) once scanned (sync.Once + atomic flag since 7f47297);
  `u` is only read after ensureScanned()/isScanned().  So the model keeps `(s, scanned)`.
-/
namespace GojaModel.C06

/-! ## bytes and code units -/

def asciiB (b : UInt8) : Bool := decide (b.toNat < 128)
def asciiU (c : UInt16) : Bool := decide (c.toNat < 128)
def nonAsciiU (c : UInt16) : Bool := !asciiU c
/-- Go `uint16(b)` -/
def b2u (b : UInt8) : UInt16 := b.toUInt16
/-- Go `byte(c)` (truncating) -/
def u2b (c : UInt16) : UInt8 := c.toUInt8
def BOM : UInt16 := 0xFEFF

/-- Go `x[start:end]` for `0 <= start <= end <= len` (total here: clamps). -/
def slice {α : Type} (l : List α) (st en : Nat) : List α := (l.drop st).take (en - st)

/-! ## Go's lenient UTF-8 decoding (`for _, r := range s`, utf8.DecodeRuneInString)

An invalid or truncated sequence yields U+FFFD and consumes exactly ONE byte. -/

def isCont (b : UInt8) : Bool := decide (0x80 ≤ b.toNat ∧ b.toNat ≤ 0xBF)

structure Dec where
  rune : Nat
  size : Nat
  ok : Bool

def decErr : Dec := ⟨0xFFFD, 1, false⟩

/-- utf8.DecodeRuneInString on a non-empty input (first-byte table `first[256]` + `acceptRanges`). -/
def decodeRune : List UInt8 → Dec
  | [] => decErr
  | b0 :: rest =>
    let x := b0.toNat
    if x < 0x80 then ⟨x, 1, true⟩
    else if x < 0xC2 then decErr
    else if x < 0xE0 then
      match rest with
      | b1 :: _ => if isCont b1 then ⟨(x - 0xC0) * 64 + (b1.toNat - 0x80), 2, true⟩ else decErr
      | [] => decErr
    else if x < 0xF0 then
      match rest with
      | b1 :: b2 :: _ =>
        if (if x = 0xE0 then 0xA0 else 0x80) ≤ b1.toNat ∧ b1.toNat ≤ (if x = 0xED then 0x9F else 0xBF)
            ∧ isCont b2 = true
        then ⟨(x - 0xE0) * 4096 + (b1.toNat - 0x80) * 64 + (b2.toNat - 0x80), 3, true⟩ else decErr
      | _ => decErr
    else if x < 0xF5 then
      match rest with
      | b1 :: b2 :: b3 :: _ =>
        if (if x = 0xF0 then 0x90 else 0x80) ≤ b1.toNat ∧ b1.toNat ≤ (if x = 0xF4 then 0x8F else 0xBF)
            ∧ isCont b2 = true ∧ isCont b3 = true
        then ⟨(x - 0xF0) * 262144 + (b1.toNat - 0x80) * 4096 + (b2.toNat - 0x80) * 64 + (b3.toNat - 0x80), 4, true⟩
        else decErr
      | _ => decErr
    else decErr

/-- Runes of a Go string as produced by `for range`; `skip` = bytes still belonging to the previous rune. -/
def decodeS : Nat → List UInt8 → List Nat
  | _, [] => []
  | k + 1, _ :: rest => decodeS k rest
  | 0, b0 :: rest => (decodeRune (b0 :: rest)).rune :: decodeS ((decodeRune (b0 :: rest)).size - 1) rest

def decode (s : List UInt8) : List Nat := decodeS 0 s

/-- utf8.ValidString -/
def validS : Nat → List UInt8 → Bool
  | _, [] => true
  | k + 1, _ :: rest => validS k rest
  | 0, b0 :: rest => (decodeRune (b0 :: rest)).ok && validS ((decodeRune (b0 :: rest)).size - 1) rest

def validUtf8 (s : List UInt8) : Bool := validS 0 s

/-- utf16.EncodeRune / the `chr <= 0xFFFF` split in unistring.Scan (unistring/string.go:43). -/
def utf16One (r : Nat) : List UInt16 :=
  if r ≤ 0xFFFF then [UInt16.ofNat r]
  else [UInt16.ofNat (0xD800 + (r - 0x10000) / 1024), UInt16.ofNat (0xDC00 + (r - 0x10000) % 1024)]

def utf16 (rs : List Nat) : List UInt16 := rs.flatMap utf16One

/-- unistring.Scan (unistring/string.go:25): nil iff every byte is ASCII; payload without the BOM. -/
def scan (s : List UInt8) : Option (List UInt16) :=
  if s.all asciiB then none else some (utf16 (decode s))

/-! ### unistring.Scan as coded: two passes (unistring/string.go:25-57)

Pass 1 counts: `utf16Size` = index of the first byte >= 0x80, then for every rune of the REST `+1`, and `+1` more
if `chr > 0xFFFF`.  The buffer is `make([]uint16, utf16Size+1)` (BOM at 0).  Pass 2 ranges over the WHOLE string and
stores one unit if `chr <= 0xFFFF`, else the surrogate pair.  `scan` above is the one-pass specification; `scanTwoPass`
is the mechanism; `scanTwoPass_eq_scan` (Props) shows they agree, and Tie.scanTests_ok ties the two comparison
constants to the source.  (If pass 2 wrote more units than pass 1 counted Go would panic; the model truncates.) -/

def scanCountTest : String × Nat := (">", 0xFFFF)
def scanFillTest : String × Nat := ("<=", 0xFFFF)

/-- pass 1 over the runes of the non-ASCII rest -/
def countUnits : List Nat → Nat
  | [] => 0
  | r :: rs => (if r > scanCountTest.2 then 2 else 1) + countUnits rs

def scanSize (s : List UInt8) : Nat :=
  (s.takeWhile asciiB).length + countUnits (decode (s.dropWhile asciiB))

/-- pass 2 -/
def fillUnits : List Nat → List UInt16
  | [] => []
  | r :: rs =>
    (if r ≤ scanFillTest.2 then [UInt16.ofNat r]
     else [UInt16.ofNat (0xD800 + (r - 0x10000) / 1024), UInt16.ofNat (0xDC00 + (r - 0x10000) % 1024)]) ++ fillUnits rs

/-- payload (without the BOM) of the buffer returned by unistring.Scan; none = nil -/
def scanTwoPass (s : List UInt8) : Option (List UInt16) :=
  if s.all asciiB then none
  else some ((fillUnits (decode s) ++ List.replicate (scanSize s) 0).take (scanSize s))

/-! ## the three representations -/

inductive Str where
  | ascii (b : List UInt8)
  | uni (u : List UInt16)
  | imp (s : List UInt8) (scanned : Bool)
  deriving Repr, DecidableEq

/-- SPEC: the sequence of UTF-16 code units — a string's only observable identity. -/
def units : Str → List UInt16
  | .ascii b => b.map b2u
  | .uni u => u
  | .imp s _ => utf16 (decode s)

/-- Normal form: UTF-16 storage only if some unit is >= 0x80; ASCII storage holds only ASCII bytes. -/
def NF : Str → Prop
  | .ascii b => b.all asciiB = true
  | .uni u => u.any nonAsciiU = true
  | .imp _ _ => True

def nfb : Str → Bool
  | .ascii b => b.all asciiB
  | .uni u => u.any nonAsciiU
  | .imp _ _ => true

def tag : Str → String
  | .ascii _ => "ascii"
  | .uni _ => "uni"
  | .imp _ _ => "imp"

/-- effect of `ensureScanned` on the operand -/
def touch : Str → Str
  | .imp s _ => .imp s true
  | x => x

/-- devirtualizeString (string.go:319): (asciiString, nil) or ("", unicodeString). -/
inductive DV where
  | a (b : List UInt8)
  | u (u : List UInt16)

def devirt : Str → DV
  | .ascii b => .a b
  | .uni u => .u u
  | .imp s _ => match scan s with
    | some u => .u u
    | none => .a s

def DV.units : DV → List UInt16
  | .a bs => bs.map b2u
  | .u us => us

def DV.isA : DV → Bool
  | .a _ => true
  | .u _ => false

/-! ## constructors -/

/-- newStringValue (string.go:134) -/
def newStringValue (s : List UInt8) : Str :=
  match scan s with
  | some u => .uni u
  | none => .ascii s

/-- StringFromUTF16 (string.go:344) -/
def stringFromUTF16 (chars : List UInt16) : Str :=
  if chars.all asciiU then .ascii (chars.map u2b) else .uni chars

/-- threshold of Runtime.ToValue(string) (runtime.go:1811) — tied to the source by Tie.eagerMax_ok -/
def eagerMax : Nat := 16

/-- Runtime.ToValue(string) (runtime.go:1810) -/
def toValue (s : List UInt8) : Str :=
  if s.length ≤ eagerMax then
    match scan s with
    | some _ => .imp s true
    | none => .ascii s
  else .imp s false

/-! ## Concat — all 3×3 pairs (string_ascii.go:327, string_unicode.go:470, string_imported.go:178) -/

def asciiConcat (s : List UInt8) (y : Str) : Str :=
  match devirt y with
  | .u u => .uni (s.map b2u ++ u)
  | .a a => .ascii (s ++ a)

def uniConcat (s : List UInt16) (y : Str) : Str :=
  match devirt y with
  | .u u => .uni (s ++ u)
  | .a a => .uni (s ++ a.map b2u)

def dvConcat : DV → Str → Str
  | .a s, y => asciiConcat s y
  | .u s, y => uniConcat s y

/-- `len(v.s) == 0 || utf8.RuneStart(v.s[0])` (string_imported.go:196, guard added by 3293be7):
the right operand does not start with a UTF-8 continuation byte. -/
def junctionSafe : List UInt8 → Bool
  | [] => true
  | b :: _ => !isCont b

def concat (x y : Str) : Str :=
  match x, y with
  | .imp s false, .imp t false =>
    -- unscanned + unscanned shortcut: join the Go strings (string_imported.go:192-199)
    if junctionSafe t then .imp (s ++ t) false else dvConcat (devirt (.imp s false)) (.imp t false)
  | x, y => dvConcat (devirt x) y

/-- the shortcut as it was before 3293be7 (no junction guard); kept for the regression witness only -/
def concatOld (x y : Str) : Str :=
  match x, y with
  | .imp s false, .imp t false => .imp (s ++ t) false
  | x, y => dvConcat (devirt x) y

/-- operand states after `x.Concat(y)` -/
def concatFx (x y : Str) : Str × Str :=
  match x, y with
  | .imp s false, .imp t false =>
    if junctionSafe t then (.imp s false, .imp t false) else (.imp s true, .imp t true)
  | x, y => (touch x, touch y)

/-! ## Substring (string_ascii.go:341, string_unicode.go:489, string_imported.go:191) -/

def uniSubstring (u : List UInt16) (st en : Nat) : Str :=
  let ss := slice u st en
  if ss.any nonAsciiU then .uni ss else .ascii (ss.map u2b)

def substring (x : Str) (st en : Nat) : Str :=
  match devirt x with
  | .a b => .ascii (slice b st en)
  | .u u => uniSubstring u st en

/-! ## CompareTo -/

/-- slices.Compare on []uint16 -/
def lexCmp : List UInt16 → List UInt16 → Int
  | [], [] => 0
  | [], _ :: _ => -1
  | _ :: _, [] => 1
  | a :: as, b :: bs => if a.toNat < b.toNat then -1 else if b.toNat < a.toNat then 1 else lexCmp as bs

/-- strings.Compare -/
def cmpBytes : List UInt8 → List UInt8 → Int
  | [], [] => 0
  | [], _ :: _ => -1
  | _ :: _, [] => 1
  | a :: as, b :: bs => if a.toNat < b.toNat then -1 else if b.toNat < a.toNat then 1 else cmpBytes as bs

/-- unicodeString.compareToAscii (string_unicode.go:510) -/
def cmpUA : List UInt16 → List UInt8 → Int
  | [], [] => 0
  | [], _ :: _ => -1
  | _ :: _, [] => 1
  | c1 :: r1, c2 :: r2 =>
    if c1.toNat < (b2u c2).toNat then -1 else if (b2u c2).toNat < c1.toNat then 1 else cmpUA r1 r2

def compareTo (x y : Str) : Int :=
  match devirt x, devirt y with
  | .a s, .a t => cmpBytes s t                 -- string_ascii.go:350
  | .a s, .u u => - cmpUA u s                  -- string_ascii.go:348
  | .u s, .u t => lexCmp s t                   -- string_unicode.go:535
  | .u s, .a t => cmpUA s t                    -- string_unicode.go:537

/-! ## StrictEquals / SameAs exactly as coded (SameAs delegates to StrictEquals in all three types) -/

def strictEq : Str → Str → Bool
  -- asciiString.StrictEquals (string_ascii.go:293)
  | .ascii s, .ascii t => s == t
  | .ascii s, .imp t _ => s == t       -- no scan: non-ASCII bytes never equal an ASCII string (string_ascii.go:336)
  | .ascii _, .uni _ => false
  -- unicodeString.StrictEquals (string_unicode.go:439)
  | .uni s, .uni t => s == t
  | .uni s, .imp t _ => match scan t with
    | some u => s == u
    | none => false
  | .uni _, .ascii _ => false
  -- importedString.StrictEquals (string_imported.go:109)
  | .imp s _, .ascii t => s == t       -- string_imported.go:128
  | .imp s _, .uni t => match scan s with
    | some u => u == t
    | none => false
  | .imp s _, .imp t _ =>
    if s == t then true
    else if validUtf8 s && validUtf8 t then false
    else match scan s, scan t with
      | some u, some v => u == v
      | _, _ => false

def sameAs (x y : Str) : Bool := strictEq x y

def strictEqFx : Str → Str → Str × Str
  | .uni s, .imp t _ => (.uni s, .imp t true)
  | .imp s _, .uni t => (.imp s true, .uni t)
  | .imp s sc, .imp t tc =>
    if s == t then (.imp s sc, .imp t tc)
    else if validUtf8 s && validUtf8 t then (.imp s sc, .imp t tc)
    else (.imp s true, .imp t true)
  | x, y => (x, y)

/-! ## unistring key encoding and hash preimage

`string()` (property key) and `hash` write the same bytes: the Go string itself for ASCII storage, the
little-endian bytes of the whole []uint16 INCLUDING the BOM for UTF-16 storage (unistring.FromUtf16). -/

def le16 (u : List UInt16) : List UInt8 :=
  u.flatMap (fun c => [UInt8.ofNat (c.toNat % 256), UInt8.ofNat (c.toNat / 256)])

def de16 : List UInt8 → List UInt16
  | lo :: hi :: rest => UInt16.ofNat (lo.toNat + 256 * hi.toNat) :: de16 rest
  | _ => []

/-- `string()` of the three types; also the preimage written by `hash`. -/
def keyOf (x : Str) : List UInt8 :=
  match devirt x with
  | .a s => s
  | .u u => le16 (BOM :: u)

def hashPre (x : Str) : List UInt8 := keyOf x

/-- unistring.String.AsUtf16 (unistring/string.go:108): payload after the BOM, or none. -/
def asUtf16 (k : List UInt8) : Option (List UInt16) :=
  if k.length < 4 || k.length % 2 != 0 then none
  else match de16 k with
    | c :: rest => if c == BOM then some rest else none
    | [] => none

/-- stringValueFromRaw (string.go:141) -/
def stringValueFromRaw (k : List UInt8) : Str :=
  match asUtf16 k with
  | some u => .uni u
  | none => .ascii k

/-! ## StringBuilder / unicodeStringBuilder (string_unicode.go:46-340)

`started` ⇔ `len(unicodeBuilder.buf) != 0` (the BOM has been written) ⇔ `!b.ascii()`.
`ubuf` is the payload after the BOM. -/

structure SB where
  abuf : List UInt8 := []
  started : Bool := false
  ubuf : List UInt16 := []
  unicode : Bool := false
  deriving Repr

def SB.empty : SB := {}

/-- switchToUnicode (string_unicode.go:304); writeASCIIString ranges over ASCII bytes. -/
def SB.switchToUnicode (b : SB) : SB :=
  if b.started then b else { abuf := [], started := true, ubuf := b.abuf.map b2u, unicode := b.unicode }

/-- WriteString (string_unicode.go:224) -/
def SB.writeString (b : SB) (s : Str) : SB :=
  match devirt s with
  | .u u => { b.switchToUnicode with ubuf := b.switchToUnicode.ubuf ++ u, unicode := true }
  | .a a => if b.started then { b with ubuf := b.ubuf ++ a.map b2u } else { b with abuf := b.abuf ++ a }

/-- writeRuneFast (string_unicode.go:190), for 0 <= r <= 0x10FFFF -/
def SB.writeRuneFast (b : SB) (r : Nat) : SB :=
  if r ≤ 0xFFFF then { b with ubuf := b.ubuf ++ [UInt16.ofNat r], unicode := b.unicode || decide (0x80 ≤ r) }
  else { b with ubuf := b.ubuf ++ utf16One r, unicode := true }

/-- WriteRune (string_unicode.go:264), for 0 <= r <= 0x10FFFF -/
def SB.writeRune (b : SB) (r : Nat) : SB :=
  if r < 0x80 then
    if b.started then b.writeRuneFast r else { b with abuf := b.abuf ++ [UInt8.ofNat r] }
  else b.switchToUnicode.writeRuneFast r

/-- WriteUTF8String (string_unicode.go:238) -/
def SB.writeUTF8 (b : SB) (s : List UInt8) : SB :=
  if b.started then (decode s).foldl SB.writeRuneFast b
  else if s.all asciiB then { b with abuf := b.abuf ++ s }
  else
    let b1 := b.switchToUnicode
    (decode (s.dropWhile asciiB)).foldl SB.writeRuneFast
      { b1 with ubuf := b1.ubuf ++ (s.takeWhile asciiB).map b2u }

/-- WriteSubstring (string_unicode.go:316, as repaired by 58560e3) -/
def SB.writeSubstring (b : SB) (src : Str) (st en : Nat) : SB :=
  match devirt src with
  | .a a =>
    if b.started then { b with ubuf := b.ubuf ++ (slice a st en).map b2u }
    else { b with abuf := b.abuf ++ slice a st en }
  | .u us =>
    let ss := slice us st en
    if b.started then { b with ubuf := b.ubuf ++ ss, unicode := b.unicode || ss.any nonAsciiU }
    else if ss.any nonAsciiU then
      { b.switchToUnicode with ubuf := b.switchToUnicode.ubuf ++ ss, unicode := b.switchToUnicode.unicode || ss.any nonAsciiU }
    else { b with abuf := b.abuf ++ ss.map u2b }

/-- StringBuilder.String (string_unicode.go:279) + unicodeStringBuilder.String (string_unicode.go:170) -/
def SB.toStr (b : SB) : Str :=
  if b.started then
    if b.unicode then .uni b.ubuf else .ascii (b.ubuf.map u2b)
  else .ascii b.abuf

/-- SPEC: the units a builder holds -/
def SB.units (b : SB) : List UInt16 := b.abuf.map b2u ++ b.ubuf

/-- builder invariant: the `unicode` flag says exactly whether the UTF-16 buffer has a non-ASCII unit. -/
def SB.Inv (b : SB) : Prop :=
  b.abuf.all asciiB = true ∧ (b.started = false → b.ubuf = [] ∧ b.unicode = false) ∧
  (b.started = true → b.abuf = []) ∧ b.unicode = b.ubuf.any nonAsciiU

/-! ## concatStrings (vm.go:5262): template literals -/

def DV.bytes : DV → List UInt8
  | .a bs => bs
  | .u _ => []

def concatStrings (l : List Str) : Str :=
  let ds := l.map devirt
  if ds.all DV.isA then .ascii (ds.flatMap DV.bytes) else .uni (ds.flatMap DV.units)

end GojaModel.C06
