#!/bin/sh
# MANIFEST.setup_cmd: build the framework from files on disk only (offline).
# Builds the shared Lean modules, then per property: regenerated facts, Props/Tie (all theorems are re-checked here),
# the model driver executable and the Go harness. A failure in ONE property's build is reported but does not fail
# setup: that property's own check rebuilds its targets, attributes the failure to a declaration and reports it as
# a broken obligation. Only a failure of the shared base fails setup.
cd "$(dirname "$0")" || exit 2
export GOFLAGS=-mod=mod GOPROXY=off
mkdir -p .build lean/GojaModel/Generated evidence
PROPS=$(python3 -c "import json;print(' '.join(c['property_id'] for c in json.load(open('MANIFEST.json'))['checks']))")
(cd lean && lake build GojaModel.Base.Proto GojaModel.Audit) || { echo "setup: shared Lean base failed"; exit 1; }
(cd extract && go build -o ../.build/extract .) || { echo "setup: extractor failed to build"; exit 1; }
cp /repo/go.sum harness/go.sum 2>/dev/null
failed=""
for p in $PROPS; do
  low=$(echo "$p" | tr 'A-Z' 'a-z')
  ./.build/extract -repo "${VERIF_REPO:-/repo}" -out lean/GojaModel/Generated -only "$p" >/dev/null 2>.build/extract_$p.err || { echo "setup: extractor reported a problem for $p (see its check)"; failed="$failed $p"; }
done
# one lake invocation for all properties (parallel), then per property to find out which ones failed
targets=""
for p in $PROPS; do
  low=$(echo "$p" | tr 'A-Z' 'a-z')
  [ -f "lean/GojaModel/$p/Props.lean" ] && targets="$targets GojaModel.$p.Props"
  [ -f "lean/GojaModel/$p/Tie.lean" ] && targets="$targets GojaModel.$p.Tie"
  [ -f "lean/GojaModel/$p/Driver.lean" ] && targets="$targets model_$low"
done
if ! (cd lean && lake build $targets) >.build/lake_all.log 2>&1; then
  tail -5 .build/lake_all.log
  for p in $PROPS; do
    low=$(echo "$p" | tr 'A-Z' 'a-z')
    t=""
    [ -f "lean/GojaModel/$p/Props.lean" ] && t="$t GojaModel.$p.Props"
    [ -f "lean/GojaModel/$p/Tie.lean" ] && t="$t GojaModel.$p.Tie"
    [ -f "lean/GojaModel/$p/Driver.lean" ] && t="$t model_$low"
    (cd lean && lake build $t) >.build/lake_$p.log 2>&1 || { echo "setup: Lean build of $p failed (its check will report the broken obligation)"; failed="$failed $p"; }
  done
fi
for p in $PROPS; do
  low=$(echo "$p" | tr 'A-Z' 'a-z')
  if [ -d "harness/cmd/$low" ]; then
    (cd harness && go build -tags verif -o "../.build/harness_$low" "./cmd/$low") 2>.build/gobuild_$p.err || { echo "setup: harness of $p failed to build"; failed="$failed $p"; }
  fi
done
[ -n "$failed" ] && echo "setup: problems in:$failed"
exit 0
