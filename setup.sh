#!/bin/sh
# MANIFEST.setup_cmd: build the framework from files on disk only (offline).
# Builds the Lean library of every claimed property (all theorems are re-checked here), the model
# driver executables, and warms the Go build cache for extractor and harnesses.
cd "$(dirname "$0")" || exit 2
export GOFLAGS=-mod=mod GOPROXY=off
mkdir -p .build lean/GojaModel/Generated evidence
PROPS=$(python3 -c "import json;print(' '.join(c['property_id'] for c in json.load(open('MANIFEST.json'))['checks']))")
rc=0
# regenerate facts first (Tie modules import Generated/*)
if [ -f extract/main.go ]; then
  (cd extract && go build -o ../.build/extract . && ../.build/extract -repo "${VERIF_REPO:-/repo}" -out ../lean/GojaModel/Generated) || rc=1
fi
targets="GojaModel.Audit"
for p in $PROPS; do
  low=$(echo "$p" | tr 'A-Z' 'a-z')
  [ -f "lean/GojaModel/$p/Props.lean" ] && targets="$targets GojaModel.$p.Props"
  [ -f "lean/GojaModel/$p/Tie.lean" ] && targets="$targets GojaModel.$p.Tie"
  [ -f "lean/GojaModel/$p/Driver.lean" ] && targets="$targets model_$low"
done
(cd lean && lake build $targets) || rc=1
cp /repo/go.sum harness/go.sum 2>/dev/null
for p in $PROPS; do
  low=$(echo "$p" | tr 'A-Z' 'a-z')
  if [ -d "harness/cmd/$low" ]; then
    (cd harness && go build -tags verif -o "../.build/harness_$low" "./cmd/$low") || rc=1
  fi
done
exit $rc
