package main

// C13: regenerate the case order of Runtime.toValue (runtime.go): the type switch on the dynamic type, the
// reflect.Kind switch that follows the pointer-stripping loop, and the list of admissible map key kinds.

import (
	"fmt"
	"sort"
	"go/ast"
	"go/types"
	"strings"
)

func init() { Register("C13", genC13) }

func genC13(p *Pkg) (map[string]string, error) {
	fd := p.FuncDecl("Runtime", "toValue")
	if fd == nil || fd.Body == nil {
		return nil, fmt.Errorf("Runtime.toValue not found")
	}
	var typeCases, kindCases, keyKinds []string
	var ts *ast.TypeSwitchStmt
	if len(fd.Body.List) > 0 {
		ts, _ = fd.Body.List[0].(*ast.TypeSwitchStmt)
	}
	if ts == nil {
		return nil, fmt.Errorf("Runtime.toValue does not start with a type switch")
	}
	for _, c := range ts.Body.List {
		cc := c.(*ast.CaseClause)
		if cc.List == nil {
			return nil, fmt.Errorf("type switch of toValue has a default clause")
		}
		var names []string
		for _, e := range cc.List {
			names = append(names, types.ExprString(e))
		}
		typeCases = append(typeCases, strings.Join(names, "|"))
	}
	isKindCall := func(e ast.Expr) bool {
		call, ok := e.(*ast.CallExpr)
		if !ok {
			return false
		}
		sel, ok := call.Fun.(*ast.SelectorExpr)
		return ok && sel.Sel.Name == "Kind"
	}
	nKind := 0
	var walkErr error
	ast.Inspect(fd.Body, func(n ast.Node) bool {
		sw, ok := n.(*ast.SwitchStmt)
		if !ok || sw.Tag == nil || !isKindCall(sw.Tag) {
			return true
		}
		tag := types.ExprString(sw.Tag)
		for _, c := range sw.Body.List {
			cc := c.(*ast.CaseClause)
			var names []string
			for _, e := range cc.List {
				names = append(names, types.ExprString(e))
			}
			switch tag {
			case "value.Kind()":
				if cc.List == nil {
					walkErr = fmt.Errorf("kind switch has a default clause")
				}
				kindCases = append(kindCases, strings.Join(names, "|"))
			case "value.Type().Key().Kind()":
				keyKinds = append(keyKinds, names...)
			default:
				walkErr = fmt.Errorf("unexpected Kind switch on %s", tag)
			}
		}
		nKind++
		return true
	})
	if walkErr != nil {
		return nil, walkErr
	}
	if nKind != 2 {
		return nil, fmt.Errorf("expected 2 Kind switches in toValue, found %d", nKind)
	}
	list := func(xs []string) string {
		q := make([]string, len(xs))
		for i, x := range xs {
			q[i] = LeanString(x)
		}
		return "[" + strings.Join(q, ", ") + "]"
	}
	// the guards the mechanism model relies on: source text of the first statement of each function, if it is an `if`
	firstIf := func(recv, name string) (string, error) {
		fd := p.FuncDecl(recv, name)
		if fd == nil || fd.Body == nil || len(fd.Body.List) == 0 {
			return "", fmt.Errorf("%s.%s not found", recv, name)
		}
		ifs, ok := fd.Body.List[0].(*ast.IfStmt)
		if !ok {
			return "", nil
		}
		s := ""
		if ifs.Init != nil {
			if as, ok := ifs.Init.(*ast.AssignStmt); ok && len(as.Lhs) == 1 && len(as.Rhs) == 1 {
				s = types.ExprString(as.Lhs[0]) + " := " + types.ExprString(as.Rhs[0]) + "; "
			} else {
				return "", fmt.Errorf("%s.%s: unexpected init statement in leading if", recv, name)
			}
		}
		return s + types.ExprString(ifs.Cond), nil
	}
	var guards []string
	for _, fn := range [][2]string{{"objectGoArrayReflect", "_putIdx"}, {"objectGoArrayReflect", "swap"}, {"objectGoSlice", "swap"}} {
		g, err := firstIf(fn[0], fn[1])
		if err != nil {
			return nil, err
		}
		guards = append(guards, fn[0]+"."+fn[1]+": "+g)
	}
	// wrapReflectFunc returns a closure: the leading if of the closure body
	if wf := p.FuncDecl("Runtime", "wrapReflectFunc"); wf != nil && wf.Body != nil && len(wf.Body.List) == 1 {
		g := ""
		if ret, ok := wf.Body.List[0].(*ast.ReturnStmt); ok && len(ret.Results) == 1 {
			if fl, ok := ret.Results[0].(*ast.FuncLit); ok && len(fl.Body.List) > 0 {
				if ifs, ok := fl.Body.List[0].(*ast.IfStmt); ok && ifs.Init == nil {
					g = types.ExprString(ifs.Cond)
				}
			}
		}
		guards = append(guards, "Runtime.wrapReflectFunc.closure: "+g)
	} else {
		return nil, fmt.Errorf("Runtime.wrapReflectFunc: unexpected shape")
	}
	if p.FuncDecl("argumentsObject", "exportType") != nil {
		guards = append(guards, "argumentsObject.exportType: present")
	} else {
		guards = append(guards, "argumentsObject.exportType: absent")
	}
	// structural facts about the bodies the models transcribe (decision structure, not incidental statements)
	inBody := func(recv, name string, pred func(ast.Node) bool) (bool, error) {
		fd := p.FuncDecl(recv, name)
		if fd == nil || fd.Body == nil {
			return false, fmt.Errorf("%s.%s not found", recv, name)
		}
		found := false
		ast.Inspect(fd.Body, func(n ast.Node) bool {
			if n != nil && pred(n) {
				found = true
			}
			return !found
		})
		return found, nil
	}
	callsFn := func(name string) func(ast.Node) bool {
		return func(n ast.Node) bool {
			c, ok := n.(*ast.CallExpr)
			if !ok {
				return false
			}
			s := types.ExprString(c.Fun)
			return s == name || strings.HasSuffix(s, "."+name)
		}
	}
	rangesOver := func(x string, inner func(ast.Node) bool) func(ast.Node) bool {
		return func(n ast.Node) bool {
			r, ok := n.(*ast.RangeStmt)
			if !ok || types.ExprString(r.X) != x {
				return false
			}
			hit := false
			ast.Inspect(r.Body, func(m ast.Node) bool {
				if m != nil && inner(m) {
					hit = true
				}
				return !hit
			})
			return hit
		}
	}
	assignsTo := func(lhs string) func(ast.Node) bool {
		return func(n ast.Node) bool {
			a, ok := n.(*ast.AssignStmt)
			if !ok {
				return false
			}
			for _, l := range a.Lhs {
				if types.ExprString(l) == lhs {
					return true
				}
			}
			return false
		}
	}
	type fact struct {
		label, recv, name string
		pred              func(ast.Node) bool
	}
	for _, f := range []fact{
		{"objectGoReflect.setReflectValue: re-points the cached field wrappers", "objectGoReflect", "setReflectValue", rangesOver("o.valueCache", callsFn("setReflectValue"))},
		{"objectGoArrayReflect.setReflectValue: re-points the cached element wrappers", "objectGoArrayReflect", "setReflectValue", rangesOver("o.valueCache", callsFn("setReflectValue"))},
		{"valueArrayCache.shrink: detaches the cut-off wrappers", "valueArrayCache", "shrink", rangesOver("tail", callsFn("copyReflectValueWrapper"))},
		{"valueArrayCache.shrink: clears the cut-off slots", "valueArrayCache", "shrink", rangesOver("tail", assignsTo("tail[i]"))},
		{"objectGoArrayReflect._putIdx: detaches the cached wrapper", "objectGoArrayReflect", "_putIdx", callsFn("copyReflectValueWrapper")},
		{"objectGoArrayReflect._deleteIdx: detaches the cached wrapper", "objectGoArrayReflect", "_deleteIdx", callsFn("copyReflectValueWrapper")},
		{"objectGoSliceReflect.grow: re-points the cached wrappers after re-allocation", "objectGoSliceReflect", "grow", callsFn("setReflectValue")},
		{"objectGoSlice.grow: clears the re-exposed tail", "objectGoSlice", "grow", rangesOver("tail", assignsTo("tail[k]"))},
		{"objectGoSlice.shrink: clears the cut-off tail", "objectGoSlice", "shrink", rangesOver("tail", assignsTo("tail[k]"))},
		{"objectExportCtx.putTyped: carries an earlier untyped entry into the per-type table", "objectExportCtx", "putTyped", assignsTo("m[key.self.exportType()]")},
		{"objectGoArrayReflect._putIdx: re-attaches the wrapper when the conversion fails", "objectGoArrayReflect", "_putIdx", callsFn("setReflectValue")},
		{"objectGoArrayReflect._putIdx: drops the cache entry after a successful store", "objectGoArrayReflect", "_putIdx", assignsTo("o.valueCache[idx]")},
		{"objectGoReflect._put: detaches the cached field wrapper", "objectGoReflect", "_put", callsFn("copyReflectValueWrapper")},
		{"objectGoReflect._put: re-attaches the wrapper when the conversion fails", "objectGoReflect", "_put", callsFn("setReflectValue")},
		{"objectGoReflect._put: drops the cache entry after a successful store", "objectGoReflect", "_put", callsFn("delete")},
		{"copyReflectValueWrapper: re-points the wrapper through setReflectValue", "", "copyReflectValueWrapper", callsFn("setReflectValue")},
		{"objectGoArrayReflect.swap: moves the cached wrappers with the elements", "objectGoArrayReflect", "swap", callsFn("setReflectValue")},
		{"mapObject.export: consults the identity cache on entry", "mapObject", "export", callsFn("get")},
		{"setObject.export: consults the identity cache on entry", "setObject", "export", callsFn("get")},
		{"baseObject.export: caches before exporting the children", "baseObject", "export", callsFn("put")},
		{"arrayObject.export: caches before exporting the children", "arrayObject", "export", callsFn("put")},
	} {
		ok, err := inBody(f.recv, f.name, f.pred)
		if err != nil {
			return nil, err
		}
		if ok {
			guards = append(guards, f.label)
		} else {
			guards = append(guards, "MISSING "+f.label)
		}
	}
	// decision order of Runtime.toReflectValue: the leading `if typ == …` tests, then the Kind switch's case list
	var toReflect []string
	if fd := p.FuncDecl("Runtime", "toReflectValue"); fd != nil && fd.Body != nil {
		for _, st := range fd.Body.List {
			switch s := st.(type) {
			case *ast.IfStmt:
				if s.Init == nil {
					toReflect = append(toReflect, "if "+types.ExprString(s.Cond))
				}
			case *ast.ForStmt:
				toReflect = append(toReflect, "for: AssignableTo / ConvertibleTo / pointer-stripping loop")
			case *ast.SwitchStmt:
				if s.Tag != nil && types.ExprString(s.Tag) == "kind" {
					for _, c := range s.Body.List {
						cc := c.(*ast.CaseClause)
						var names []string
						for _, e := range cc.List {
							names = append(names, types.ExprString(e))
						}
						toReflect = append(toReflect, "case "+strings.Join(names, "|"))
					}
				}
			}
		}
	} else {
		return nil, fmt.Errorf("Runtime.toReflectValue not found")
	}
	// the argument loop of wrapReflectFunc: the conditions that decide where a script argument goes
	var argLoop []string
	if wf := p.FuncDecl("Runtime", "wrapReflectFunc"); wf != nil {
		ast.Inspect(wf.Body, func(n ast.Node) bool {
			r, ok := n.(*ast.RangeStmt)
			if !ok || types.ExprString(r.X) != "call.Arguments" {
				return true
			}
			ast.Inspect(r.Body, func(m ast.Node) bool {
				if ifs, ok := m.(*ast.IfStmt); ok && ifs.Init == nil {
					c := types.ExprString(ifs.Cond)
					if strings.Contains(c, "nargs") {
						argLoop = append(argLoop, c)
					}
				}
				return true
			})
			return false
		})
		ast.Inspect(wf.Body, func(n ast.Node) bool {
			if ifs, ok := n.(*ast.IfStmt); ok && ifs.Init != nil {
				if as, ok := ifs.Init.(*ast.AssignStmt); ok && len(as.Rhs) == 1 && types.ExprString(as.Rhs[0]) == "len(call.Arguments)" {
					argLoop = append([]string{"alloc: " + types.ExprString(ifs.Cond)}, argLoop...)
				}
			}
			return true
		})
	}
	// typed export dispatch: which implementation classes have their own exportToArrayOrSlice / exportToMap, which of
	// those methods enter their container into the identity cache, and the order of the generic function's tests
	var dispatch []string
	for _, meth := range []string{"exportToArrayOrSlice", "exportToMap"} {
		var recvs []string
		fnames := make([]string, 0, len(p.Files))
		for n := range p.Files {
			fnames = append(fnames, n)
		}
		sort.Strings(fnames)
		for _, n := range fnames {
			for _, d := range p.Files[n].Decls {
				fd, ok := d.(*ast.FuncDecl)
				if !ok || fd.Name.Name != meth || fd.Recv == nil || len(fd.Recv.List) != 1 {
					continue
				}
				rt := fd.Recv.List[0].Type
				if s, ok := rt.(*ast.StarExpr); ok {
					rt = s.X
				}
				recvs = append(recvs, types.ExprString(rt))
			}
		}
		sort.Strings(recvs)
		for _, rc := range recvs {
			dispatch = append(dispatch, meth+"@"+rc)
		}
	}
	for _, f := range []fact{
		{"arrayObject.exportToArrayOrSlice: caches", "arrayObject", "exportToArrayOrSlice", callsFn("putTyped")},
		{"sparseArrayObject.exportToArrayOrSlice: caches", "sparseArrayObject", "exportToArrayOrSlice", callsFn("putTyped")},
		{"setObject.exportToArrayOrSlice: caches", "setObject", "exportToArrayOrSlice", callsFn("putTyped")},
		{"mapObject.exportToMap: caches", "mapObject", "exportToMap", callsFn("putTyped")},
		{"setObject.exportToMap: caches", "setObject", "exportToMap", callsFn("putTyped")},
		{"genericExportToArrayOrSlice: caches", "", "genericExportToArrayOrSlice", callsFn("putTyped")},
		{"genericExportToMap: caches", "", "genericExportToMap", callsFn("putTyped")},
		{"genericExportToArrayOrSlice: array-like only for non-callables", "", "genericExportToArrayOrSlice", callsFn("assertCallable")},
		{"arrayObject.exportToArrayOrSlice: generic path when Symbol.iterator is overridden", "arrayObject", "exportToArrayOrSlice", callsFn("getArrayValues")},
	} {
		ok, err := inBody(f.recv, f.name, f.pred)
		if err != nil {
			return nil, err
		}
		if ok {
			dispatch = append(dispatch, f.label)
		} else {
			dispatch = append(dispatch, "MISSING "+f.label)
		}
	}
	if g, err := firstIf("", "genericExportToArrayOrSlice"); err != nil {
		return nil, err
	} else {
		// the first statement is `r := o.runtime`; firstIf looks at statement 0 only, so look at statement 1 here
		_ = g
	}
	if fd := p.FuncDecl("", "genericExportToArrayOrSlice"); fd != nil && len(fd.Body.List) >= 2 {
		if ifs, ok := fd.Body.List[1].(*ast.IfStmt); ok && ifs.Init != nil {
			if as, ok := ifs.Init.(*ast.AssignStmt); ok && len(as.Rhs) == 1 {
				if strings.Contains(types.ExprString(as.Rhs[0]), "SymIterator") {
					dispatch = append(dispatch, "genericExportToArrayOrSlice: iterable test first")
				} else {
					dispatch = append(dispatch, "MISSING genericExportToArrayOrSlice: iterable test first")
				}
			}
		}
	}
	var b strings.Builder
	b.WriteString("-- generated by extract/c13.go from runtime.go (Runtime.toValue) and the Go wrapper files; do not edit\n")
	b.WriteString("namespace GojaModel.Generated.C13\n")
	b.WriteString("def toValueTypeCases : List String := " + list(typeCases) + "\n")
	b.WriteString("def toValueKindCases : List String := " + list(kindCases) + "\n")
	b.WriteString("def toValueMapKeyKinds : List String := " + list(keyKinds) + "\n")
	b.WriteString("def guards : List String := " + list(guards) + "\n")
	b.WriteString("def toReflectOrder : List String := " + list(toReflect) + "\n")
	b.WriteString("def argLoopConds : List String := " + list(argLoop) + "\n")
	b.WriteString("def exportDispatch : List String := " + list(dispatch) + "\n")
	b.WriteString("end GojaModel.Generated.C13\n")
	return map[string]string{"C13_ToValue.lean": b.String()}, nil
}
