package main

// Go -> Lean translation of goja's numeric DECISION functions (C05).
//
// Subset: function bodies made of `if` (with optional `x := e` / `i, ok := f(x)` init), condition-only `switch`,
// `return`, `panic(...)`, and — for float64ToInt64Mod — re-assignments of the float parameter; expressions made of
// && || ! comparisons, integer + and -, the math.* predicates, int64()/float64() conversions, the Value constructors and
// the canonicaliser calls.  Each Go expression form maps to one definition of lean/GojaModel/C05/GenPrelude.lean.
// Anything else is an error ("tie not regenerable"), never a guess.  Lean/GojaModel/C05/DecTie.lean proves each
// translated function equal to the hand model for ALL inputs.

import (
	"bytes"
	"fmt"
	"go/ast"
	"go/token"
	"strings"
)

type ty int

const (
	tFloat ty = iota
	tInt
	tBool
	tValue
	tNat
	tStr
	tChar
	tOptInt
	tHalf // an integer-valued float plus 0.5
	tOther
)

type trEnv struct {
	p      *Pkg
	vars   map[string]ty
	consts map[string]string // Go constant name -> Lean Int term
	ret    string            // "plain" | "okpair" | "panicopt" | "nat" | "valerr"
	errNil string            // inside a `v, err := …` match arm: the Lean truth value of `err == nil`
	u8     map[string]bool       // variables of Go type uint8 (arithmetic on them wraps)
	labels map[string][]ast.Stmt // top-level labelled continuation of the function body (for `goto L`)
}

func (e *trEnv) clone() *trEnv {
	n := &trEnv{p: e.p, vars: map[string]ty{}, consts: e.consts, ret: e.ret, errNil: e.errNil, labels: e.labels, u8: e.u8}
	for k, v := range e.vars {
		n.vars[k] = v
	}
	return n
}

var intConsts = map[string]string{
	"maxInt": "maxInt", "math.MaxInt64": "maxInt64", "math.MinInt64": "minInt64", "math.MaxInt32": "maxInt32",
	"bits.UintSize": "(64 : Int)", "two63": "two63", "two64": "two64", "math.MaxUint32": "(4294967295 : Int)",
}

var valueIdents = map[string]string{
	"_negativeZero": "Num.flt F64.negZero", "_NaN": "Num.flt F64.canonNaN",
	"_positiveInf": "Num.flt F64.posInf", "_negativeInf": "Num.flt F64.negInf", "_positiveZero": "Num.int 0",
}

func (e *trEnv) text(n ast.Node) string { return exprText(e.p.Fset, n) }

// expr translates an expression; returns Lean text and its type.
func (e *trEnv) expr(x ast.Expr) (string, ty, error) {
	switch v := x.(type) {
	case *ast.ParenExpr:
		s, t, err := e.expr(v.X)
		return "(" + s + ")", t, err
	case *ast.BasicLit:
		if v.Kind == token.CHAR {
			r := []rune(strings.Trim(v.Value, "'"))
			if len(r) == 1 {
				return fmt.Sprintf("(0x%X : Nat)", r[0]), tChar, nil
			}
		}
		if v.Kind == token.STRING && v.Value == `""` {
			return "([] : List Nat)", tStr, nil
		}
		if v.Kind == token.INT {
			if e.ret == "nat" {
				return "(" + v.Value + " : Nat)", tNat, nil
			}
			return "(" + v.Value + " : Int)", tInt, nil
		}
	case *ast.Ident:
		if t, ok := e.vars[v.Name]; ok {
			return v.Name, t, nil
		}
		if c, ok := intConsts[v.Name]; ok {
			return c, tInt, nil
		}
		if c, ok := valueIdents[v.Name]; ok {
			return c, tValue, nil
		}
		if v.Name == "true" || v.Name == "false" {
			return v.Name, tBool, nil
		}
	case *ast.SelectorExpr:
		if c, ok := intConsts[e.text(v)]; ok {
			return c, tInt, nil
		}
	case *ast.UnaryExpr:
		s, t, err := e.expr(v.X)
		if err != nil {
			return "", tOther, err
		}
		switch v.Op {
		case token.NOT:
			if t == tBool {
				return "!" + s, tBool, nil
			}
		case token.SUB:
			if t == tInt {
				return "(-" + s + ")", tInt, nil
			}
		}
	case *ast.SliceExpr:
		if v.High == nil && v.Max == nil && v.Low != nil {
			x, tx, err := e.expr(v.X)
			if lit, ok := v.Low.(*ast.BasicLit); ok && err == nil && tx == tStr && lit.Kind == token.INT {
				return "(" + x + ".drop " + lit.Value + ")", tStr, nil
			}
		}
	case *ast.IndexExpr:
		if x, tx, err := e.expr(v.X); err == nil && tx == tStr {
			if lit, ok := v.Index.(*ast.BasicLit); ok && lit.Kind == token.INT {
				return "(" + x + ".getD " + lit.Value + " 0)", tChar, nil // guarded by a length test in the source
			}
		}
		// intCache[idx] = valueInt(idx - 256)   (value.go init: `intCache[i] = valueInt(i - 256)`, pinned by intCache_tie)
		if e.text(v.X) == "intCache" {
			s, t, err := e.expr(v.Index)
			if err == nil && t == tInt {
				return "Num.int (" + s + " - 256)", tValue, nil
			}
		}
	case *ast.BinaryExpr:
		switch v.Op {
		case token.LAND, token.LOR:
			a, ta, err := e.expr(v.X)
			if err != nil {
				return "", tOther, err
			}
			b, tb, err := e.expr(v.Y)
			if err != nil {
				return "", tOther, err
			}
			if ta == tBool && tb == tBool {
				op := " && "
				if v.Op == token.LOR {
					op = " || "
				}
				return "(" + a + op + b + ")", tBool, nil
			}
		case token.QUO, token.REM:
			a, ta, err := e.expr(v.X)
			if err != nil {
				return "", tOther, err
			}
			b, tb, err := e.expr(v.Y)
			if err != nil {
				return "", tOther, err
			}
			if ta == tInt && tb == tInt { // Go's truncated int64 division / remainder
				fn := "goQuot"
				if v.Op == token.REM {
					fn = "goRem"
				}
				return "(" + fn + " " + a + " " + b + ")", tInt, nil
			}
		case token.AND:
			// r&1 on an integer: its lowest bit
			if lit, ok := v.Y.(*ast.BasicLit); ok && lit.Kind == token.INT && lit.Value == "1" {
				a, ta, err := e.expr(v.X)
				if err == nil && ta == tInt {
					return "(" + a + " % 2)", tInt, nil
				}
			}
		case token.ADD, token.SUB:
			if lit, ok := v.Y.(*ast.BasicLit); ok && v.Op == token.ADD && lit.Kind == token.FLOAT && lit.Value == "0.5" {
				a, ta, err := e.expr(v.X)
				if err == nil && ta == tInt {
					return a, tHalf, nil // the integer part; compared with halfLt / halfGt
				}
			}
			a, ta, err := e.expr(v.X)
			if err != nil {
				return "", tOther, err
			}
			b, tb, err := e.expr(v.Y)
			if err != nil {
				return "", tOther, err
			}
			if ta == tInt && tb == tInt {
				if id, ok := v.X.(*ast.Ident); ok && e.u8[id.Name] {
					return "wrapU 8 (" + a + " " + v.Op.String() + " " + b + ")", tInt, nil // uint8 arithmetic wraps
				}
				return "(" + a + " " + v.Op.String() + " " + b + ")", tInt, nil
			}
		case token.EQL, token.NEQ, token.LSS, token.LEQ, token.GTR, token.GEQ:
			// f == math.Trunc(f)
			if c, ok := v.Y.(*ast.CallExpr); ok && v.Op == token.EQL && e.text(c.Fun) == "math.Trunc" && len(c.Args) == 1 && e.text(c.Args[0]) == e.text(v.X) {
				if id, ok := v.X.(*ast.Ident); ok && e.vars[id.Name] == tFloat {
					return "eqTrunc " + id.Name, tBool, nil
				}
			}
			if e.text(v.X) == "err" && e.text(v.Y) == "nil" && e.errNil != "" {
				if v.Op == token.EQL {
					return e.errNil, tBool, nil
				}
				return "!" + e.errNil, tBool, nil
			}
			a, ta, err := e.expr(v.X)
			if err != nil {
				return "", tOther, err
			}
			b, tb, err := e.expr(v.Y)
			if err != nil {
				return "", tOther, err
			}
			if ta == tChar && tb == tChar && v.Op == token.EQL {
				return "decide (" + a + " = " + b + ")", tBool, nil
			}
			if ta == tStr && tb == tStr && v.Op == token.EQL {
				return "decide (" + a + " = " + b + ")", tBool, nil
			}
			if ta == tHalf && tb == tFloat && (v.Op == token.LSS || v.Op == token.GTR) {
				fn := "halfLt"
				if v.Op == token.GTR {
					fn = "halfGt"
				}
				return fn + " " + a + " " + b, tBool, nil
			}
			if ta == tFloat && tb == tInt {
				// IEEE comparison of a float64 variable with an integer-valued constant (converted to float64 by Go)
				fn := map[token.Token]string{token.EQL: "eqI", token.NEQ: "neI", token.LSS: "ltI", token.LEQ: "leI", token.GTR: "gtI", token.GEQ: "geI"}[v.Op]
				return fn + " " + a + " (fconst " + b + ")", tBool, nil
			}
			if ta == tFloat && tb == tFloat && (v.Op == token.EQL || v.Op == token.NEQ) { // IEEE == on two doubles
				if v.Op == token.EQL {
					return "F64.feq " + a + " " + b, tBool, nil
				}
				return "!(F64.feq " + a + " " + b + ")", tBool, nil
			}
			if ta == tBool && tb == tBool && v.Op == token.EQL {
				return "(" + a + " == " + b + ")", tBool, nil
			}
			if ta == tFloat && tb == tValue && v.Op == token.EQL { // valueFloat == Value constant: same dynamic type, float ==
				if strings.HasPrefix(b, "Num.flt ") {
					return "F64.feq " + a + " (" + strings.TrimPrefix(b, "Num.flt ") + ")", tBool, nil
				}
			}
			if ta == tInt && tb == tValue && v.Op == token.EQL { // valueInt == Value: interface equality
				return "decide (Num.int " + a + " = " + b + ")", tBool, nil
			}
			if ta == tValue && tb == tValue && v.Op == token.NEQ && strings.HasPrefix(b, "Num.flt ") {
				return "!(valueEqFloat " + a + " (" + strings.TrimPrefix(b, "Num.flt ") + "))", tBool, nil
			}
			if ta == tValue && tb == tValue && v.Op == token.EQL && strings.HasPrefix(b, "Num.flt ") {
				// Value == Value constant of dynamic type valueFloat: equal dynamic type and float ==
				return "valueEqFloat " + a + " (" + strings.TrimPrefix(b, "Num.flt ") + ")", tBool, nil
			}
			if ta == tInt && tb == tInt {
				op := map[token.Token]string{token.EQL: "=", token.NEQ: "≠", token.LSS: "<", token.LEQ: "≤", token.GTR: ">", token.GEQ: "≥"}[v.Op]
				return "decide (" + a + " " + op + " " + b + ")", tBool, nil
			}
		}
	case *ast.CallExpr:
		fn := e.text(v.Fun)
		args := make([]string, len(v.Args))
		tys := make([]ty, len(v.Args))
		for i, a := range v.Args {
			s, t, err := e.expr(a)
			if err != nil {
				return "", tOther, err
			}
			args[i], tys[i] = s, t
		}
		one := func(t ty) bool { return len(args) == 1 && tys[0] == t }
		switch {
		case fn == "len" && one(tStr):
			return "(" + args[0] + ".length : Int)", tInt, nil
		case fn == "radixPrefix" && one(tStr):
			return "(radixPrefix " + args[0] + " : Int)", tInt, nil
		case fn == "strconv.ParseInt" && len(args) == 3 && tys[0] == tStr && tys[1] == tInt && args[2] == "(64 : Int)":
			return "StrNum.goParseInt " + args[0] + " (" + args[1] + ").toNat", tOptInt, nil
		case fn == "math.Floor" && one(tFloat):
			return "floorF " + args[0], tInt, nil // an integer-valued float, kept as its exact integer
		case fn == "math.Signbit" && one(tFloat):
			return "signbit " + args[0], tBool, nil
		case fn == "math.IsNaN" && one(tFloat):
			return "isNaN " + args[0], tBool, nil
		case fn == "math.IsInf" && len(args) == 2 && tys[0] == tFloat && tys[1] == tInt:
			return "isInfS " + args[0] + " " + args[1], tBool, nil
		case fn == "int64" && one(tFloat):
			return "toInt64 " + args[0], tInt, nil
		case (fn == "int64" || fn == "int") && one(tInt):
			return args[0], tInt, nil
		case (fn == "int8" || fn == "int16" || fn == "int32") && one(tInt): // Go's truncating integer conversion
			return "wrapS " + strings.TrimPrefix(fn, "int") + " " + args[0], tInt, nil
		case (fn == "uint8" || fn == "uint16" || fn == "uint32") && one(tInt):
			return "wrapU " + strings.TrimPrefix(fn, "uint") + " " + args[0], tInt, nil
		case fn == "float64ToInt64Mod" && one(tFloat):
			return "(C05.float64ToInt64Mod " + args[0] + ")", tInt, nil
		case fn == "float64" && one(tFloat):
			return args[0], tFloat, nil
		case fn == "math.Float64bits" && one(tFloat):
			return "F64.toBits " + args[0], tNat, nil
		case fn == "uint64" && one(tInt):
			return "u64 " + args[0], tNat, nil
		case fn == "float64" && one(tInt):
			return "(F64.ofInt " + args[0] + ")", tFloat, nil
		case fn == "valueInt" && one(tInt):
			return "Num.int " + args[0], tValue, nil
		case fn == "valueFloat" && one(tFloat):
			return "Num.flt " + args[0], tValue, nil
		case fn == "floatToValue" && one(tFloat):
			return "Num.floatToValue " + args[0], tValue, nil
		case fn == "intToValue" && one(tInt):
			return "Num.intToValue " + args[0], tValue, nil
		}
	}
	return "", tOther, fmt.Errorf("untranslatable expression %q", e.text(x))
}

func (e *trEnv) retExpr(r *ast.ReturnStmt) (string, error) {
	switch e.ret {
	case "okpair":
		if len(r.Results) == 2 {
			ok := e.text(r.Results[1])
			if ok == "false" {
				return "none", nil
			}
			if ok == "true" {
				s, _, err := e.expr(r.Results[0])
				return "some (" + s + ")", err
			}
		}
	case "valerr":
		if len(r.Results) == 1 { // return strconv.ParseInt(…)
			s, t, err := e.expr(r.Results[0])
			if err == nil && t == tOptInt {
				return s, nil
			}
		}
		if len(r.Results) == 2 {
			switch e.text(r.Results[1]) {
			case "nil":
				s, _, err := e.expr(r.Results[0])
				return "some (" + s + ")", err
			case "strconv.ErrSyntax":
				return "none", nil
			case "err":
				if e.errNil == "true" {
					s, _, err := e.expr(r.Results[0])
					return "some (" + s + ")", err
				}
				if e.errNil == "false" {
					return "none", nil
				}
			}
		}
	case "panicopt":
		if len(r.Results) == 1 {
			s, _, err := e.expr(r.Results[0])
			return "some (" + s + ")", err
		}
	default:
		if len(r.Results) == 1 {
			s, _, err := e.expr(r.Results[0])
			return s, err
		}
	}
	return "", fmt.Errorf("untranslatable return %q", e.text(r))
}

func isPanic(s ast.Stmt) bool {
	if es, ok := s.(*ast.ExprStmt); ok {
		if c, ok := es.X.(*ast.CallExpr); ok {
			if id, ok := c.Fun.(*ast.Ident); ok && id.Name == "panic" {
				return true
			}
		}
	}
	return false
}

// assignOnly: the block is a single `v op= k` on a float-turned-int variable; returns the Lean value of v afterwards.
func (e *trEnv) assignOnly(b *ast.BlockStmt) (string, string, bool) {
	if len(b.List) != 1 {
		return "", "", false
	}
	as, ok := b.List[0].(*ast.AssignStmt)
	if !ok || len(as.Lhs) != 1 || len(as.Rhs) != 1 {
		return "", "", false
	}
	id, ok := as.Lhs[0].(*ast.Ident)
	if !ok || e.vars[id.Name] != tInt {
		return "", "", false
	}
	r, t, err := e.expr(as.Rhs[0])
	if err != nil || t != tInt {
		return "", "", false
	}
	switch as.Tok {
	case token.SUB_ASSIGN:
		return id.Name, id.Name + " - " + r, true
	case token.ADD_ASSIGN:
		return id.Name, id.Name + " + " + r, true
	}
	return "", "", false
}

// stmts translates a statement list to one Lean expression.
func (e *trEnv) stmts(list []ast.Stmt, ind string) (string, error) {
	if len(list) == 0 {
		return "", fmt.Errorf("function body falls off the end")
	}
	s, rest := list[0], list[1:]
	switch v := s.(type) {
	case *ast.DeclStmt: // const two63, two64 = …  (values pinned in GenPrelude; skipped)
		if gd, ok := v.Decl.(*ast.GenDecl); ok && gd.Tok == token.CONST {
			return e.stmts(rest, ind)
		}
		// var x int64  → zero value
		if gd, ok := v.Decl.(*ast.GenDecl); ok && gd.Tok == token.VAR && len(gd.Specs) == 1 {
			vs := gd.Specs[0].(*ast.ValueSpec)
			if len(vs.Names) == 1 && len(vs.Values) == 0 && e.text(vs.Type) == "int64" {
				n := e.clone()
				n.vars[vs.Names[0].Name] = tInt
				r, err := n.stmts(rest, ind)
				return "let " + vs.Names[0].Name + " : Int := 0\n" + ind + r, err
			}
		}
	case *ast.LabeledStmt: // the label itself carries no meaning; `goto L` continues at the labelled statement
		return e.stmts(append([]ast.Stmt{v.Stmt}, rest...), ind)
	case *ast.BranchStmt:
		if v.Tok == token.GOTO && v.Label != nil {
			if cont, ok := e.labels[v.Label.Name]; ok {
				return e.stmts(cont, ind)
			}
		}
	case *ast.ReturnStmt:
		return e.retExpr(v)
	case *ast.ExprStmt:
		if isPanic(v) && e.ret == "panicopt" {
			return "none", nil
		}
	case *ast.TypeSwitchStmt:
		// switch o := other.(type) { case valueFloat: …; case valueInt: … }  on a Number value
		as, ok := v.Assign.(*ast.AssignStmt)
		if ok && len(as.Lhs) == 1 && len(as.Rhs) == 1 {
			ta, ok2 := as.Rhs[0].(*ast.TypeAssertExpr)
			if ok2 && ta.Type == nil {
				subj, st, err := e.expr(ta.X)
				if err != nil || st != tValue {
					return "", fmt.Errorf("type switch subject %q", e.text(ta.X))
				}
				name := e.text(as.Lhs[0])
				arms := map[string]string{}
				for _, c := range v.Body.List {
					cc := c.(*ast.CaseClause)
					if len(cc.List) == 0 {
						continue // default: a non-Number value
					}
					if len(cc.List) != 1 {
						hasNum := false
						for _, tx := range cc.List {
							if t := e.text(tx); t == "valueInt" || t == "valueFloat" {
								hasNum = true
							}
						}
						if hasNum {
							return "", fmt.Errorf("type switch clause mixing Number and other types")
						}
						continue // only non-Number dynamic types
					}
					tn := e.text(cc.List[0])
					n := e.clone()
					switch tn {
					case "valueFloat":
						n.vars[name] = tFloat
					case "valueInt":
						n.vars[name] = tInt
					default:
						continue // a non-Number dynamic type: outside the Number model (documented in DecTie.lean)
					}
					body, err := n.stmts(append(append([]ast.Stmt{}, cc.Body...), rest...), ind+"    ")
					if err != nil {
						return "", err
					}
					arms[tn] = body
				}
				restS, err := e.stmts(rest, ind+"    ")
				if err != nil {
					return "", err
				}
				fl, ok1 := arms["valueFloat"]
				if !ok1 {
					fl = restS
				}
				in, ok1 := arms["valueInt"]
				if !ok1 {
					in = restS
				}
				return fmt.Sprintf("match %s with\n%s| Num.flt %s =>\n%s    %s\n%s| Num.int %s =>\n%s    %s", subj, ind, name, ind, fl, ind, name, ind, in), nil
			}
		}
	case *ast.AssignStmt:
		// i, err := strconv.ParseInt(…): match on the Option result; `err == nil` is true / false in the two arms
		if len(v.Lhs) == 2 && len(v.Rhs) == 1 && v.Tok == token.DEFINE && e.text(v.Lhs[1]) == "err" {
			r, t, err := e.expr(v.Rhs[0])
			if err == nil && t == tOptInt {
				okEnv := e.clone()
				okEnv.vars[e.text(v.Lhs[0])] = tInt
				okEnv.errNil = "true"
				a, err := okEnv.stmts(rest, ind+"    ")
				if err != nil {
					return "", err
				}
				erEnv := e.clone()
				erEnv.vars[e.text(v.Lhs[0])] = tInt
				erEnv.errNil = "false"
				b, err := erEnv.stmts(rest, ind+"    ")
				if err != nil {
					return "", err
				}
				// in the error arm Go's ParseInt returns some number for the value; it is never used when err != nil
				return fmt.Sprintf("match %s with\n%s| some %s =>\n%s    %s\n%s| none =>\n%s    let %s : Int := 0\n%s    %s", r, ind, e.text(v.Lhs[0]), ind, a, ind, ind, e.text(v.Lhs[0]), ind, b), nil
			}
		}
		// x = e  (re-assignment of an int variable)
		if len(v.Lhs) == 1 && len(v.Rhs) == 1 && v.Tok == token.ASSIGN {
			if id, ok := v.Lhs[0].(*ast.Ident); ok && e.vars[id.Name] == tInt {
				if r, t, err := e.expr(v.Rhs[0]); err == nil && t == tInt {
					body, err := e.stmts(rest, ind)
					return "let " + id.Name + " := " + r + "\n" + ind + body, err
				}
			}
		}
		// v = v.ToNumber(): the identity on a Number value
		if e.text(v) == "v = v.ToNumber()" && e.vars["v"] == tValue {
			return e.stmts(rest, ind)
		}
		// x := e
		if len(v.Lhs) == 1 && len(v.Rhs) == 1 && v.Tok == token.DEFINE {
			r, t, err := e.expr(v.Rhs[0])
			if err == nil && (t == tFloat || t == tInt || t == tBool || t == tHalf) {
				n := e.clone()
				n.vars[e.text(v.Lhs[0])] = t
				if c, ok := v.Rhs[0].(*ast.CallExpr); ok && e.text(c.Fun) == "uint8" {
					u := map[string]bool{e.text(v.Lhs[0]): true}
					for k := range e.u8 {
						u[k] = true
					}
					n.u8 = u
				}
				body, err := n.stmts(rest, ind)
				return "let " + e.text(v.Lhs[0]) + " := " + r + "\n" + ind + body, err
			}
		}
		// f = math.Mod(f, two64): from here on f is an exact integer
		if len(v.Lhs) == 1 && len(v.Rhs) == 1 && v.Tok == token.ASSIGN {
			if id, ok := v.Lhs[0].(*ast.Ident); ok && e.vars[id.Name] == tFloat && e.text(v.Rhs[0]) == "math.Mod("+id.Name+", two64)" {
				n := e.clone()
				n.vars[id.Name] = tInt
				r, err := n.stmts(rest, ind)
				return "let " + id.Name + " := modTwo64 " + id.Name + "\n" + ind + r, err
			}
		}
	case *ast.SwitchStmt:
		if v.Init == nil && v.Tag != nil { // switch ss[1] { case 'x', 'X': return 16 … }
			tag, tt, err := e.expr(v.Tag)
			if err != nil || tt != tChar {
				return "", fmt.Errorf("switch tag %q", e.text(v.Tag))
			}
			var b bytes.Buffer
			for _, c := range v.Body.List {
				cc := c.(*ast.CaseClause)
				var alts []string
				for _, x := range cc.List {
					s, t, err := e.expr(x)
					if err != nil || t != tChar {
						return "", fmt.Errorf("switch case %q", e.text(x))
					}
					alts = append(alts, "decide ("+tag+" = "+s+")")
				}
				body, err := e.stmts(append(append([]ast.Stmt{}, cc.Body...), rest...), ind+"  ")
				if err != nil {
					return "", err
				}
				fmt.Fprintf(&b, "if (%s) then %s\n%selse ", strings.Join(alts, " || "), body, ind)
			}
			r, err := e.stmts(rest, ind)
			return b.String() + r, err
		}
		if v.Init == nil && v.Tag == nil {
			var b bytes.Buffer
			for _, c := range v.Body.List {
				cc := c.(*ast.CaseClause)
				if len(cc.List) != 1 {
					return "", fmt.Errorf("switch case with %d conditions", len(cc.List))
				}
				cond, t, err := e.expr(cc.List[0])
				if err != nil || t != tBool {
					return "", fmt.Errorf("switch condition %q", e.text(cc.List[0]))
				}
				body, err := e.stmts(cc.Body, ind+"  ")
				if err != nil {
					return "", err
				}
				fmt.Fprintf(&b, "if %s then %s\n%selse ", cond, body, ind)
			}
			r, err := e.stmts(rest, ind)
			return b.String() + r, err
		}
	case *ast.IfStmt:
		env := e
		prefix := ""
		if v.Init != nil {
			as, ok := v.Init.(*ast.AssignStmt)
			if !ok || as.Tok != token.DEFINE {
				return "", fmt.Errorf("untranslatable if-init %q", e.text(v.Init))
			}
			// `i, ok := v.(valueInt); ok`  /  `f, ok := v.(valueFloat); ok`
			if len(as.Lhs) == 2 && len(as.Rhs) == 1 && e.text(v.Cond) == e.text(as.Lhs[1]) && v.Else == nil {
				if ta, okt := as.Rhs[0].(*ast.TypeAssertExpr); okt && ta.Type != nil {
					subj, st, err := e.expr(ta.X)
					tn := e.text(ta.Type)
					if err == nil && st == tValue && (tn == "valueInt" || tn == "valueFloat") {
						n := e.clone()
						name := e.text(as.Lhs[0])
						ctor, other := "Num.int", "Num.flt"
						n.vars[name] = tInt
						if tn == "valueFloat" {
							ctor, other = "Num.flt", "Num.int"
							n.vars[name] = tFloat
						}
						th, err := n.stmts(append(append([]ast.Stmt{}, v.Body.List...), rest...), ind+"    ")
						if err != nil {
							return "", err
						}
						r, err := e.stmts(rest, ind+"    ")
						if err != nil {
							return "", err
						}
						return fmt.Sprintf("match %s with\n%s| %s %s =>\n%s    %s\n%s| %s _ =>\n%s    %s", subj, ind, ctor, name, ind, th, ind, other, ind, r), nil
					}
				}
			}
			// `i, ok := floatToInt(f); ok`
			if len(as.Lhs) == 2 && len(as.Rhs) == 1 && e.text(v.Cond) == e.text(as.Lhs[1]) {
				call, okc := as.Rhs[0].(*ast.CallExpr)
				if okc && e.text(call.Fun) == "floatToInt" && len(call.Args) == 1 {
					arg, t, err := e.expr(call.Args[0])
					if err != nil || t != tFloat {
						return "", fmt.Errorf("floatToInt argument")
					}
					n := e.clone()
					n.vars[e.text(as.Lhs[0])] = tInt
					th, err := n.stmts(append(append([]ast.Stmt{}, v.Body.List...), rest...), ind+"  ")
					if err != nil {
						return "", err
					}
					elseList := rest
					if v.Else != nil {
						eb, ok := v.Else.(*ast.BlockStmt)
						if !ok {
							return "", fmt.Errorf("untranslatable else of floatToInt init")
						}
						elseList = append(append([]ast.Stmt{}, eb.List...), rest...)
					}
					r, err := e.stmts(elseList, ind)
					return fmt.Sprintf("match floatToInt %s with\n%s| some %s => %s\n%s| none =>\n%s%s", arg, ind, e.text(as.Lhs[0]), th, ind, ind, r), err
				}
			}
			if len(as.Lhs) == 1 && len(as.Rhs) == 1 {
				r, t, err := e.expr(as.Rhs[0])
				if err != nil || t != tInt {
					return "", fmt.Errorf("untranslatable if-init %q", e.text(v.Init))
				}
				env = e.clone()
				env.vars[e.text(as.Lhs[0])] = tInt
				prefix = "let " + e.text(as.Lhs[0]) + " := " + r + "\n" + ind
			}
		}
		cond, t, err := env.expr(v.Cond)
		if err != nil || t != tBool {
			return "", fmt.Errorf("if condition %q: %v", e.text(v.Cond), err)
		}
		// if c { v -= k } else if c2 { v += k }  -> rebinding
		if name, val, ok := env.assignOnly(v.Body); ok {
			elseVal := name
			if v.Else != nil {
				ei, ok := v.Else.(*ast.IfStmt)
				if !ok || ei.Init != nil || ei.Else != nil {
					return "", fmt.Errorf("untranslatable else branch")
				}
				c2, t2, err := env.expr(ei.Cond)
				n2, v2, ok2 := env.assignOnly(ei.Body)
				if err != nil || t2 != tBool || !ok2 || n2 != name {
					return "", fmt.Errorf("untranslatable else-if assignment")
				}
				elseVal = "if " + c2 + " then " + v2 + " else " + name
			}
			r, err := env.stmts(rest, ind)
			return fmt.Sprintf("%slet %s := if %s then %s else %s\n%s%s", prefix, name, cond, val, elseVal, ind, r), err
		}
		if v.Else == nil && len(v.Body.List) == 1 {
			if as, ok := v.Body.List[0].(*ast.AssignStmt); ok && as.Tok == token.ASSIGN && len(as.Lhs) == 1 && len(as.Rhs) == 1 {
				if id, ok := as.Lhs[0].(*ast.Ident); ok && env.vars[id.Name] == tBool {
					val, t, err := env.expr(as.Rhs[0])
					if err == nil && t == tBool {
						r, err := env.stmts(rest, ind)
						return fmt.Sprintf("%slet %s := if %s then %s else %s\n%s%s", prefix, id.Name, cond, val, id.Name, ind, r), err
					}
				}
			}
		}
		if v.Else != nil {
			eb, ok := v.Else.(*ast.BlockStmt)
			if !ok {
				return "", fmt.Errorf("untranslatable if/else")
			}
			th, err := env.stmts(append(append([]ast.Stmt{}, v.Body.List...), rest...), ind+"  ")
			if err != nil {
				return "", err
			}
			el, err := env.stmts(append(append([]ast.Stmt{}, eb.List...), rest...), ind+"  ")
			if err != nil {
				return "", err
			}
			return fmt.Sprintf("%sif %s then\n%s  %s\n%selse\n%s  %s", prefix, cond, ind, th, ind, ind, el), nil
		}
		th, err := env.stmts(append(append([]ast.Stmt{}, v.Body.List...), rest...), ind+"  ")
		if err != nil {
			// the body may be `if …{panic}; return x` etc.: already handled by stmts; propagate
			return "", err
		}
		r, err := e.stmts(rest, ind)
		if err != nil {
			return "", err
		}
		// an inner `if c {panic}` inside the then-branch is handled because stmts() of the body covers it
		return fmt.Sprintf("%sif %s then\n%s  %s\n%selse %s", prefix, cond, ind, th, ind, r), nil
	}
	return "", fmt.Errorf("untranslatable statement %q", e.text(s))
}

type trFunc struct {
	recv, name string
	lean       string            // Lean def name
	params     [][2]string       // name, Lean type
	vars       map[string]ty
	ret        string
	retType    string
	after      string // start translating after the statement with this text ("" = from the start)
}

func translateDecisions(p *Pkg) (string, error) {
	funcs := []trFunc{
		{"", "floatToInt", "floatToInt", [][2]string{{"f", "F64"}}, map[string]ty{"f": tFloat}, "okpair", "Option Int", ""},
		{"", "intToValue", "intToValue", [][2]string{{"i", "Int"}}, map[string]ty{"i": tInt}, "plain", "Num", ""},
		{"", "floatToValue", "floatToValue", [][2]string{{"f", "F64"}}, map[string]ty{"f": tFloat}, "plain", "Num", ""},
		{"", "floatToIntClip", "floatToIntClip", [][2]string{{"n", "F64"}}, map[string]ty{"n": tFloat}, "plain", "Int", ""},
		{"", "toLength", "toLength", [][2]string{{"i", "Int"}}, map[string]ty{"i": tInt}, "plain", "Int", "i := v.ToInteger()"},
		{"Runtime", "toIndex", "toIndex", [][2]string{{"num", "Int"}}, map[string]ty{"num": tInt}, "panicopt", "Option Int", "num := v.ToInteger()"},
		{"", "float64ToInt64Mod", "float64ToInt64Mod", [][2]string{{"f", "F64"}}, map[string]ty{"f": tFloat}, "plain", "Int", ""},
		{"", "toInt8", "toInt8", [][2]string{{"v", "Num"}}, map[string]ty{"v": tValue}, "plain", "Int", ""},
		{"", "toUint8", "toUint8", [][2]string{{"v", "Num"}}, map[string]ty{"v": tValue}, "plain", "Int", ""},
		{"", "toInt16", "toInt16", [][2]string{{"v", "Num"}}, map[string]ty{"v": tValue}, "plain", "Int", ""},
		{"", "toUint16", "toUint16", [][2]string{{"v", "Num"}}, map[string]ty{"v": tValue}, "plain", "Int", ""},
		{"", "toInt32", "toInt32", [][2]string{{"v", "Num"}}, map[string]ty{"v": tValue}, "plain", "Int", ""},
		{"", "toUint32", "toUint32", [][2]string{{"v", "Num"}}, map[string]ty{"v": tValue}, "plain", "Int", ""},
		{"", "radixPrefix", "radixPrefix", [][2]string{{"ss", "List Nat"}}, map[string]ty{"ss": tStr}, "plain", "Int", ""},
		{"", "stringToInt", "stringToInt", [][2]string{{"ss", "List Nat"}}, map[string]ty{"ss": tStr}, "valerr", "Option Int", ""},
		{"", "toUint8Clamp", "toUint8Clamp", [][2]string{{"v", "Num"}}, map[string]ty{"v": tValue}, "plain", "Int", ""},
		{"Runtime", "toLengthUint32", "toLengthUint32", [][2]string{{"v", "Num"}}, map[string]ty{"v": tValue}, "panicopt", "Option Int", ""},
		{"valueFloat", "SameAs", "floatSameAs", [][2]string{{"f", "F64"}, {"other", "Num"}}, map[string]ty{"f": tFloat, "other": tValue}, "plain", "Bool", ""},
		{"valueInt", "SameAs", "intSameAs", [][2]string{{"i", "Int"}, {"other", "Num"}}, map[string]ty{"i": tInt, "other": tValue}, "plain", "Bool", ""},
		{"valueFloat", "StrictEquals", "floatStrictEquals", [][2]string{{"f", "F64"}, {"other", "Num"}}, map[string]ty{"f": tFloat, "other": tValue}, "plain", "Bool", ""},
		{"valueInt", "StrictEquals", "intStrictEquals", [][2]string{{"i", "Int"}, {"other", "Num"}}, map[string]ty{"i": tInt, "other": tValue}, "plain", "Bool", ""},
		{"valueFloat", "Equals", "floatEquals", [][2]string{{"f", "F64"}, {"other", "Num"}}, map[string]ty{"f": tFloat, "other": tValue}, "plain", "Bool", ""},
		{"valueInt", "Equals", "intEquals", [][2]string{{"i", "Int"}, {"other", "Num"}}, map[string]ty{"i": tInt, "other": tValue}, "plain", "Bool", ""},
		{"valueFloat", "hash", "floatHash", [][2]string{{"f", "F64"}}, map[string]ty{"f": tFloat}, "nat", "Nat", ""},
		{"valueInt", "hash", "intHash", [][2]string{{"i", "Int"}}, map[string]ty{"i": tInt}, "nat", "Nat", ""},
	}
	var b bytes.Buffer
	b.WriteString("-- GENERATED by extract/c05_translate.go from the Go source; do not edit.\n")
	b.WriteString("-- Go -> Lean translation of goja's numeric decision functions; proved equal to the hand model in C05/DecTie.lean.\n")
	b.WriteString("import GojaModel.C05.GenPrelude\nnamespace GojaModel.Generated.C05_Decisions\nopen GojaModel GojaModel.Num GojaModel.C05 GojaModel.C05.Gen\n\n")
	for _, f := range funcs {
		fd := p.FuncDecl(f.recv, f.name)
		if fd == nil || fd.Body == nil {
			return "", fmt.Errorf("function %s not found", f.name)
		}
		list := fd.Body.List
		if f.after != "" {
			idx := -1
			for i, s := range list {
				if exprText(p.Fset, s) == f.after {
					idx = i
				}
			}
			if idx < 0 {
				return "", fmt.Errorf("%s: statement %q not found", f.name, f.after)
			}
			list = list[idx+1:]
		}
		env := &trEnv{p: p, vars: f.vars, ret: f.ret, labels: map[string][]ast.Stmt{}}
		for i, st := range list {
			if ls, ok := st.(*ast.LabeledStmt); ok {
				env.labels[ls.Label.Name] = list[i:]
			}
		}
		body, err := env.stmts(list, "  ")
		if err != nil {
			return "", fmt.Errorf("%s: %v", f.name, err)
		}
		ps := make([]string, len(f.params))
		for i, q := range f.params {
			ps[i] = "(" + q[0] + " : " + q[1] + ")"
		}
		fmt.Fprintf(&b, "/-- %s -/\ndef %s %s : %s :=\n  %s\n\n", strings.TrimSpace(fd.Name.Name+" ("+p.Fset.Position(fd.Pos()).Filename[strings.LastIndex(p.Fset.Position(fd.Pos()).Filename, "/")+1:]+")"), f.lean, strings.Join(ps, " "), f.retType, body)
	}
	// single guards of functions whose bodies are outside the subset: the k-th if-condition, as a Bool function
	type condDef struct {
		recv, fn string
		sel      string // how the if-statement is found: "mentions:<ident>", "assigns:<ident>" (first body statement), "breaks"
		lean     string
		params   [][2]string
	}
	mentions := func(e ast.Expr, name string) bool {
		found := false
		ast.Inspect(e, func(n ast.Node) bool {
			if id, ok := n.(*ast.Ident); ok && id.Name == name {
				found = true
			}
			return true
		})
		return found
	}
	for _, c := range []condDef{
		{"_mul", "exec", "assigns:_negativeZero", "mulNegZeroGuard", [][2]string{{"left", "Int"}, {"right", "Int"}}},
		{"_mul", "exec", "mentions:res", "mulFitsGuard", [][2]string{{"res", "Int"}, {"left", "Int"}, {"right", "Int"}}},
		{"_mod", "exec", "assigns:_NaN", "modDivZeroGuard", [][2]string{{"right", "Int"}}},
		{"_mod", "exec", "assigns:_negativeZero", "modNegZeroGuard", [][2]string{{"r", "Int"}, {"left", "Int"}}},
		{"", "parseInt", "mentions:cutoff", "parseIntCutoffGuard", [][2]string{{"n", "Int"}, {"cutoff", "Int"}}},
		{"", "parseInt", "breaks", "parseIntBreakGuard", [][2]string{{"v", "Int"}, {"base", "Int"}}},
		{"", "parseInt", "mentions:maxVal", "parseIntOverflowGuard", [][2]string{{"n", "Int"}, {"n1", "Int"}, {"maxVal", "Int"}}},
		{"orderedMap", "lookup", "mentions:key", "lookupNormGuard", [][2]string{{"key", "Num"}}},
		{"Runtime", "arrayproto_includes", "mentions:searchElement", "includesSearchNormGuard", [][2]string{{"searchElement", "Num"}}},
	} {
		fd := p.FuncDecl(c.recv, c.fn)
		if fd == nil || fd.Body == nil {
			return "", fmt.Errorf("function %s.%s not found", c.recv, c.fn)
		}
		var hits []ast.Expr
		ast.Inspect(fd.Body, func(n ast.Node) bool {
			is, ok := n.(*ast.IfStmt)
			if !ok {
				return true
			}
			match := false
			switch {
			case strings.HasPrefix(c.sel, "mentions:"):
				match = mentions(is.Cond, strings.TrimPrefix(c.sel, "mentions:"))
			case c.sel == "breaks":
				if len(is.Body.List) == 1 {
					if br, ok := is.Body.List[0].(*ast.BranchStmt); ok && br.Tok == token.BREAK {
						match = true
					}
				}
			case strings.HasPrefix(c.sel, "assigns:"):
				if len(is.Body.List) >= 1 {
					if as, ok := is.Body.List[0].(*ast.AssignStmt); ok && len(as.Rhs) == 1 && exprText(p.Fset, as.Rhs[0]) == strings.TrimPrefix(c.sel, "assigns:") {
						match = true
					}
				}
			}
			if match {
				hits = append(hits, is.Cond)
			}
			return true
		})
		// all int-typed operands only (the BigInt branches of the same functions use other identifiers)
		var cond ast.Expr
		for _, h := range hits {
			env := &trEnv{p: p, vars: map[string]ty{}}
			for _, q := range c.params {
				env.vars[q[0]] = tInt
				if q[1] == "Num" {
					env.vars[q[0]] = tValue
				}
			}
			if _, t, err := env.expr(h); err == nil && t == tBool {
				if cond != nil {
					return "", fmt.Errorf("%s.%s: guard %q is ambiguous", c.recv, c.fn, c.sel)
				}
				cond = h
			}
		}
		if cond == nil {
			return "", fmt.Errorf("%s.%s: guard %q not found in translatable form", c.recv, c.fn, c.sel)
		}
		env := &trEnv{p: p, vars: map[string]ty{}}
		ps := make([]string, len(c.params))
		for i, q := range c.params {
			env.vars[q[0]] = tInt
			if q[1] == "Num" {
				env.vars[q[0]] = tValue
			}
			ps[i] = "(" + q[0] + " : " + q[1] + ")"
		}
		body, _, _ := env.expr(cond)
		fmt.Fprintf(&b, "/-- %s.%s, guard selected by %s: `%s` -/\ndef %s %s : Bool :=\n  %s\n\n", c.recv, c.fn, c.sel, exprText(p.Fset, cond), c.lean, strings.Join(ps, " "), body)
	}
	// the fact behind `intCache[idx]`
	cache := "<not found>"
	for _, f := range p.Files {
		ast.Inspect(f, func(n ast.Node) bool {
			if as, ok := n.(*ast.AssignStmt); ok && len(as.Lhs) == 1 && len(as.Rhs) == 1 {
				if ix, ok := as.Lhs[0].(*ast.IndexExpr); ok && exprText(p.Fset, ix.X) == "intCache" {
					cache = exprText(p.Fset, as)
				}
			}
			return true
		})
	}
	fmt.Fprintf(&b, "/-- how the cache read by `intToValue` is filled (value.go init) -/\ndef intCacheInit : String := %s\n\n", LeanString(cache))
	b.WriteString("end GojaModel.Generated.C05_Decisions\n")
	return b.String(), nil
}
