// C03: regenerated facts — the statement/decision skeleton of every Go function the Lean model
// (lean/GojaModel/C03/Model.lean) transcribes.  For each function a list of (nesting depth, text) pairs
// is emitted: one entry per statement, conditions and assignments rendered by go/printer (comments and
// layout dropped), function literals passed to calls or deferred are descended into.  GojaModel/C03/Tie.lean
// compares every list with the expectation the model was written against.
package main

import (
	"bytes"
	"fmt"
	"go/ast"
	"go/printer"
	"go/token"
	"strings"
)

type c03fn struct{ recv, name, lean string }

var c03funcs = []c03fn{
	{"vm", "saveCtx", "saveCtx"}, {"vm", "pushCtx", "pushCtx"}, {"vm", "restoreCtx", "restoreCtx"}, {"vm", "popCtx", "popCtx"},
	{"vm", "pushTryFrame", "pushTryFrame"}, {"vm", "popTryFrame", "popTryFrame"},
	{"vm", "restoreStacks", "restoreStacks"}, {"vm", "_restoreStacks", "restoreStacks'"}, {"vm", "handleThrow", "handleThrow"},
	{"vm", "throw", "throw"}, {"vm", "try", "vmTry"}, {"vm", "runTry", "runTry"}, {"vm", "runTryInner", "runTryInner"},
	{"try", "exec", "tryExec"}, {"leaveTry", "exec", "leaveTryExec"}, {"enterFinally", "exec", "enterFinallyExec"},
	{"leaveFinally", "exec", "leaveFinallyExec"}, {"_ret", "exec", "retExec"},
	{"_enumPopClose", "exec", "enumPopCloseExec"}, {"_enumPop", "exec", "enumPopExec"},
	{"baseJsFuncObject", "__call", "jsCall"}, {"baseJsFuncObject", "vmCall", "jsVmCall"}, {"nativeFuncObject", "vmCall", "nativeVmCall"},
	{"Runtime", "RunProgram", "runProgram"}, {"Runtime", "runWrapped", "runWrapped"}, {"Runtime", "Try", "runtimeTry"},
	{"Runtime", "leave", "leave"}, {"Runtime", "leaveAbrupt", "leaveAbrupt"}, {"Exception", "valueString", "valueString"},
	// generators (top-level yields are inside the model: genNew / genNext / genThrow / genReturn)
	{"generator", "enter", "genEnter"}, {"generator", "enterNext", "genEnterNext"}, {"generator", "storeLengths", "genStoreLengths"},
	{"generator", "step", "genStep"}, {"generator", "step1", "genStep1"}, {"generator", "next", "genNext"},
	{"generator", "nextThrow", "genNextThrow"}, {"generator", "dropMarkerOnPanic", "genDropMarkerOnPanic"},
	{"vm", "suspend", "vmSuspend"}, {"vm", "resume", "vmResume"},
	{"generatorObject", "init", "genObjInit"}, {"generatorObject", "next", "genObjNext"},
	{"generatorObject", "throw", "genObjThrow"}, {"generatorObject", "_return", "genObjReturn"},
	// async functions (asyncNew / asyncResume); vm.curAsyncRunner is Vm.curAsync (asyncResumeCA), also in the Idle vector
	{"asyncRunner", "onFulfilled", "asyncOnFulfilled"}, {"asyncRunner", "onRejected", "asyncOnRejected"},
	{"asyncRunner", "start", "asyncStart"}, {"asyncRunner", "step", "asyncStep"},
}

type c03sk struct {
	fset  *token.FileSet
	lines []string
}

func (s *c03sk) expr(n ast.Node) string {
	var b bytes.Buffer
	cfg := printer.Config{Mode: printer.RawFormat}
	_ = cfg.Fprint(&b, s.fset, n)
	return strings.Join(strings.Fields(b.String()), " ")
}

// c03ctl: a plain statement (assignment, call, declaration) is part of the skeleton only if it mentions
// control state or one of the control primitives; completion values, operand contents, stack-trace
// capture etc. are not what the model transcribes, so an edit to them must not break the tie.
// Conditions, loops, returns, branches, defers and panics are always kept.
var c03ctl = []string{"callStack", "tryStack", "iterStack", "refStack", ".sp", ".sb", ".pc", ".prg", ".stash", ".privEnv",
	".args", ".newTarget", "catchPos", "finallyPos", "finallyRet", ".exception", "callStackLen", "iterLen", "refLen",
	"pushCtx", "popCtx", "saveCtx", "restoreCtx", "pushTryFrame", "popTryFrame", "estoreStacks", "handleThrow",
	".try(", "runTry", "runTryInner", ".run()", "halted", "leave", "jobQueue", "Interrupt", "recover()", "panic(",
	"returnIter", ".throw(", "exceptionFromValue", "asUncatchableException", "maxCallStackSize", "clearStack",
	"f()", "job()", "needPop", "pushed", "recursive", "vm.pop()", "vm.push(", "curAsyncRunner", ".gen.next", ".step(", "step1",
	"g.state", "returning", ".enter()", "enterNext", "suspend(", "resume(", "StackLen", "storeLengths", "entered", "completed",
	"validate()", "vmCall(", "promiseCap.", "addReactions", "done ||", "ectx.", "ctx.stack", "ctx.context", "vm.stack.expand", "g.ctx"}

func c03keep(text string) bool {
	for _, k := range []string{"if ", "else", "for", "range ", "return", "break", "continue", "defer ", "init "} {
		if strings.HasPrefix(text, k) {
			return true
		}
	}
	for _, k := range c03ctl {
		if strings.Contains(text, k) {
			return true
		}
	}
	return false
}

func (s *c03sk) add(d int, text string) {
	if !c03keep(text) {
		return
	}
	s.lines = append(s.lines, fmt.Sprintf("(%d, %s)", d, LeanString(text)))
}

// call renders a call expression; function literals among its arguments are replaced by `func` and
// their bodies are walked one level deeper.
func (s *c03sk) call(d int, prefix string, c *ast.CallExpr) error {
	var lits []*ast.FuncLit
	args := make([]string, len(c.Args))
	for i, a := range c.Args {
		if fl, ok := a.(*ast.FuncLit); ok {
			lits = append(lits, fl)
			args[i] = "func"
		} else {
			args[i] = s.expr(a)
		}
	}
	fun := ""
	if fl, ok := c.Fun.(*ast.FuncLit); ok {
		lits = append(lits, fl)
		fun = "func"
	} else {
		fun = s.expr(c.Fun)
	}
	s.add(d, prefix+fun+"("+strings.Join(args, ", ")+")")
	for _, fl := range lits {
		if err := s.block(d+1, fl.Body.List); err != nil {
			return err
		}
	}
	return nil
}

func (s *c03sk) block(d int, list []ast.Stmt) error {
	for _, st := range list {
		if err := s.stmt(d, st); err != nil {
			return err
		}
	}
	return nil
}

func (s *c03sk) stmt(d int, st ast.Stmt) error {
	switch x := st.(type) {
	case *ast.IfStmt:
		if x.Init != nil {
			// `if v := e; cond {` — the init statement may contain a call with a function literal (vm.try(func(){…}))
			if as, ok := x.Init.(*ast.AssignStmt); ok && len(as.Rhs) == 1 {
				if c, ok := as.Rhs[0].(*ast.CallExpr); ok {
					lhs := make([]string, len(as.Lhs))
					for i, l := range as.Lhs {
						lhs[i] = s.expr(l)
					}
					if err := s.call(d, "init "+strings.Join(lhs, ", ")+" "+as.Tok.String()+" ", c); err != nil {
						return err
					}
				} else {
					s.add(d, "init "+s.expr(x.Init))
				}
			} else {
				s.add(d, "init "+s.expr(x.Init))
			}
		}
		s.add(d, "if "+s.expr(x.Cond))
		if err := s.block(d+1, x.Body.List); err != nil {
			return err
		}
		if x.Else != nil {
			s.add(d, "else")
			switch e := x.Else.(type) {
			case *ast.BlockStmt:
				return s.block(d+1, e.List)
			default:
				return s.stmt(d+1, e)
			}
		}
		return nil
	case *ast.ForStmt:
		h := "for"
		if x.Init != nil {
			h += " init " + s.expr(x.Init) + ";"
		}
		if x.Cond != nil {
			h += " " + s.expr(x.Cond)
		}
		if x.Post != nil {
			h += "; post " + s.expr(x.Post)
		}
		s.add(d, h)
		return s.block(d+1, x.Body.List)
	case *ast.RangeStmt:
		h := "range " + s.expr(x.X)
		if x.Key != nil {
			h += " key " + s.expr(x.Key)
		}
		if x.Value != nil {
			h += " value " + s.expr(x.Value)
		}
		s.add(d, h)
		return s.block(d+1, x.Body.List)
	case *ast.AssignStmt:
		if len(x.Rhs) == 1 {
			if c, ok := x.Rhs[0].(*ast.CallExpr); ok {
				lhs := make([]string, len(x.Lhs))
				for i, l := range x.Lhs {
					lhs[i] = s.expr(l)
				}
				return s.call(d, strings.Join(lhs, ", ")+" "+x.Tok.String()+" ", c)
			}
		}
		s.add(d, s.expr(x))
		return nil
	case *ast.ExprStmt:
		if c, ok := x.X.(*ast.CallExpr); ok {
			return s.call(d, "", c)
		}
		s.add(d, s.expr(x.X))
		return nil
	case *ast.DeferStmt:
		return s.call(d, "defer ", x.Call)
	case *ast.ReturnStmt:
		parts := make([]string, len(x.Results))
		for i, r := range x.Results {
			parts[i] = s.expr(r)
		}
		s.add(d, strings.TrimSpace("return "+strings.Join(parts, ", ")))
		return nil
	case *ast.BranchStmt:
		s.add(d, x.Tok.String())
		return nil
	case *ast.IncDecStmt, *ast.DeclStmt:
		s.add(d, s.expr(x))
		return nil
	case *ast.BlockStmt:
		return s.block(d, x.List)
	case *ast.SwitchStmt, *ast.TypeSwitchStmt, *ast.SelectStmt, *ast.GoStmt, *ast.LabeledStmt:
		return fmt.Errorf("statement kind %T outside the subset the C03 model transcribes", st)
	default:
		return fmt.Errorf("statement kind %T not understood", st)
	}
}

func init() {
	Register("C03", func(p *Pkg) (map[string]string, error) {
		var b strings.Builder
		b.WriteString("/- GENERATED by extract/c03.go from the Go sources — do not edit.  One skeleton per transcribed function. -/\n")
		b.WriteString("namespace GojaModel.Generated.C03\n\n")
		for _, f := range c03funcs {
			fd := p.FuncDecl(f.recv, f.name)
			if fd == nil || fd.Body == nil {
				return nil, fmt.Errorf("function (%s).%s not found", f.recv, f.name)
			}
			sk := &c03sk{fset: p.Fset}
			if err := sk.block(0, fd.Body.List); err != nil {
				return nil, fmt.Errorf("(%s).%s: %v", f.recv, f.name, err)
			}
			fmt.Fprintf(&b, "def %s : List (Nat × String) := [\n  %s]\n\n", f.lean, strings.Join(sk.lines, ",\n  "))
		}
		b.WriteString("end GojaModel.Generated.C03\n")
		return map[string]string{"C03_Skeleton.lean": b.String()}, nil
	})
}
