package main

// C11: regenerate the Proxy invariant checks of /repo/proxy.go as Lean decision functions.
//
// The translator understands a deliberately small statement/expression subset (if/else with init,
// return, panic, typeErrorResult, :=, =, var, field assignment, type assertion on *valueProperty,
// &&, ||, !, ==, !=, field reads, whitelisted calls).  Every Go expression is either translated
// structurally or looked up BY ITS SOURCE TEXT in a per-function table of opaque primitives; anything
// else is an error ("tie not regenerable").  Output: lean/GojaModel/Generated/C11_Checks.lean — Lean
// DATA only (defs), no proofs.  The proofs that these defs equal the hand model are in
// GojaModel/C11/Tie.lean.

import (
	"bytes"
	"fmt"
	"go/ast"
	"go/printer"
	"go/token"
	"sort"
	"strings"
)

func init() { Register("C11", genC11); Register("C11", genC11Array) }

type c11fn struct {
	recv, name string
	lean       string            // Lean def name
	sig        string            // binders and result type
	exprs      map[string]string // Go expression text -> Lean term (opaque primitives, renames)
	stmts      map[string]string // Go statement text -> Lean text with %REST% (or "" to skip)
	rets       map[string]string // Go return-expression text ("" for bare return) -> Lean term
	end        string            // Lean term when control reaches the end of the body
	sel        func(fd *ast.FuncDecl) ([]ast.Stmt, error)
	fields     map[string]string // Go field name -> Lean field name, for `x.F = e`
}

type c11tr struct {
	p      *Pkg
	fn     *c11fn
	labels map[string][]ast.Stmt // label -> the labelled statement and everything after it in the function body (goto targets)
}

func (t *c11tr) text(n ast.Node) string {
	var b bytes.Buffer
	printer.Fprint(&b, t.p.Fset, n)
	s := b.String()
	s = strings.Join(strings.Fields(s), " ")
	return s
}

func (t *c11tr) errf(n ast.Node, f string, a ...interface{}) error {
	pos := t.p.Fset.Position(n.Pos())
	return fmt.Errorf("%s:%d (%s): %s: %s", pos.Filename, pos.Line, t.fn.name, fmt.Sprintf(f, a...), t.text(n))
}

func c11IsNil(e ast.Expr) bool {
	id, ok := e.(*ast.Ident)
	return ok && id.Name == "nil"
}

func (t *c11tr) expr(e ast.Expr) (string, error) {
	if s, ok := t.fn.exprs[t.text(e)]; ok {
		return s, nil
	}
	switch x := e.(type) {
	case *ast.ParenExpr:
		return t.expr(x.X)
	case *ast.Ident:
		switch x.Name {
		case "true", "false":
			return x.Name, nil
		case "FLAG_TRUE":
			return "Flag.tru", nil
		case "FLAG_FALSE":
			return "Flag.fals", nil
		case "FLAG_NOT_SET":
			return "Flag.notSet", nil
		case "_undefined":
			return "Val.undef", nil
		case "_null":
			return "Val.null", nil
		}
		return "", t.errf(e, "unknown identifier")
	case *ast.UnaryExpr:
		if x.Op == token.NOT {
			s, err := t.expr(x.X)
			if err != nil {
				return "", err
			}
			return "(!" + s + ")", nil
		}
		if x.Op == token.AND { // &descr
			return t.expr(x.X)
		}
	case *ast.BinaryExpr:
		if x.Op == token.EQL || x.Op == token.NEQ {
			if c11IsNil(x.Y) {
				s, err := t.expr(x.X)
				if err != nil {
					return "", err
				}
				if x.Op == token.EQL {
					return "(" + s + ").isNone", nil
				}
				return "(" + s + ").isSome", nil
			}
		}
		var op string
		switch x.Op {
		case token.LAND:
			op = "&&"
		case token.LOR:
			op = "||"
		case token.EQL:
			op = "=="
		case token.NEQ:
			op = "!="
		case token.GTR:
			op = ">"
		default:
			return "", t.errf(e, "operator outside the subset")
		}
		a, err := t.expr(x.X)
		if err != nil {
			return "", err
		}
		b, err := t.expr(x.Y)
		if err != nil {
			return "", err
		}
		return "(" + a + " " + op + " " + b + ")", nil
	case *ast.CallExpr:
		// whitelisted calls: function text -> Lean function, arguments translated
		if f, ok := t.fn.exprs["call:"+t.text(x.Fun)]; ok {
			parts := []string{f}
			for _, a := range x.Args {
				s, err := t.expr(a)
				if err != nil {
					return "", err
				}
				parts = append(parts, s)
			}
			return "(" + strings.Join(parts, " ") + ")", nil
		}
	}
	return "", t.errf(e, "expression outside the translatable subset")
}

func c11IsPanic(s ast.Stmt) bool {
	es, ok := s.(*ast.ExprStmt)
	if !ok {
		return false
	}
	c, ok := es.X.(*ast.CallExpr)
	if !ok {
		return false
	}
	id, ok := c.Fun.(*ast.Ident)
	return ok && id.Name == "panic"
}

func c11Indent(s string, n int) string {
	pad := strings.Repeat(" ", n)
	return pad + strings.ReplaceAll(s, "\n", "\n"+pad)
}

// stmts translates a statement list followed by the continuation `rest` (already Lean text).
func (t *c11tr) stmts(list []ast.Stmt, rest string) (string, error) {
	if len(list) == 0 {
		return rest, nil
	}
	s := list[0]
	tail := func() (string, error) { return t.stmts(list[1:], rest) }

	if m, ok := t.fn.stmts[t.text(s)]; ok {
		if m == "" {
			return tail()
		}
		r, err := tail()
		if err != nil {
			return "", err
		}
		return "(" + strings.ReplaceAll(m, "%REST%", r) + ")", nil
	}
	if c11IsPanic(s) {
		return ".typeError", nil
	}
	if ls, ok := s.(*ast.LabeledStmt); ok { // a label is only a goto target: translate the statement it marks
		return t.stmts(append([]ast.Stmt{ls.Stmt}, list[1:]...), rest)
	}
	if br, ok := s.(*ast.BranchStmt); ok && br.Tok == token.GOTO && br.Label != nil {
		target, ok := t.labels[br.Label.Name]
		if !ok {
			return "", t.errf(s, "goto to an unknown label")
		}
		return t.stmts(target, "%END%") // the label is in the function's top-level block: its tail runs to the end
	}
	switch x := s.(type) {
	case *ast.ReturnStmt:
		key := ""
		if len(x.Results) == 1 {
			key = t.text(x.Results[0])
		} else if len(x.Results) > 1 {
			parts := []string{}
			for _, r := range x.Results {
				parts = append(parts, t.text(r))
			}
			key = strings.Join(parts, ", ")
		}
		if r, ok := t.fn.rets[key]; ok {
			return r, nil
		}
		if len(x.Results) == 1 {
			if tmpl, ok := t.fn.rets["*"]; ok {
				e, err := t.expr(x.Results[0])
				if err != nil {
					return "", err
				}
				return strings.ReplaceAll(tmpl, "%E%", e), nil
			}
		}
		return "", t.errf(s, "return form not declared")
	case *ast.BlockStmt:
		return t.stmts(append(append([]ast.Stmt{}, x.List...), list[1:]...), rest)
	case *ast.ExprStmt:
		if c, ok := x.X.(*ast.CallExpr); ok {
			ft := t.text(c.Fun)
			if strings.HasSuffix(ft, "typeErrorResult") && len(c.Args) >= 1 {
				thr, err := t.expr(c.Args[0])
				if err != nil {
					return "", err
				}
				r, err := tail()
				if err != nil {
					return "", err
				}
				return "(if " + thr + " then .typeError else\n" + c11Indent(r, 2) + ")", nil
			}
		}
		return "", t.errf(s, "expression statement outside the subset")
	case *ast.DeclStmt:
		gd, ok := x.Decl.(*ast.GenDecl)
		if !ok || gd.Tok != token.VAR || len(gd.Specs) != 1 {
			return "", t.errf(s, "declaration outside the subset")
		}
		vs := gd.Specs[0].(*ast.ValueSpec)
		if len(vs.Names) != 1 || len(vs.Values) != 0 {
			return "", t.errf(s, "declaration outside the subset")
		}
		zero, ok := t.fn.exprs["zero:"+t.text(vs.Type)]
		if !ok {
			return "", t.errf(s, "no zero value declared for type")
		}
		r, err := tail()
		if err != nil {
			return "", err
		}
		return "(let " + vs.Names[0].Name + " := " + zero + "\n" + r + ")", nil
	case *ast.AssignStmt:
		if len(x.Lhs) != 1 || len(x.Rhs) != 1 {
			return "", t.errf(s, "assignment outside the subset")
		}
		rhs, err := t.expr(x.Rhs[0])
		if err != nil {
			return "", err
		}
		r, err := tail()
		if err != nil {
			return "", err
		}
		switch l := x.Lhs[0].(type) {
		case *ast.Ident:
			return "(let " + l.Name + " := " + rhs + "\n" + r + ")", nil
		case *ast.SelectorExpr:
			base, ok := l.X.(*ast.Ident)
			lf, ok2 := t.fn.fields[l.Sel.Name]
			if !ok || !ok2 || x.Tok != token.ASSIGN {
				return "", t.errf(s, "field assignment outside the subset")
			}
			return "(let " + base.Name + " := { " + base.Name + " with " + lf + " := " + rhs + " }\n" + r + ")", nil
		}
		return "", t.errf(s, "assignment outside the subset")
	case *ast.IfStmt:
		r, err := tail()
		if err != nil {
			return "", err
		}
		thenS, err := t.stmts(x.Body.List, r)
		if err != nil {
			return "", err
		}
		elseS := r
		if x.Else != nil {
			elseS, err = t.stmts([]ast.Stmt{x.Else}, r)
			if err != nil {
				return "", err
			}
		}
		if x.Init != nil {
			as, ok := x.Init.(*ast.AssignStmt)
			if !ok || len(as.Rhs) != 1 {
				return "", t.errf(s, "if-init outside the subset")
			}
			// x, ok := Y.(*valueProperty); ok [&& cond]
			if ta, ok := as.Rhs[0].(*ast.TypeAssertExpr); ok && len(as.Lhs) == 2 {
				tt := t.text(ta.Type)
				name := as.Lhs[0].(*ast.Ident).Name
				okName := as.Lhs[1].(*ast.Ident).Name
				y, err := t.expr(ta.X)
				if err != nil {
					return "", err
				}
				proj, okProj := t.fn.exprs["as:"+tt]
				if !okProj && tt == "*valueProperty" {
					proj, okProj = "asValueProperty", true
				}
				if okProj && name != "_" {
					cond := x.Cond
					extra := ""
					if be, ok := cond.(*ast.BinaryExpr); ok && be.Op == token.LAND && t.text(be.X) == okName {
						// the bound name is visible in the extra condition
						extra, err = t.expr(be.Y)
						if err != nil {
							return "", err
						}
					} else if t.text(cond) != okName {
						return "", t.errf(s, "type-assertion condition outside the subset")
					}
					// `name` shadows only inside the then-branch: re-translate branches is not needed because
					// Lean's `some name` binder shadows in exactly that scope.
					body := thenS
					if extra != "" {
						body = "(if " + extra + " then\n" + c11Indent(thenS, 2) + "\nelse\n" + c11Indent(elseS, 2) + ")"
					}
					return "(match " + proj + " " + y + " with\n | some " + name + " =>\n" + c11Indent(body, 4) + "\n | none =>\n" + c11Indent(elseS, 4) + ")", nil
				}
				if name == "_" && (t.text(x.Cond) == "!"+okName) {
					pred, ok := t.fn.exprs["is:"+tt]
					if !ok {
						return "", t.errf(s, "type assertion on undeclared type")
					}
					return "(if (!(" + pred + " " + y + ")) then\n" + c11Indent(thenS, 2) + "\nelse\n" + c11Indent(elseS, 2) + ")", nil
				}
				return "", t.errf(s, "type assertion outside the subset")
			}
			// te := e; cond
			if len(as.Lhs) == 1 {
				name := as.Lhs[0].(*ast.Ident).Name
				rhs, err := t.expr(as.Rhs[0])
				if err != nil {
					return "", err
				}
				c, err := t.expr(x.Cond)
				if err != nil {
					return "", err
				}
				return "(let " + name + " := " + rhs + "\n(if " + c + " then\n" + c11Indent(thenS, 2) + "\nelse\n" + c11Indent(elseS, 2) + "))", nil
			}
			return "", t.errf(s, "if-init outside the subset")
		}
		c, err := t.expr(x.Cond)
		if err != nil {
			return "", err
		}
		return "(if " + c + " then\n" + c11Indent(thenS, 2) + "\nelse\n" + c11Indent(elseS, 2) + ")", nil
	}
	return "", t.errf(s, "statement outside the translatable subset")
}

// ---- body selectors

func c11WholeBody(fd *ast.FuncDecl) ([]ast.Stmt, error) { return fd.Body.List, nil }

// the body of the first `if v, ok := p.checkHandler().<trap>(...); ok { BODY }`
func c11TrapBody(fd *ast.FuncDecl) ([]ast.Stmt, error) {
	for _, s := range fd.Body.List {
		if is, ok := s.(*ast.IfStmt); ok && is.Init != nil {
			if as, ok := is.Init.(*ast.AssignStmt); ok && len(as.Rhs) == 1 {
				if c, ok := as.Rhs[0].(*ast.CallExpr); ok {
					if se, ok := c.Fun.(*ast.SelectorExpr); ok {
						if c2, ok := se.X.(*ast.CallExpr); ok {
							if se2, ok := c2.Fun.(*ast.SelectorExpr); ok && se2.Sel.Name == "checkHandler" {
								return is.Body.List, nil
							}
						}
					}
				}
			}
		}
	}
	return nil, fmt.Errorf("%s: no `if v, ok := p.checkHandler().trap(...); ok` statement", fd.Name.Name)
}

// the n-th `for` statement inside the trap body
func c11ForBody(n int) func(fd *ast.FuncDecl) ([]ast.Stmt, error) {
	return func(fd *ast.FuncDecl) ([]ast.Stmt, error) {
		body, err := c11TrapBody(fd)
		if err != nil {
			return nil, err
		}
		k := 0
		for _, s := range body {
			if f, ok := s.(*ast.ForStmt); ok {
				if k == n {
					return f.Body.List, nil
				}
				k++
			}
		}
		return nil, fmt.Errorf("%s: for-loop #%d not found", fd.Name.Name, n)
	}
}

// the statements of the trap body that are not loops / not before the loops: the tail after the last for
func c11AfterLoops(fd *ast.FuncDecl) ([]ast.Stmt, error) {
	body, err := c11TrapBody(fd)
	if err != nil {
		return nil, err
	}
	last := -1
	for i, s := range body {
		if _, ok := s.(*ast.ForStmt); ok {
			last = i
		}
	}
	if last < 0 {
		return nil, fmt.Errorf("%s: no loops", fd.Name.Name)
	}
	return body[last+1:], nil
}

// the condition of the `if C { ret.accessor = true }` statement
func c11AccessorIf(fd *ast.FuncDecl) ([]ast.Stmt, error) {
	for _, s := range fd.Body.List {
		if is, ok := s.(*ast.IfStmt); ok && is.Init == nil && is.Else == nil && len(is.Body.List) == 1 {
			if as, ok := is.Body.List[0].(*ast.AssignStmt); ok && len(as.Lhs) == 1 {
				if se, ok := as.Lhs[0].(*ast.SelectorExpr); ok && se.Sel.Name == "accessor" {
					return []ast.Stmt{is}, nil
				}
			}
		}
	}
	return nil, fmt.Errorf("%s: `if … { ret.accessor = true }` not found", fd.Name.Name)
}

func c11Merge(ms ...map[string]string) map[string]string {
	out := map[string]string{}
	for _, m := range ms {
		for k, v := range m {
			out[k] = v
		}
	}
	return out
}

var c11fns = []*c11fn{
	{
		recv: "PropertyDescriptor", name: "complete", lean: "gen_complete",
		sig: "(p : Desc) : Desc",
		exprs: map[string]string{
			"p.Getter": "p.getter", "p.Setter": "p.setter", "p.Value": "p.value", "p.Writable": "p.writable",
			"p.Enumerable": "p.enumerable", "p.Configurable": "p.configurable",
			"_undefined": "(some Val.undef)",
		},
		fields: map[string]string{"Value": "value", "Writable": "writable", "Enumerable": "enumerable",
			"Configurable": "configurable", "Getter": "getter", "Setter": "setter"},
		end: "p", sel: c11WholeBody,
	},
	{
		recv: "proxyObject", name: "__isCompatibleDescriptor", lean: "gen_isCompatibleDescriptor",
		sig: "(extensible : Bool) (desc : Desc) (current : Option VProp) : Bool",
		exprs: map[string]string{
			"extensible": "extensible", "current": "current",
			"current.configurable": "(OVProp.configurable current)", "current.enumerable": "(OVProp.enumerable current)",
			"current.accessor": "(OVProp.accessor current)", "current.writable": "(OVProp.writable current)",
			"current.value": "(OVProp.value current)", "current.setterFunc": "(OVProp.setterFunc current)",
			"current.getterFunc": "(OVProp.getterFunc current)",
			"desc.Configurable":  "desc.configurable", "desc.Enumerable": "desc.enumerable", "desc.Writable": "desc.writable",
			"desc.Value": "desc.value", "desc.Getter": "desc.getter", "desc.Setter": "desc.setter",
			"desc.Enumerable.Bool()": "desc.enumerable.bool",
			"desc.IsGeneric()":       "desc.isGeneric", "desc.IsData()": "desc.isData", "desc.IsAccessor()": "desc.isAccessor",
			"desc.Value.SameAs(current.value)": "(sameAsOpt desc.value (OVProp.value current))",
			"getterObj":                        "getterObj", "setterObj": "setterObj",
		},
		stmts: map[string]string{
			"getterObj, _ := desc.Getter.(*Object)": "let getterObj := asObj desc.getter\n%REST%",
			"setterObj, _ := desc.Setter.(*Object)": "let setterObj := asObj desc.setter\n%REST%",
		},
		rets: map[string]string{"*": "%E%"},
		end:  "true", sel: c11WholeBody,
	},
	{
		recv: "proxyObject", name: "proxyDefineOwnPropertyPostCheck", lean: "gen_proxyDefineOwnPropertyPostCheck",
		sig: "(prop : TProp) (targetExt : Bool) (descr : Desc) : Out Unit",
		exprs: c11Merge(c11optFields("targetDesc"), map[string]string{
			"propToValueProp(prop)":      "(propToValueProp prop)",
			"target.self.isExtensible()": "targetExt",
			"descr.Configurable":         "descr.configurable", "descr.Writable": "descr.writable",
			"targetDesc": "targetDesc", "extensibleTarget": "extensibleTarget", "settingConfigFalse": "settingConfigFalse",
			"descr":                           "descr",
			"call:p.__isCompatibleDescriptor": "gen_isCompatibleDescriptor",
		}),
		end: ".ok ()", sel: c11WholeBody,
	},
	{
		recv: "proxyObject", name: "proxyHasChecks", lean: "gen_proxyHasChecks",
		sig: "(targetProp : TProp) (targetExt : Bool) : Out Unit",
		exprs: c11Merge(c11optFields("targetDesc"), map[string]string{
			"propToValueProp(targetProp)": "(propToValueProp targetProp)",
			"target.self.isExtensible()":  "targetExt", "targetDesc": "targetDesc",
		}),
		end: ".ok ()", sel: c11WholeBody,
	},
	{
		recv: "proxyObject", name: "proxyGetOwnPropertyDescriptor", lean: "gen_proxyGetOwnPropertyDescriptor",
		sig: "(tvp : Desc → VProp) (targetProp : TProp) (targetExt : Bool) (trapResult : TrapDesc) : Out TProp",
		exprs: c11Merge(c11optFields("targetDesc"), map[string]string{
			"propToValueProp(targetProp)": "(propToValueProp targetProp)",
			"target.self.isExtensible()":  "targetExt", "targetDesc": "targetDesc", "extensibleTarget": "extensibleTarget",
			"trapResult != nil && trapResult != _undefined": "(!(TrapDesc.isUndef trapResult))",
			"trapResultObj":                         "trapResultObj",
			"r.toPropertyDescriptor(trapResultObj)": "(OTrapObj.desc trapResultObj)",
			"resultDesc":                            "resultDesc",
			"resultDesc.Configurable":               "resultDesc.configurable", "resultDesc.Writable": "resultDesc.writable",
			"resultDesc.Enumerable":           "resultDesc.enumerable",
			"call:p.__isCompatibleDescriptor": "gen_isCompatibleDescriptor",
			"zero:*Object":                    "(none : Option Desc)",
			"as:*Object":                      "TrapDesc.asObject",
			"trapResult":                      "trapResult",
			"obj":                             "(some obj)",
		}),
		stmts: map[string]string{
			"r := p.val.runtime":    "",
			"resultDesc.complete()": "let resultDesc := gen_complete resultDesc\n%REST%",
		},
		rets: map[string]string{
			"nil":                          "(.ok TProp.absent)",
			"resultDesc.Value":             "(.ok (TProp.ofOptVal resultDesc.value))",
			"r.toValueProp(trapResultObj)": "(.ok (TProp.vp (tvp (OTrapObj.desc trapResultObj))))",
		},
		end: "", sel: c11WholeBody,
	},
	{
		recv: "proxyObject", name: "proxyGetChecks", lean: "gen_proxyGetChecks",
		sig: "(targetProp : TProp) (trapResult : Val) : Out Unit",
		exprs: c11Merge(c11vpFields0("targetDesc"), map[string]string{
			"targetProp": "targetProp", "trapResult": "trapResult",
			"trapResult.SameAs(targetDesc.value)": "(sameAs trapResult targetDesc.value)",
			"targetDesc.getterFunc == nil":        "targetDesc.getterFunc.isNone",
		}),
		end: ".ok ()", sel: c11WholeBody,
	},
	{
		recv: "proxyObject", name: "proxySetPostCheck", lean: "gen_proxySetPostCheck",
		sig: "(targetProp : TProp) (value : Val) : Out Unit",
		exprs: c11Merge(c11vpFields0("prop"), map[string]string{
			"targetProp":                       "targetProp",
			"p.__sameValue(prop.value, value)": "(sameValueNil prop.value (some value))",
			"prop.setterFunc == nil":           "prop.setterFunc.isNone",
		}),
		end: ".ok ()", sel: c11WholeBody,
	},
	{
		recv: "proxyObject", name: "proxyDeleteCheck", lean: "gen_proxyDeleteCheck",
		sig: "(trapResult : Bool) (targetProp : TProp) (targetExt : Bool) (throw : Bool) : Out Unit",
		exprs: c11Merge(c11vpFields0("targetDesc"), map[string]string{
			"trapResult": "trapResult", "targetProp": "targetProp", "throw": "throw",
			"targetProp == nil":          "(TProp.isAbsent targetProp)",
			"target.self.isExtensible()": "targetExt",
		}),
		rets: map[string]string{"": "(.ok ())"},
		end:  ".ok ()", sel: c11WholeBody,
	},
	{
		recv: "proxyObject", name: "proto", lean: "gen_proto",
		sig: "(targetExt : Bool) (targetProto : Option Nat) (v : Val) : Out (Option Nat)",
		exprs: map[string]string{
			"v": "v", "handlerProto": "handlerProto",
			"target.self.isExtensible()":                       "targetExt",
			"p.__sameValue(handlerProto, target.self.proto())": "(sameObj handlerProto targetProto)",
			"zero:*Object": "(none : Option Nat)",
		},
		stmts: map[string]string{
			"handlerProto = p.val.runtime.toObject(v)": "match toObject? v with\n | none => .typeError\n | some o => (let handlerProto := some o\n%REST%)",
		},
		rets: map[string]string{"handlerProto": "(.ok handlerProto)"},
		end:  "", sel: c11TrapBody,
	},
	{
		recv: "proxyObject", name: "setProto", lean: "gen_setProto",
		sig: "(targetExt : Bool) (targetProto proto : Option Nat) (v throw : Bool) : Out Bool",
		exprs: map[string]string{
			"v": "v", "throw": "throw",
			"target.self.isExtensible()":                "targetExt",
			"p.__sameValue(proto, target.self.proto())": "(sameObj proto targetProto)",
		},
		rets: map[string]string{"true": "(.ok true)", "false": "(.ok false)"},
		end:  "", sel: c11TrapBody,
	},
	{
		recv: "proxyObject", name: "isExtensible", lean: "gen_isExtensible",
		sig: "(targetExt booleanTrapResult : Bool) : Out Bool",
		exprs: map[string]string{
			"booleanTrapResult": "booleanTrapResult", "te": "te",
			"target.self.isExtensible()": "targetExt",
		},
		rets: map[string]string{"booleanTrapResult": "(.ok booleanTrapResult)"},
		end:  "", sel: c11TrapBody,
	},
	{
		recv: "proxyObject", name: "preventExtensions", lean: "gen_preventExtensions",
		sig: "(targetExt booleanTrapResult throw : Bool) : Out Bool",
		exprs: map[string]string{
			"booleanTrapResult": "booleanTrapResult", "throw": "throw",
			"target.self.isExtensible()": "targetExt",
		},
		rets: map[string]string{"true": "(.ok true)", "false": "(.ok false)"},
		end:  "", sel: c11TrapBody,
	},
	{
		// first loop body of proxyOwnKeys: one element of the trap result
		recv: "proxyObject", name: "proxyOwnKeys", lean: "gen_ownKeysStep1",
		sig: "(item : KItem) (keyList keySet : List Key) : Out (List Key × List Key)",
		exprs: map[string]string{
			"item": "item", "keySet.has(item)": "(ksHas keySet item)",
			"is:String": "KItem.isString", "is:*Symbol": "KItem.isSymbol",
		},
		stmts: map[string]string{
			"item := keys.self.getIdx(valueInt(k), nil)": "",
			"keyList = append(keyList, item)":            "let keyList := klAppend keyList item\n%REST%",
			"keySet.add(item)":                           "let keySet := ksAdd keySet item\n%REST%",
		},
		end: "(.ok (keyList, keySet))", sel: c11ForBody(0),
	},
	{
		// second loop body: one own key of the target
		recv: "proxyObject", name: "proxyOwnKeys", lean: "gen_ownKeysStep2",
		sig: "(ext : Bool) (item : Key × Bool) (keySet : List Key) : Out (List Key)",
		exprs: map[string]string{
			"ext": "ext", "keySet.has(item.name)": "(keySet.contains item.1)",
			"item.value == nil":            "(itemValueNil item)",
			"target.getOwnProp(item.name)": "(itemProp item)",
			"item.value":                   "(itemProp item)",
			"prop":                         "prop",
			"prop.configurable":            "prop.configurable",
			"zero:Value":                   "TProp.absent",
		},
		stmts: map[string]string{
			"keySet.delete(item.name)": "let keySet := keySet.erase item.1\n%REST%",
		},
		end: "(.ok keySet)", sel: c11ForBody(1),
	},
	{
		// after the loops
		recv: "proxyObject", name: "proxyOwnKeys", lean: "gen_ownKeysFinish",
		sig: "(ext : Bool) (keyList keySet : List Key) : Out (List Key)",
		exprs: map[string]string{
			"ext": "ext", "len(keyList)": "keyList.length", "keySet.size()": "keySet.length", "0": "0",
		},
		rets: map[string]string{"keyList, true": "(.ok keyList)"},
		end:  "", sel: c11AfterLoops,
	},
	{
		// builtin_object.go toValueProp: the condition under which the result is marked as an accessor
		recv: "Runtime", name: "toValueProp", lean: "gen_toValuePropAccessor",
		sig: "(getterFunc setterFunc : Option Nat) (getter setter : Option Val) : Bool",
		exprs: map[string]string{
			"ret.getterFunc": "getterFunc", "ret.setterFunc": "setterFunc", "getter": "getter", "setter": "setter",
		},
		stmts: map[string]string{"ret.accessor = true": "true"},
		end:   "false", sel: c11AccessorIf,
	},
}

func c11optFields(v string) map[string]string {
	m := map[string]string{}
	for _, f := range []string{"configurable", "writable", "value", "accessor", "getterFunc", "setterFunc", "enumerable"} {
		m[v+"."+f] = "(OVProp." + f + " " + v + ")"
	}
	return m
}

func c11vpFields0(v string) map[string]string {
	m := map[string]string{}
	for _, f := range []string{"configurable", "writable", "value", "accessor", "getterFunc", "setterFunc", "enumerable"} {
		m[v+"."+f] = v + "." + f
	}
	return m
}

// ---- key-kind copies: the Str/Idx/Sym variants of one method must be the same text up to the suffix

var c11families = [][3]string{
	{"defineOwnPropertyStr", "defineOwnPropertyIdx", "defineOwnPropertySym"},
	{"hasPropertyStr", "hasPropertyIdx", "hasPropertySym"},
	{"getOwnPropStr", "getOwnPropIdx", "getOwnPropSym"},
	{"getStr", "getIdx", "getSym"},
	{"proxySetStr", "proxySetIdx", "proxySetSym"},
	{"deleteStr", "deleteIdx", "deleteSym"},
	{"hasOwnPropertyStr", "hasOwnPropertyIdx", "hasOwnPropertySym"},
	{"setOwnStr", "setOwnIdx", "setOwnSym"},
	{"setForeignStr", "setForeignIdx", "setForeignSym"},
}

// normalise a method copy: print the body, erase the key-kind suffix of every identifier, rename the
// key parameter to KEY.
func (t *c11tr) normCopy(fd *ast.FuncDecl) string {
	keyParam := ""
	if fd.Type.Params != nil && len(fd.Type.Params.List) > 0 && len(fd.Type.Params.List[0].Names) > 0 {
		keyParam = fd.Type.Params.List[0].Names[0].Name
	}
	var b bytes.Buffer
	printer.Fprint(&b, t.p.Fset, fd.Body)
	toks := c11Tokenize(b.String())
	for i, tk := range toks {
		if tk == keyParam {
			toks[i] = "KEY"
			continue
		}
		for _, suf := range []string{"Str", "Idx", "Sym"} {
			if strings.HasSuffix(tk, suf) && len(tk) > 3 && c11IsIdent(tk) {
				toks[i] = tk[:len(tk)-3] + "K"
			}
		}
	}
	return strings.Join(toks, " ")
}

func c11IsIdent(s string) bool {
	for i, r := range s {
		if !(r == '_' || r >= 'a' && r <= 'z' || r >= 'A' && r <= 'Z' || i > 0 && r >= '0' && r <= '9') {
			return false
		}
	}
	return s != ""
}

func c11Tokenize(s string) []string {
	var out []string
	cur := ""
	flush := func() {
		if cur != "" {
			out = append(out, cur)
			cur = ""
		}
	}
	for _, r := range s {
		switch {
		case r == '_' || r >= 'a' && r <= 'z' || r >= 'A' && r <= 'Z' || r >= '0' && r <= '9':
			cur += string(r)
		case r == ' ' || r == '\t' || r == '\n':
			flush()
		default:
			flush()
			out = append(out, string(r))
		}
	}
	flush()
	return out
}

// methods of proxyObject that implement an internal method: does the body reach the handler only
// through p.checkHandler() (the revocation check)?
var c11internal = []string{
	"proto", "setProto", "isExtensible", "preventExtensions",
	"defineOwnPropertyStr", "defineOwnPropertyIdx", "defineOwnPropertySym",
	"hasPropertyStr", "hasPropertyIdx", "hasPropertySym",
	"getOwnPropStr", "getOwnPropIdx", "getOwnPropSym",
	"getStr", "getIdx", "getSym",
	"proxySetStr", "proxySetIdx", "proxySetSym",
	"deleteStr", "deleteIdx", "deleteSym",
	"proxyOwnKeys", "apply", "construct",
}

// revocationShape reports: direct uses of p.handler, number of p.checkHandler() calls, and whether a
// dereference of the target (`target.x` / `p.target.x`) precedes the first checkHandler call in source order.
func (t *c11tr) revocationShape(fd *ast.FuncDecl) (direct int, checked int, derefBefore int) {
	firstCheck := token.Pos(0)
	firstDeref := token.Pos(0)
	ast.Inspect(fd.Body, func(n ast.Node) bool {
		if se, ok := n.(*ast.SelectorExpr); ok {
			if id, ok := se.X.(*ast.Ident); ok && id.Name == "p" {
				if se.Sel.Name == "handler" {
					direct++
				}
				if se.Sel.Name == "checkHandler" {
					checked++
					if firstCheck == 0 {
						firstCheck = se.Pos()
					}
				}
			}
			isTarget := false
			if id, ok := se.X.(*ast.Ident); ok && id.Name == "target" {
				isTarget = true
			}
			if in, ok := se.X.(*ast.SelectorExpr); ok && in.Sel.Name == "target" {
				isTarget = true
			}
			if isTarget && firstDeref == 0 {
				firstDeref = se.Pos()
			}
		}
		return true
	})
	if firstDeref != 0 && (firstCheck == 0 || firstDeref < firstCheck) {
		derefBefore = 1
	}
	return
}

func genC11(p *Pkg) (map[string]string, error) {
	var b strings.Builder
	b.WriteString("-- GENERATED by extract/c11.go from /repo/proxy.go, object.go, builtin_object.go — do not edit.\n")
	b.WriteString("import GojaModel.C11.Model\nimport GojaModel.C11.GenPrelude\n\nset_option linter.unusedVariables false\n\nnamespace GojaModel.Generated.C11\nopen GojaModel.C11\n\n")
	for _, fn := range c11fns {
		fd := p.FuncDecl(fn.recv, fn.name)
		if fd == nil {
			return nil, fmt.Errorf("function (%s).%s not found", fn.recv, fn.name)
		}
		t := &c11tr{p: p, fn: fn}
		body, err := fn.sel(fd)
		if err != nil {
			return nil, err
		}
		end := fn.end
		if end == "" {
			end = "(Unreachable.elim)" // never emitted when every path returns; see below
		}
		s, err := t.stmts(body, "%END%")
		if err != nil {
			return nil, err
		}
		if strings.Contains(s, "%END%") && fn.end == "" {
			return nil, fmt.Errorf("%s: control can reach the end of the translated body but no end value is declared", fn.name)
		}
		s = strings.ReplaceAll(s, "%END%", end)
		pos := p.Fset.Position(fd.Pos())
		fmt.Fprintf(&b, "/-- %s:%d (%s).%s -/\ndef %s %s :=\n%s\n\n", c11ShortName(pos.Filename), pos.Line, fn.recv, fn.name, fn.lean, fn.sig, c11Indent(s, 2))
	}

	// key-kind copies
	t := &c11tr{p: p, fn: &c11fn{name: "copies"}}
	b.WriteString("/-- normalised text of the Str / Idx / Sym copy of each triplicated proxyObject method -/\n")
	b.WriteString("def keyKindCopies : List (String × String × String × String) := [\n")
	for i, fam := range c11families {
		var norm [3]string
		for j, name := range fam {
			fd := p.FuncDecl("proxyObject", name)
			if fd == nil {
				return nil, fmt.Errorf("method proxyObject.%s not found", name)
			}
			norm[j] = t.normCopy(fd)
		}
		sep := ","
		if i == len(c11families)-1 {
			sep = ""
		}
		fmt.Fprintf(&b, "  (%s, %s, %s, %s)%s\n", LeanString(fam[0][:len(fam[0])-3]), LeanString(norm[0]), LeanString(norm[1]), LeanString(norm[2]), sep)
	}
	b.WriteString("]\n\n")

	// revocation
	b.WriteString("/-- per internal-method implementation of proxyObject: (name, direct uses of p.handler, calls of p.checkHandler(), target dereferenced before the first checkHandler call) -/\n")
	b.WriteString("def revocationShape : List (String × Nat × Nat × Nat) := [\n")
	names := append([]string{}, c11internal...)
	sort.Strings(names)
	for i, name := range names {
		fd := p.FuncDecl("proxyObject", name)
		if fd == nil {
			return nil, fmt.Errorf("method proxyObject.%s not found", name)
		}
		d, c, db := t.revocationShape(fd)
		sep := ","
		if i == len(names)-1 {
			sep = ""
		}
		fmt.Fprintf(&b, "  (%s, %d, %d, %d)%s\n", LeanString(name), d, c, db, sep)
	}
	b.WriteString("]\n\n")

	// call sequences: for the Str copy of each wrapper family and the four simple traps, the callees in source order
	b.WriteString("/-- callees, in source order, of the proxyObject methods that wrap a trap (Str copy of each family) -/\n")
	b.WriteString("def callSequences : List (String × List String) := [\n")
	seqNames := []string{"proto", "setProto", "isExtensible", "preventExtensions", "defineOwnPropertyStr", "hasPropertyStr",
		"getOwnPropStr", "getStr", "proxySetStr", "deleteStr", "proxyOwnKeys", "apply", "construct"}
	for i, name := range seqNames {
		fd := p.FuncDecl("proxyObject", name)
		if fd == nil {
			return nil, fmt.Errorf("method proxyObject.%s not found", name)
		}
		var calls []string
		ast.Inspect(fd.Body, func(n ast.Node) bool {
			if c, ok := n.(*ast.CallExpr); ok {
				ft := t.text(c.Fun)
				if strings.HasSuffix(ft, "NewTypeError") || ft == "panic" || strings.HasSuffix(ft, "String") || ft == "len" || ft == "append" || ft == "valueInt" || ft == "int64" || ft == "toLength" || ft == "nilSafe" {
					return true
				}
				calls = append(calls, LeanString(ft))
			}
			return true
		})
		sep := ","
		if i == len(seqNames)-1 {
			sep = ""
		}
		fmt.Fprintf(&b, "  (%s, [%s])%s\n", LeanString(name), strings.Join(calls, ", "), sep)
	}
	b.WriteString("]\n\n")

	// callability: where p.call / p.ctor are set and what typeof / IsCallable / IsConstructor read
	b.WriteString("/-- normalised text of the code that decides whether a proxy is callable / a constructor -/\n")
	b.WriteString("def callabilityTexts : List (String × String) := [\n")
	{
		nf := p.FuncDecl("Runtime", "_newProxyObject")
		if nf == nil {
			return nil, fmt.Errorf("_newProxyObject not found")
		}
		var parts []string
		for _, st := range nf.Body.List {
			if is, ok := st.(*ast.IfStmt); ok && is.Init != nil {
				parts = append(parts, strings.Join(c11Tokenize(t.text(is)), " "))
			}
		}
		fmt.Fprintf(&b, "  (%s, %s),\n", LeanString("_newProxyObject"), LeanString(strings.Join(parts, " ;; ")))
		names := []string{"assertCallable", "assertConstructor", "typeOf", "apply", "construct"}
		for i, name := range names {
			fd := p.FuncDecl("proxyObject", name)
			if fd == nil {
				return nil, fmt.Errorf("method proxyObject.%s not found", name)
			}
			var bb bytes.Buffer
			printer.Fprint(&bb, p.Fset, fd.Body)
			txt := strings.Join(c11Tokenize(bb.String()), " ")
			// error message wording is not decision structure
			sep := ","
			if i == len(names)-1 {
				sep = ""
			}
			fmt.Fprintf(&b, "  (%s, %s)%s\n", LeanString(name), LeanString(c11DropStrings(txt)), sep)
		}
	}
	b.WriteString("]\n\n")

	// Go-native handlers (builtin_proxy.go nativeProxyHandler): which ProxyTrapConfig fields each method consults, in
	// order, and whether a consultation is guarded by strToInt (integer-like string key)
	b.WriteString("/-- per nativeProxyHandler method: the ProxyTrapConfig fields consulted in source order; a field read inside an `if idx, ok := strToInt(prop); ok` block is marked with `?int` -/\n")
	b.WriteString("def nativeRouting : List (String × List String) := [\n")
	{
		var names []string
		seenN := map[string]bool{}
		fnames := make([]string, 0, len(p.Files))
		for n := range p.Files {
			fnames = append(fnames, n)
		}
		sort.Strings(fnames)
		type ent struct {
			name string
			fd   *ast.FuncDecl
		}
		var ents []ent
		for _, fn := range fnames {
			for _, dcl := range p.Files[fn].Decls {
				fd, ok := dcl.(*ast.FuncDecl)
				if !ok || fd.Recv == nil || len(fd.Recv.List) != 1 {
					continue
				}
				rt := fd.Recv.List[0].Type
				if st, ok := rt.(*ast.StarExpr); ok {
					rt = st.X
				}
				if id, ok := rt.(*ast.Ident); !ok || id.Name != "nativeProxyHandler" {
					continue
				}
				if fd.Name.Name == "toObject" || seenN[fd.Name.Name] {
					continue
				}
				seenN[fd.Name.Name] = true
				ents = append(ents, ent{fd.Name.Name, fd})
				names = append(names, fd.Name.Name)
			}
		}
		sort.Slice(ents, func(i, j int) bool { return ents[i].name < ents[j].name })
		for i, e := range ents {
			var fields []string
			var walk func(n ast.Node, guarded bool)
			walk = func(n ast.Node, guarded bool) {
				ast.Inspect(n, func(m ast.Node) bool {
					if m == nil {
						return false
					}
					if is, ok := m.(*ast.IfStmt); ok && is.Init != nil && strings.Contains(t.text(is.Init), "strToInt(") {
						walk(is.Body, true)
						if is.Else != nil {
							walk(is.Else, guarded)
						}
						return false
					}
					if as, ok := m.(*ast.AssignStmt); ok && len(as.Rhs) == 1 {
						if se, ok := as.Rhs[0].(*ast.SelectorExpr); ok {
							if in, ok := se.X.(*ast.SelectorExpr); ok && in.Sel.Name == "handler" {
								f := se.Sel.Name
								if guarded {
									f += "?int"
								}
								fields = append(fields, LeanString(f))
							}
						}
					}
					return true
				})
			}
			// a trap read `if trap := h.handler.X; trap != nil { if idx, ok := strToInt(prop); ok {…} }` is guarded as a whole
			for _, st := range e.fd.Body.List {
				if is, ok := st.(*ast.IfStmt); ok && is.Init != nil {
					g := strings.Contains(t.text(is.Body), "strToInt(")
					if as, ok := is.Init.(*ast.AssignStmt); ok && len(as.Rhs) == 1 {
						if se, ok := as.Rhs[0].(*ast.SelectorExpr); ok {
							f := se.Sel.Name
							if g {
								f += "?int"
							}
							fields = append(fields, LeanString(f))
						}
					}
				}
			}
			_ = walk
			sep := ","
			if i == len(ents)-1 {
				sep = ""
			}
			fmt.Fprintf(&b, "  (%s, [%s])%s\n", LeanString(e.name), strings.Join(fields, ", "), sep)
		}
		_ = names
	}
	b.WriteString("]\n\n")

	// enumeration helpers (Enumerate.lean): normalised text of the loops that filter the proxy's own keys
	b.WriteString("/-- normalised text of proxyObject.keys / filterKeys / stringKeys / symbols (string literals blanked) -/\n")
	b.WriteString("def enumTexts : List (String × String) := [\n")
	{
		names := []string{"keys", "filterKeys", "stringKeys", "symbols"}
		for i, name := range names {
			fd := p.FuncDecl("proxyObject", name)
			if fd == nil {
				return nil, fmt.Errorf("method proxyObject.%s not found", name)
			}
			var bb bytes.Buffer
			printer.Fprint(&bb, p.Fset, fd.Body)
			sep := ","
			if i == len(names)-1 {
				sep = ""
			}
			fmt.Fprintf(&b, "  (%s, %s)%s\n", LeanString(name), LeanString(c11DropStrings(strings.Join(c11Tokenize(bb.String()), " "))), sep)
		}
	}
	b.WriteString("]\n\n")

	// checkHandler itself: `if handler := p.handler; handler != nil { return handler }; panic(TypeError)`
	ch := p.FuncDecl("proxyObject", "checkHandler")
	rv := p.FuncDecl("proxyObject", "revoke")
	if ch == nil || rv == nil {
		return nil, fmt.Errorf("checkHandler / revoke not found")
	}
	var cb, rb bytes.Buffer
	printer.Fprint(&cb, p.Fset, ch.Body)
	printer.Fprint(&rb, p.Fset, rv.Body)
	fmt.Fprintf(&b, "def checkHandlerText : String := %s\n\n", LeanString(strings.Join(c11Tokenize(cb.String()), " ")))
	fmt.Fprintf(&b, "def revokeText : String := %s\n\n", LeanString(strings.Join(c11Tokenize(rb.String()), " ")))

	b.WriteString("end GojaModel.Generated.C11\n")
	return map[string]string{"C11_Checks.lean": b.String()}, nil
}

// c11DropStrings blanks the contents of string literals (messages are not decision structure)
func c11DropStrings(s string) string {
	var out strings.Builder
	in := false
	for _, r := range s {
		if r == '"' {
			in = !in
			out.WriteRune(r)
			continue
		}
		if !in {
			out.WriteRune(r)
		}
	}
	return out.String()
}

func c11ShortName(path string) string {
	if i := strings.LastIndex(path, "/"); i >= 0 {
		return path[i+1:]
	}
	return path
}

// ---- array.go: defineArrayLength (the decision function behind Object.defineProperty(array, "length", …)) -> C11_Array.lean

var c11ArrayFn = &c11fn{
	recv: "Runtime", name: "defineArrayLength", lean: "gen_defineArrayLength",
	sig: "(prop : LenProp) (oldLen : Nat) (descr : Desc) (newLenOf : Option Nat) (setter : Nat → Bool) (throw : Bool) : Out (Bool × Bool)",
	exprs: map[string]string{
		"descr.Value": "descr.value", "descr.Configurable": "descr.configurable", "descr.Enumerable": "descr.enumerable",
		"descr.Getter": "descr.getter", "descr.Setter": "descr.setter", "descr.Writable": "descr.writable",
		"descr.Writable.Bool()":          "descr.writable.bool",
		"uint32(prop.value.ToInteger())": "oldLen",
		"setter(newLen, false)":          "(setter newLen)",
		"prop.writable":                  "prop.writable",
		"newLen":                         "newLen", "oldLen": "oldLen", "ret": "ret", "w": "w", "throw": "throw",
		"zero:uint32": "(0 : Nat)",
	},
	stmts: map[string]string{
		"newLen = r.toLengthUint32(descr.Value)": "match newLenOf with\n | none => .typeError\n | some n => (let newLen := n\n%REST%)",
	},
	fields: map[string]string{"writable": "writable"},
	rets:   map[string]string{"ret": "(.ok (ret, prop.writable))"},
	end:    "", sel: c11WholeBody,
}

func genC11Array(p *Pkg) (map[string]string, error) {
	fn := c11ArrayFn
	fd := p.FuncDecl(fn.recv, fn.name)
	if fd == nil {
		return nil, fmt.Errorf("function (%s).%s not found", fn.recv, fn.name)
	}
	t := &c11tr{p: p, fn: fn, labels: map[string][]ast.Stmt{}}
	for i, st := range fd.Body.List {
		if ls, ok := st.(*ast.LabeledStmt); ok {
			t.labels[ls.Label.Name] = fd.Body.List[i:]
		}
	}
	s, err := t.stmts(fd.Body.List, "%END%")
	if err != nil {
		return nil, err
	}
	if strings.Contains(s, "%END%") {
		return nil, fmt.Errorf("%s: control can reach the end of the translated body", fn.name)
	}
	pos := p.Fset.Position(fd.Pos())
	var b strings.Builder
	b.WriteString("-- GENERATED by extract/c11.go from /repo/array.go — do not edit.\n")
	b.WriteString("import GojaModel.C11.Model\nimport GojaModel.C11.ArrayMech\n\nset_option linter.unusedVariables false\n\nnamespace GojaModel.Generated.C11\nopen GojaModel.C11\n\n")
	fmt.Fprintf(&b, "/-- %s:%d (%s).%s -/\ndef %s %s :=\n%s\n\n", c11ShortName(pos.Filename), pos.Line, fn.recv, fn.name, fn.lean, fn.sig, c11Indent(s, 2))
	b.WriteString("end GojaModel.Generated.C11\n")
	return map[string]string{"C11_Array.lean": b.String()}, nil
}
