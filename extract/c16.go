// C16 fact extractor: access tables for "Program and primitives are shareable across goroutines".
//
// Emits lean/GojaModel/Generated/C16_Share.lean with
//   execMethods     every `func (x T) exec(vm *vm)` (type, pointer receiver?)
//   execAcc         for every exec method (and the helper methods on instruction types it calls): every
//                   WRITE through the receiver, every ESCAPE of a reference-typed field of the receiver (a map,
//                   slice, pointer, func … stored somewhere or passed to a call), every ADDRESS-OF a field and every
//                   method CALL on a reference-typed field — with the guard (innermost enclosing condition) it happens under
//   progFieldWrites every assignment anywhere in the package whose target is a field named like a field of
//                   Program that only Program has (`code`, `srcMap`), with file and function
//   namesWriters    every function that writes a `names` map (s.names[k]=…, delete(s.names,k), s.names = …)
//   impAcc          every read/write of importedString.{s,u,scanned} anywhere in the package, with its sync
//                   context (plain / atomic / init = composite literal) and what dominates it in the function
//                   (ensure = after x.ensureScanned(), flag = under a test of the flag, raw = nothing)
//   memoProg        scan()+ensureScanned() translated to the protocol instruction list of the Lean model
//   rxCacheAcc      every write of regexp2Wrapper.cache / regexpPattern.regexp2Wrapper with its function
//   toValueObject   the `case *Object:` clause of Runtime.toValue as an ordered decision list
//
// Only go/ast is used (no type checker); field types come from the struct declarations of the package.
// Anything outside the understood shapes is an error ("tie not regenerable").
package main

import (
	"bytes"
	"fmt"
	"go/ast"
	"go/printer"
	"go/token"
	"sort"
	"strings"
)

func init() { Register("C16", genC16) }

type c16 struct {
	p       *Pkg
	types   map[string]ast.Expr            // type name -> underlying type expression
	methods map[string]map[string]*ast.FuncDecl // receiver type -> method name -> decl
	fileOf  map[*ast.FuncDecl]string
	// methods of importedString that do nothing but return the memo flag (`return i.scanned` / `return i.scanned.Load()`)
	flagHelpers map[string]bool
}

func (g *c16) str(n ast.Node) string {
	var b bytes.Buffer
	printer.Fprint(&b, g.p.Fset, n)
	s := b.String()
	s = strings.Join(strings.Fields(s), " ")
	return s
}

func recvInfo(fd *ast.FuncDecl) (name, typ string, ptr bool) {
	if fd.Recv == nil || len(fd.Recv.List) != 1 {
		return "", "", false
	}
	f := fd.Recv.List[0]
	t := f.Type
	if s, ok := t.(*ast.StarExpr); ok {
		t = s.X
		ptr = true
	}
	if id, ok := t.(*ast.Ident); ok {
		typ = id.Name
	}
	if len(f.Names) == 1 {
		name = f.Names[0].Name
	}
	return
}

func (g *c16) index() {
	g.types = map[string]ast.Expr{}
	g.methods = map[string]map[string]*ast.FuncDecl{}
	g.fileOf = map[*ast.FuncDecl]string{}
	for fn, f := range g.p.Files {
		for _, d := range f.Decls {
			switch d := d.(type) {
			case *ast.GenDecl:
				if d.Tok == token.TYPE {
					for _, s := range d.Specs {
						ts := s.(*ast.TypeSpec)
						g.types[ts.Name.Name] = ts.Type
					}
				}
			case *ast.FuncDecl:
				g.fileOf[d] = fn
				if _, typ, _ := recvInfo(d); typ != "" {
					if g.methods[typ] == nil {
						g.methods[typ] = map[string]*ast.FuncDecl{}
					}
					g.methods[typ][d.Name.Name] = d
				}
			}
		}
	}
}

func (g *c16) findFlagHelpers() {
	g.flagHelpers = map[string]bool{}
	for name, fd := range g.methods["importedString"] {
		if fd.Body == nil || len(fd.Body.List) != 1 || (fd.Type.Params != nil && len(fd.Type.Params.List) > 0) {
			continue
		}
		ret, ok := fd.Body.List[0].(*ast.ReturnStmt)
		if !ok || len(ret.Results) != 1 {
			continue
		}
		r, _, _ := recvInfo(fd)
		txt := renameIdent(g.str(ret.Results[0]), r, "$")
		if txt == "$.scanned" || txt == "$.scanned.Load()" || txt == "atomic.LoadUint32(&$.scanned) != 0" {
			g.flagHelpers[name] = true
		}
	}
}

// ---- a very small type resolver over declared struct fields --------------------------------------------

// fieldType returns the type of field `name` of the (possibly pointer to) named struct type t, following embedded structs.
func (g *c16) fieldType(t ast.Expr, name string, depth int) ast.Expr {
	if depth > 6 || t == nil {
		return nil
	}
	if s, ok := t.(*ast.StarExpr); ok {
		t = s.X
	}
	if id, ok := t.(*ast.Ident); ok {
		u, ok := g.types[id.Name]
		if !ok {
			return nil
		}
		t = u
		if id2, ok := t.(*ast.Ident); ok { // type A B
			return g.fieldType(id2, name, depth+1)
		}
	}
	st, ok := t.(*ast.StructType)
	if !ok {
		return nil
	}
	for _, f := range st.Fields.List {
		for _, n := range f.Names {
			if n.Name == name {
				return f.Type
			}
		}
	}
	for _, f := range st.Fields.List {
		if len(f.Names) == 0 {
			et := f.Type
			base := et
			if s, ok := base.(*ast.StarExpr); ok {
				base = s.X
			}
			if id, ok := base.(*ast.Ident); ok && id.Name == name {
				return et
			}
			if r := g.fieldType(et, name, depth+1); r != nil {
				return r
			}
		}
	}
	return nil
}

// elemType: element type of a slice/array/map (named types unfolded).
func (g *c16) elemType(t ast.Expr) ast.Expr {
	for i := 0; i < 6 && t != nil; i++ {
		switch x := t.(type) {
		case *ast.ArrayType:
			return x.Elt
		case *ast.MapType:
			return x.Value
		case *ast.Ident:
			t = g.types[x.Name]
		default:
			return nil
		}
	}
	return nil
}

// typeOf resolves the type of a selector/index/star/slice chain given the types of root identifiers.
func (g *c16) typeOf(e ast.Expr, env map[string]ast.Expr) ast.Expr {
	switch x := e.(type) {
	case *ast.Ident:
		return env[x.Name]
	case *ast.ParenExpr:
		return g.typeOf(x.X, env)
	case *ast.SelectorExpr:
		bt := g.typeOf(x.X, env)
		if bt == nil {
			return nil
		}
		return g.fieldType(bt, x.Sel.Name, 0)
	case *ast.IndexExpr:
		return g.elemType(g.typeOf(x.X, env))
	case *ast.SliceExpr:
		return g.typeOf(x.X, env)
	case *ast.StarExpr:
		bt := g.typeOf(x.X, env)
		if s, ok := bt.(*ast.StarExpr); ok {
			return s.X
		}
		return nil
	case *ast.UnaryExpr:
		if x.Op == token.AND {
			bt := g.typeOf(x.X, env)
			if bt == nil {
				return nil
			}
			return &ast.StarExpr{X: bt}
		}
	}
	return nil
}

// refKind: "val" (copying it shares nothing), "ref" (pointer, map, slice, chan, func), "iface", "sref" (struct
// by value that contains references), "unk".
func (g *c16) refKind(t ast.Expr, depth int) string {
	if t == nil || depth > 8 {
		return "unk"
	}
	switch x := t.(type) {
	case *ast.StarExpr, *ast.MapType, *ast.ChanType, *ast.FuncType:
		return "ref"
	case *ast.ArrayType:
		if x.Len == nil {
			return "ref"
		}
		return g.refKind(x.Elt, depth+1)
	case *ast.InterfaceType:
		return "iface"
	case *ast.SelectorExpr: // other package: unistring.String, file.Idx, … are value types in goja's instructions
		return "val"
	case *ast.StructType:
		k := "val"
		for _, f := range x.Fields.List {
			switch g.refKind(f.Type, depth+1) {
			case "ref", "sref":
				k = "sref"
			case "iface":
				if k == "val" {
					k = "sref"
				}
			case "unk":
				return "unk"
			}
		}
		return k
	case *ast.Ident:
		switch x.Name {
		case "bool", "string", "int", "int8", "int16", "int32", "int64", "uint", "uint8", "uint16", "uint32", "uint64",
			"uintptr", "byte", "rune", "float32", "float64", "complex64", "complex128":
			return "val"
		case "error", "any":
			return "iface"
		}
		u, ok := g.types[x.Name]
		if !ok {
			return "unk"
		}
		return g.refKind(u, depth+1)
	}
	return "unk"
}

// ---- exec access table -------------------------------------------------------------------------------

type execAcc struct {
	ty, fn, kind, path, sink, guard string
	ptr, local                      bool
}

type execWalker struct {
	g       *c16
	ty      string
	ptr     bool
	fn      string
	recv    string
	env     map[string]ast.Expr // root ident -> type
	alias   map[string]ast.Expr // local ident -> receiver-rooted expression it aliases
	out     *[]execAcc
	visited map[string]bool
	err     error
}

// root returns the root identifier of a selector/index/star/slice/paren chain, or "".
func chainRoot(e ast.Expr) string {
	for {
		switch x := e.(type) {
		case *ast.Ident:
			return x.Name
		case *ast.SelectorExpr:
			e = x.X
		case *ast.IndexExpr:
			e = x.X
		case *ast.SliceExpr:
			e = x.X
		case *ast.StarExpr:
			e = x.X
		case *ast.ParenExpr:
			e = x.X
		default:
			return ""
		}
	}
}

func isChain(e ast.Expr) bool {
	switch e.(type) {
	case *ast.Ident, *ast.SelectorExpr, *ast.IndexExpr, *ast.SliceExpr, *ast.StarExpr, *ast.ParenExpr:
		return true
	}
	return false
}

// subst replaces alias identifiers by the receiver-rooted chain they stand for (one level is enough after closure).
func (w *execWalker) subst(e ast.Expr) ast.Expr {
	switch x := e.(type) {
	case *ast.Ident:
		if a, ok := w.alias[x.Name]; ok {
			return a
		}
		return x
	case *ast.SelectorExpr:
		return &ast.SelectorExpr{X: w.subst(x.X), Sel: x.Sel}
	case *ast.IndexExpr:
		return &ast.IndexExpr{X: w.subst(x.X), Index: x.Index}
	case *ast.SliceExpr:
		return &ast.SliceExpr{X: w.subst(x.X), Low: x.Low, High: x.High, Max: x.Max}
	case *ast.StarExpr:
		return &ast.StarExpr{X: w.subst(x.X)}
	case *ast.ParenExpr:
		return w.subst(x.X)
	case *ast.UnaryExpr:
		if x.Op == token.AND {
			return &ast.UnaryExpr{Op: token.AND, X: w.subst(x.X)}
		}
	}
	return e
}

func (w *execWalker) rooted(e ast.Expr) bool {
	if u, ok := e.(*ast.UnaryExpr); ok && u.Op == token.AND {
		e = u.X
	}
	if !isChain(e) {
		return false
	}
	r := chainRoot(e)
	if r == "" {
		return false
	}
	if r == w.recv {
		return true
	}
	_, ok := w.alias[r]
	return ok
}

// path renders a receiver-rooted chain with the receiver as `$` and indices as `[]`.
func (w *execWalker) path(e ast.Expr) string {
	e = w.subst(e)
	var f func(e ast.Expr) string
	f = func(e ast.Expr) string {
		switch x := e.(type) {
		case *ast.Ident:
			if x.Name == w.recv {
				return "$"
			}
			return x.Name
		case *ast.SelectorExpr:
			return f(x.X) + "." + x.Sel.Name
		case *ast.IndexExpr:
			return f(x.X) + "[]"
		case *ast.SliceExpr:
			return f(x.X) + "[:]"
		case *ast.StarExpr:
			return "*" + f(x.X)
		case *ast.ParenExpr:
			return f(x.X)
		case *ast.UnaryExpr:
			return "&" + f(x.X)
		}
		return "?"
	}
	return f(e)
}

func (w *execWalker) kindOf(e ast.Expr) string {
	e = w.subst(e)
	t := w.g.typeOf(e, w.env)
	return w.g.refKind(t, 0)
}

// localWrite: a write through a VALUE receiver that only touches the method's private copy: the chain consists of
// by-value struct field selections only.
func (w *execWalker) localWrite(e ast.Expr) bool {
	if w.ptr {
		return false
	}
	e = w.subst(e)
	for {
		switch x := e.(type) {
		case *ast.Ident:
			return x.Name == w.recv
		case *ast.ParenExpr:
			e = x.X
		case *ast.SelectorExpr:
			// the base must not be a pointer
			bt := w.g.typeOf(x.X, w.env)
			if bt == nil {
				return false
			}
			if _, isPtr := bt.(*ast.StarExpr); isPtr {
				return false
			}
			e = x.X
		default:
			return false
		}
	}
}

// guardText: the INNERMOST enclosing condition only.  The outer conditions decide whether the statement is reached at
// all, the innermost one is what makes an escape harmless (`!($.extensible)` for a names map); pinning the whole chain
// made the tie fire on harmless changes of an outer condition.
func (w *execWalker) guardText(guards []string) string {
	if len(guards) == 0 {
		return ""
	}
	return guards[len(guards)-1]
}

func (w *execWalker) render(e ast.Node) string {
	s := w.g.str(e)
	// rename the receiver to `$` (identifier boundaries)
	return renameIdent(s, w.recv, "$")
}

func renameIdent(s, from, to string) string {
	if from == "" || from == "_" {
		return s
	}
	var b strings.Builder
	isId := func(c byte) bool {
		return c == '_' || (c >= '0' && c <= '9') || (c >= 'a' && c <= 'z') || (c >= 'A' && c <= 'Z')
	}
	for i := 0; i < len(s); {
		if strings.HasPrefix(s[i:], from) && (i == 0 || (!isId(s[i-1]) && s[i-1] != '.')) && (i+len(from) == len(s) || !isId(s[i+len(from)])) {
			b.WriteString(to)
			i += len(from)
		} else {
			b.WriteByte(s[i])
			i++
		}
	}
	return b.String()
}

func (w *execWalker) add(kind string, e ast.Expr, sink string, guards []string) {
	a := execAcc{ty: w.ty, fn: w.fn, kind: kind, path: w.path(e), sink: sink, guard: w.guardText(guards), ptr: w.ptr}
	if kind == "write" {
		a.local = w.localWrite(e)
	}
	*w.out = append(*w.out, a)
}

// collectAliases: x := <receiver-rooted chain of reference kind> (or &chain), to a fixpoint.
func (w *execWalker) collectAliases(body *ast.BlockStmt) {
	for iter := 0; iter < 4; iter++ {
		changed := false
		ast.Inspect(body, func(n ast.Node) bool {
			switch s := n.(type) {
			case *ast.AssignStmt:
				if len(s.Lhs) != len(s.Rhs) {
					return true
				}
				for i, l := range s.Lhs {
					id, ok := l.(*ast.Ident)
					if !ok || id.Name == "_" {
						continue
					}
					r := s.Rhs[i]
					if !w.rooted(r) {
						continue
					}
					k := w.kindOf(r)
					if k == "val" {
						continue
					}
					if _, ok := w.alias[id.Name]; !ok {
						w.alias[id.Name] = w.subst(r)
						changed = true
					}
				}
			case *ast.RangeStmt:
				if s.Value != nil && w.rooted(s.X) {
					if id, ok := s.Value.(*ast.Ident); ok && id.Name != "_" {
						el := &ast.IndexExpr{X: w.subst(s.X), Index: ast.NewIdent("_")}
						if w.g.refKind(w.g.typeOf(el, w.env), 0) != "val" {
							if _, ok := w.alias[id.Name]; !ok {
								w.alias[id.Name] = el
								changed = true
							}
						}
					}
				}
			}
			return true
		})
		if !changed {
			break
		}
	}
}

func (w *execWalker) walkFunc(fd *ast.FuncDecl) {
	name, _, ptr := recvInfo(fd)
	sub := *w
	sub.recv = name
	sub.ptr = ptr
	sub.fn = fd.Name.Name
	sub.alias = map[string]ast.Expr{}
	sub.env = map[string]ast.Expr{}
	if name != "" {
		var t ast.Expr = ast.NewIdent(w.ty)
		if ptr {
			t = &ast.StarExpr{X: t}
		}
		sub.env[name] = t
	}
	if fd.Body == nil {
		return
	}
	sub.collectAliases(fd.Body)
	sub.stmts(fd.Body.List, nil)
	if sub.err != nil && w.err == nil {
		w.err = sub.err
	}
}

func (w *execWalker) stmts(list []ast.Stmt, guards []string) {
	for _, s := range list {
		w.stmt(s, guards)
	}
}

func (w *execWalker) stmt(s ast.Stmt, guards []string) {
	switch x := s.(type) {
	case nil:
	case *ast.BlockStmt:
		w.stmts(x.List, guards)
	case *ast.IfStmt:
		w.stmt(x.Init, guards)
		w.expr(x.Cond, "cond", guards)
		c := w.render(x.Cond)
		w.stmts(x.Body.List, append(append([]string{}, guards...), c))
		if x.Else != nil {
			w.stmt(x.Else, append(append([]string{}, guards...), "!("+c+")"))
		}
	case *ast.ForStmt:
		w.stmt(x.Init, guards)
		if x.Cond != nil {
			w.expr(x.Cond, "cond", guards)
		}
		w.stmt(x.Post, guards)
		w.stmts(x.Body.List, append(append([]string{}, guards...), "loop"))
	case *ast.RangeStmt:
		w.expr(x.X, "range", guards)
		w.stmts(x.Body.List, append(append([]string{}, guards...), "loop"))
	case *ast.SwitchStmt:
		w.stmt(x.Init, guards)
		tag := ""
		if x.Tag != nil {
			w.expr(x.Tag, "cond", guards)
			tag = w.render(x.Tag)
		}
		for _, cc := range x.Body.List {
			c := cc.(*ast.CaseClause)
			lbl := "default"
			if c.List != nil {
				var parts []string
				for _, e := range c.List {
					w.expr(e, "cond", guards)
					parts = append(parts, w.render(e))
				}
				lbl = strings.Join(parts, ",")
			}
			w.stmts(c.Body, append(append([]string{}, guards...), "case "+tag+":"+lbl))
		}
	case *ast.TypeSwitchStmt:
		w.stmt(x.Init, guards)
		w.stmt(x.Assign, guards)
		for _, cc := range x.Body.List {
			c := cc.(*ast.CaseClause)
			w.stmts(c.Body, append(append([]string{}, guards...), "typecase"))
		}
	case *ast.ExprStmt:
		w.expr(x.X, "stmt", guards)
	case *ast.IncDecStmt:
		w.lhs(x.X, guards)
	case *ast.AssignStmt:
		for _, l := range x.Lhs {
			w.lhs(l, guards)
		}
		for i, r := range x.Rhs {
			sink := "assign"
			if len(x.Lhs) == len(x.Rhs) {
				sink = "= " + w.render(x.Lhs[i])
			}
			w.expr(r, sink, guards)
		}
	case *ast.DeclStmt:
		if gd, ok := x.Decl.(*ast.GenDecl); ok {
			for _, sp := range gd.Specs {
				if vs, ok := sp.(*ast.ValueSpec); ok {
					for i, v := range vs.Values {
						sink := "var"
						if i < len(vs.Names) {
							sink = "= " + vs.Names[i].Name
						}
						w.expr(v, sink, guards)
					}
				}
			}
		}
	case *ast.ReturnStmt:
		for _, r := range x.Results {
			w.expr(r, "return", guards)
		}
	case *ast.DeferStmt:
		w.expr(x.Call, "defer", guards)
	case *ast.GoStmt:
		w.expr(x.Call, "go", guards)
	case *ast.SendStmt:
		w.expr(x.Value, "send", guards)
	case *ast.LabeledStmt:
		w.stmt(x.Stmt, guards)
	case *ast.BranchStmt, *ast.EmptyStmt:
	default:
		w.err = fmt.Errorf("%s.%s: statement shape %T not understood", w.ty, w.fn, s)
	}
}

// lhs: an assignment target.
func (w *execWalker) lhs(e ast.Expr, guards []string) {
	if id, ok := e.(*ast.Ident); ok {
		if id.Name == w.recv { // rebinding the receiver variable itself: local
			w.add("write", e, "", guards)
		}
		return
	}
	if w.rooted(e) {
		w.add("write", e, "", guards)
	}
	// index expressions inside the target are reads
	switch x := e.(type) {
	case *ast.IndexExpr:
		w.expr(x.Index, "index", guards)
		if !w.rooted(x.X) {
			w.lhsInner(x.X, guards)
		}
	case *ast.SelectorExpr:
		if !w.rooted(x.X) {
			w.lhsInner(x.X, guards)
		}
	case *ast.StarExpr:
		if !w.rooted(x.X) {
			w.expr(x.X, "deref", guards)
		}
	}
}

func (w *execWalker) lhsInner(e ast.Expr, guards []string) {
	switch x := e.(type) {
	case *ast.IndexExpr:
		w.expr(x.Index, "index", guards)
		w.lhsInner(x.X, guards)
	case *ast.SelectorExpr:
		w.lhsInner(x.X, guards)
	case *ast.CallExpr:
		w.expr(x, "lhs-call", guards)
	}
}

// expr: an expression in a context described by `sink`.
//   "cond", "index", "range", "stmt", "deref", "operand": the value does not outlive the expression (a read)
//   anything else: the value is stored / passed on (an escape if it is reference-like)
func (w *execWalker) expr(e ast.Expr, sink string, guards []string) {
	if e == nil {
		return
	}
	readOnly := sink == "cond" || sink == "index" || sink == "range" || sink == "stmt" || sink == "deref" || sink == "operand"
	if u, ok := e.(*ast.UnaryExpr); ok && u.Op == token.AND && w.rooted(u.X) {
		w.add("addr", u.X, sink, guards)
		w.chainIndices(u.X, guards)
		return
	}
	if isChain(e) {
		if w.rooted(e) {
			if !readOnly {
				k := w.kindOf(e)
				if k != "val" {
					kind := "escape"
					if k == "iface" {
						kind = "escape-iface"
					} else if k == "unk" {
						kind = "escape-unk"
					}
					w.add(kind, e, sink, guards)
				}
			}
			w.chainIndices(e, guards)
			return
		}
		// not rooted at the receiver: still look inside indices
		w.chainIndices(e, guards)
		return
	}
	switch x := e.(type) {
	case *ast.CallExpr:
		w.call(x, sink, guards)
	case *ast.BinaryExpr:
		w.expr(x.X, "operand", guards)
		w.expr(x.Y, "operand", guards)
	case *ast.UnaryExpr:
		if x.Op == token.AND {
			w.expr(x.X, sink, guards)
		} else {
			w.expr(x.X, "operand", guards)
		}
	case *ast.CompositeLit:
		for _, el := range x.Elts {
			if kv, ok := el.(*ast.KeyValueExpr); ok {
				w.expr(kv.Value, "lit "+w.g.str(x.Type)+"."+w.g.str(kv.Key), guards)
			} else {
				w.expr(el, "lit "+w.g.str(x.Type), guards)
			}
		}
	case *ast.TypeAssertExpr:
		w.expr(x.X, sink, guards)
	case *ast.FuncLit:
		// closure body: analysed with the same receiver; everything inside may run later
		w.stmts(x.Body.List, append(append([]string{}, guards...), "closure"))
	case *ast.KeyValueExpr:
		w.expr(x.Value, sink, guards)
	case *ast.BasicLit, *ast.ArrayType, *ast.MapType, *ast.InterfaceType, *ast.FuncType, *ast.ChanType, *ast.StructType:
	default:
		w.err = fmt.Errorf("%s.%s: expression shape %T not understood", w.ty, w.fn, e)
	}
}

func (w *execWalker) chainIndices(e ast.Expr, guards []string) {
	for {
		switch x := e.(type) {
		case *ast.IndexExpr:
			w.expr(x.Index, "index", guards)
			e = x.X
		case *ast.SliceExpr:
			w.expr(x.Low, "index", guards)
			w.expr(x.High, "index", guards)
			w.expr(x.Max, "index", guards)
			e = x.X
		case *ast.SelectorExpr:
			e = x.X
		case *ast.StarExpr:
			e = x.X
		case *ast.ParenExpr:
			e = x.X
		case *ast.CallExpr:
			w.call(x, "operand", guards)
			return
		default:
			return
		}
	}
}

func (w *execWalker) call(c *ast.CallExpr, sink string, guards []string) {
	fun := c.Fun
	calleeText := w.render(fun)
	switch fun.(type) {
	case *ast.ArrayType, *ast.MapType, *ast.InterfaceType, *ast.FuncType, *ast.ChanType:
		for _, a := range c.Args { // conversion
			w.expr(a, sink, guards)
		}
		return
	}
	if pe, ok := fun.(*ast.ParenExpr); ok {
		if _, ok := pe.X.(*ast.StarExpr); ok { // (*T)(x)
			for _, a := range c.Args {
				w.expr(a, sink, guards)
			}
			return
		}
	}
	// builtin forms
	if id, ok := fun.(*ast.Ident); ok {
		switch id.Name {
		case "len", "cap":
			for _, a := range c.Args {
				w.expr(a, "operand", guards)
			}
			return
		case "delete", "clear":
			if len(c.Args) > 0 && w.rooted(c.Args[0]) {
				w.add("write", c.Args[0], id.Name, guards)
			}
			for _, a := range c.Args[1:] {
				w.expr(a, "operand", guards)
			}
			return
		case "copy":
			if len(c.Args) == 2 {
				if w.rooted(c.Args[0]) {
					w.add("write", c.Args[0], "copy", guards)
				} else {
					w.expr(c.Args[0], "operand", guards)
				}
				w.expr(c.Args[1], "operand", guards)
				return
			}
		case "append":
			for i, a := range c.Args {
				if i == 0 {
					w.expr(a, "append-base "+sink, guards)
				} else {
					w.expr(a, "append-elem "+sink, guards)
				}
			}
			return
		case "make", "new":
			for _, a := range c.Args[1:] {
				w.expr(a, "operand", guards)
			}
			return
		case "panic":
			for _, a := range c.Args {
				w.expr(a, "panic", guards)
			}
			return
		}
		// conversion T(x) to a known named type, or plain function call
		if _, isType := w.g.types[id.Name]; isType || isBasicTypeName(id.Name) {
			for _, a := range c.Args {
				w.expr(a, sink, guards)
			}
			return
		}
	}
	// method / field-function call on a receiver-rooted chain
	if sel, ok := fun.(*ast.SelectorExpr); ok && w.rooted(sel.X) {
		base := w.subst(sel.X)
		if id, ok := base.(*ast.Ident); ok && id.Name == w.recv {
			// call on the instruction itself: helper method of the instruction type (or of an embedded instruction type)
			if fd := w.g.findMethod(w.ty, sel.Sel.Name); fd != nil {
				_, mty, _ := recvInfo(fd)
				key := mty + "." + sel.Sel.Name
				if !w.visited[key] {
					w.visited[key] = true
					hw := *w
					hw.ty = w.ty
					// analyse with the declaring type as static type of the receiver
					hw2 := hw
					hw2.ty = mty
					hw2.walkFunc(fd)
					if hw2.err != nil && w.err == nil {
						w.err = hw2.err
					}
				}
				*w.out = append(*w.out, execAcc{ty: w.ty, fn: w.fn, kind: "helper", path: "$", sink: mty + "." + sel.Sel.Name, guard: w.guardText(guards), ptr: w.ptr})
			} else {
				w.add("call", sel.X, sel.Sel.Name, guards)
			}
		} else {
			bk := w.kindOf(sel.X)
			if bk != "val" {
				w.add("call", sel.X, sel.Sel.Name, guards)
			}
		}
		w.chainIndices(sel.X, guards)
	} else {
		w.expr(fun, "operand", guards)
	}
	for i, a := range c.Args {
		w.expr(a, fmt.Sprintf("arg%d %s", i, calleeText), guards)
	}
}

func isBasicTypeName(s string) bool {
	switch s {
	case "bool", "string", "int", "int8", "int16", "int32", "int64", "uint", "uint8", "uint16", "uint32", "uint64",
		"uintptr", "byte", "rune", "float32", "float64":
		return true
	}
	return false
}

// findMethod looks a method up on ty or on the struct types embedded in it.
func (g *c16) findMethod(ty, name string) *ast.FuncDecl {
	if m := g.methods[ty][name]; m != nil {
		return m
	}
	if st, ok := g.types[ty].(*ast.StructType); ok {
		for _, f := range st.Fields.List {
			if len(f.Names) == 0 {
				et := f.Type
				if s, ok := et.(*ast.StarExpr); ok {
					et = s.X
				}
				if id, ok := et.(*ast.Ident); ok {
					if m := g.findMethod(id.Name, name); m != nil {
						return m
					}
				}
			}
		}
	}
	return nil
}

func isExecMethod(fd *ast.FuncDecl) bool {
	if fd.Name.Name != "exec" || fd.Recv == nil || fd.Type.Params == nil || len(fd.Type.Params.List) != 1 {
		return false
	}
	if fd.Type.Results != nil && len(fd.Type.Results.List) > 0 {
		return false
	}
	p := fd.Type.Params.List[0]
	if len(p.Names) != 1 || p.Names[0].Name != "vm" {
		return false
	}
	s, ok := p.Type.(*ast.StarExpr)
	if !ok {
		return false
	}
	id, ok := s.X.(*ast.Ident)
	return ok && id.Name == "vm"
}

// ---- importedString accesses ---------------------------------------------------------------------------

type impAcc struct {
	file, fn, field, rw, sync, dom string
}

// importedVars: identifiers of type *importedString inside fd, with the statement list in which they are valid.
func (g *c16) impAccesses(fd *ast.FuncDecl, file string, out *[]impAcc) error {
	if fd.Body == nil {
		return nil
	}
	fname := fd.Name.Name
	if _, typ, _ := recvInfo(fd); typ != "" {
		fname = typ + "." + fname
	}
	vars := map[string]bool{}
	if n, typ, ptr := recvInfo(fd); typ == "importedString" && ptr && n != "" {
		vars[n] = true
	}
	isImpType := func(e ast.Expr) bool {
		s, ok := e.(*ast.StarExpr)
		if !ok {
			return false
		}
		id, ok := s.X.(*ast.Ident)
		return ok && id.Name == "importedString"
	}
	if fd.Type.Params != nil {
		for _, p := range fd.Type.Params.List {
			if isImpType(p.Type) {
				for _, n := range p.Names {
					vars[n.Name] = true
				}
			}
		}
	}
	// x, ok := e.(*importedString) / x := e.(*importedString) / x := &importedString{…}; type switch clauses handled below
	ast.Inspect(fd.Body, func(n ast.Node) bool {
		if as, ok := n.(*ast.AssignStmt); ok && len(as.Rhs) == 1 {
			r := as.Rhs[0]
			if ta, ok := r.(*ast.TypeAssertExpr); ok && ta.Type != nil && isImpType(ta.Type) {
				if id, ok := as.Lhs[0].(*ast.Ident); ok {
					vars[id.Name] = true
				}
			}
			if u, ok := r.(*ast.UnaryExpr); ok && u.Op == token.AND {
				if cl, ok := u.X.(*ast.CompositeLit); ok {
					if id, ok := cl.Type.(*ast.Ident); ok && id.Name == "importedString" {
						if l, ok := as.Lhs[0].(*ast.Ident); ok {
							vars[l.Name] = true
						}
					}
				}
			}
		}
		return true
	})
	// NOTE: a name may be re-bound with another type in a different scope (type switch `switch s := s.(type)`); the
	// walker below tracks type-switch clauses explicitly: inside a clause the bound name is imported iff the clause
	// lists exactly *importedString.
	type frame struct {
		vars   map[string]bool
		ensure map[string]bool // variables on which ensureScanned() has been called on every path so far (straight-line approximation)
		flag   map[string]bool // variables whose flag has been tested by an enclosing condition
	}
	copyM := func(m map[string]bool) map[string]bool {
		r := map[string]bool{}
		for k, v := range m {
			r[k] = v
		}
		return r
	}
	var err error
	var walkStmts func(list []ast.Stmt, f frame) frame
	var walkExpr func(e ast.Node, f frame, write bool)
	flagVarsIn := func(cond ast.Expr, f frame) []string {
		var res []string
		ast.Inspect(cond, func(n ast.Node) bool {
			if s, ok := n.(*ast.SelectorExpr); ok && (s.Sel.Name == "scanned" || g.flagHelpers[s.Sel.Name]) {
				if id, ok := s.X.(*ast.Ident); ok && f.vars[id.Name] {
					res = append(res, id.Name)
				}
			}
			return true
		})
		return res
	}
	record := func(sel *ast.SelectorExpr, f frame, write bool, sync string) {
		id := sel.X.(*ast.Ident)
		dom := "raw"
		if f.ensure[id.Name] {
			dom = "ensure"
		} else if f.flag[id.Name] {
			dom = "flag"
		}
		rw := "r"
		if write {
			rw = "w"
		}
		*out = append(*out, impAcc{file: file, fn: fname, field: sel.Sel.Name, rw: rw, sync: sync, dom: dom})
	}
	isFieldSel := func(n ast.Node, f frame) (*ast.SelectorExpr, bool) {
		s, ok := n.(*ast.SelectorExpr)
		if !ok {
			return nil, false
		}
		if s.Sel.Name != "s" && s.Sel.Name != "u" && s.Sel.Name != "scanned" {
			return nil, false
		}
		id, ok := s.X.(*ast.Ident)
		if !ok || !f.vars[id.Name] {
			return nil, false
		}
		return s, true
	}
	walkExpr = func(e ast.Node, f frame, write bool) {
		if e == nil {
			return
		}
		switch x := e.(type) {
		case *ast.CallExpr:
			// atomic forms:  x.scanned.Load() / x.scanned.Store(v) / atomic.LoadUint32(&x.scanned) / atomic.StoreUint32(&x.scanned, v)
			if sel, ok := x.Fun.(*ast.SelectorExpr); ok {
				if inner, ok := isFieldSel(sel.X, f); ok && (sel.Sel.Name == "Load" || sel.Sel.Name == "Store" || sel.Sel.Name == "CompareAndSwap" || sel.Sel.Name == "Swap") {
					record(inner, f, sel.Sel.Name != "Load", "atomic")
					for _, a := range x.Args {
						walkExpr(a, f, false)
					}
					return
				}
				if pk, ok := sel.X.(*ast.Ident); ok && pk.Name == "atomic" && len(x.Args) > 0 {
					if u, ok := x.Args[0].(*ast.UnaryExpr); ok && u.Op == token.AND {
						if inner, ok := isFieldSel(u.X, f); ok {
							record(inner, f, !strings.HasPrefix(sel.Sel.Name, "Load"), "atomic")
							for _, a := range x.Args[1:] {
								walkExpr(a, f, false)
							}
							return
						}
					}
				}
			}
			walkExpr(x.Fun, f, false)
			for _, a := range x.Args {
				walkExpr(a, f, false)
			}
		case *ast.SelectorExpr:
			if s, ok := isFieldSel(x, f); ok {
				record(s, f, write, "plain")
				return
			}
			walkExpr(x.X, f, false)
		case *ast.CompositeLit:
			if id, ok := x.Type.(*ast.Ident); ok && id.Name == "importedString" {
				for _, el := range x.Elts {
					kv, ok := el.(*ast.KeyValueExpr)
					if !ok {
						err = fmt.Errorf("%s: positional importedString literal", fname)
						return
					}
					*out = append(*out, impAcc{file: file, fn: fname, field: g.str(kv.Key), rw: "w", sync: "init", dom: "init"})
					walkExpr(kv.Value, f, false)
				}
				return
			}
			for _, el := range x.Elts {
				walkExpr(el, f, false)
			}
		case *ast.FuncLit:
			walkStmts(x.Body.List, frame{vars: f.vars, ensure: map[string]bool{}, flag: map[string]bool{}})
		case *ast.BinaryExpr:
			walkExpr(x.X, f, false)
			if x.Op == token.LAND { // `x.scanned && x.u == nil`: the right operand is evaluated under the flag test
				f2 := frame{vars: f.vars, ensure: f.ensure, flag: copyM(f.flag)}
				for _, v := range flagVarsIn(x.X, f) {
					f2.flag[v] = true
				}
				walkExpr(x.Y, f2, false)
			} else {
				walkExpr(x.Y, f, false)
			}
		case *ast.ParenExpr:
			walkExpr(x.X, f, write)
		case ast.Expr:
			// generic: visit children
			ast.Inspect(x, func(n ast.Node) bool {
				if n == nil || n == ast.Node(x) {
					return true
				}
				if ex, ok := n.(ast.Expr); ok {
					walkExpr(ex, f, false)
					return false
				}
				return true
			})
		}
	}
	ensureCallOn := func(s ast.Stmt, f frame) string {
		es, ok := s.(*ast.ExprStmt)
		if !ok {
			return ""
		}
		c, ok := es.X.(*ast.CallExpr)
		if !ok {
			return ""
		}
		sel, ok := c.Fun.(*ast.SelectorExpr)
		if !ok || sel.Sel.Name != "ensureScanned" {
			return ""
		}
		id, ok := sel.X.(*ast.Ident)
		if !ok || !f.vars[id.Name] {
			return ""
		}
		return id.Name
	}
	// negFlagOnly: cond is exactly `!x.scanned` or `!x.scanned.Load()`
	negFlagVar := func(cond ast.Expr, f frame) string {
		u, ok := cond.(*ast.UnaryExpr)
		if !ok || u.Op != token.NOT {
			return ""
		}
		e := u.X
		if c, ok := e.(*ast.CallExpr); ok {
			if s, ok := c.Fun.(*ast.SelectorExpr); ok && s.Sel.Name == "Load" {
				e = s.X
			} else if ok && g.flagHelpers[s.Sel.Name] && len(c.Args) == 0 {
				if id, ok := s.X.(*ast.Ident); ok && f.vars[id.Name] {
					return id.Name
				}
			}
		}
		if s, ok := isFieldSel(e, f); ok && s.Sel.Name == "scanned" {
			return s.X.(*ast.Ident).Name
		}
		return ""
	}
	walkStmts = func(list []ast.Stmt, f frame) frame {
		f = frame{vars: f.vars, ensure: copyM(f.ensure), flag: copyM(f.flag)}
		for _, s := range list {
			if v := ensureCallOn(s, f); v != "" {
				f.ensure[v] = true
				continue
			}
			switch x := s.(type) {
			case *ast.ExprStmt:
				walkExpr(x.X, f, false)
			case *ast.AssignStmt:
				for _, r := range x.Rhs {
					walkExpr(r, f, false)
				}
				for _, l := range x.Lhs {
					walkExpr(l, f, true)
				}
			case *ast.IncDecStmt:
				walkExpr(x.X, f, true)
			case *ast.ReturnStmt:
				for _, r := range x.Results {
					walkExpr(r, f, false)
				}
			case *ast.IfStmt:
				if x.Init != nil {
					f = walkStmts([]ast.Stmt{x.Init}, f)
				}
				walkExpr(x.Cond, f, false)
				inner := frame{vars: f.vars, ensure: copyM(f.ensure), flag: copyM(f.flag)}
				for _, v := range flagVarsIn(x.Cond, f) {
					inner.flag[v] = true
				}
				after := walkStmts(x.Body.List, inner)
				if x.Else != nil {
					walkStmts([]ast.Stmt{x.Else}, inner)
				}
				// `if !x.scanned { …; x.ensureScanned() }` : afterwards x is scanned on every path
				if v := negFlagVar(x.Cond, f); v != "" && x.Else == nil && after.ensure[v] {
					f.ensure[v] = true
				}
			case *ast.BlockStmt:
				f2 := walkStmts(x.List, f)
				f.ensure = f2.ensure
			case *ast.ForStmt:
				if x.Init != nil {
					walkStmts([]ast.Stmt{x.Init}, f)
				}
				walkExpr(x.Cond, f, false)
				walkStmts(x.Body.List, f)
			case *ast.RangeStmt:
				walkExpr(x.X, f, false)
				walkStmts(x.Body.List, f)
			case *ast.SwitchStmt:
				if x.Init != nil {
					walkStmts([]ast.Stmt{x.Init}, f)
				}
				walkExpr(x.Tag, f, false)
				for _, cc := range x.Body.List {
					c := cc.(*ast.CaseClause)
					for _, e := range c.List {
						walkExpr(e, f, false)
					}
					walkStmts(c.Body, f)
				}
			case *ast.TypeSwitchStmt:
				bound := ""
				if as, ok := x.Assign.(*ast.AssignStmt); ok {
					if id, ok := as.Lhs[0].(*ast.Ident); ok {
						bound = id.Name
					}
				}
				for _, cc := range x.Body.List {
					c := cc.(*ast.CaseClause)
					f2 := frame{vars: copyM(f.vars), ensure: copyM(f.ensure), flag: copyM(f.flag)}
					if bound != "" {
						f2.vars[bound] = len(c.List) == 1 && isImpType(c.List[0])
						delete(f2.ensure, bound)
						delete(f2.flag, bound)
					}
					walkStmts(c.Body, f2)
				}
			case *ast.DeclStmt:
				ast.Inspect(x, func(n ast.Node) bool {
					if e, ok := n.(ast.Expr); ok {
						walkExpr(e, f, false)
						return false
					}
					return true
				})
			case *ast.DeferStmt:
				walkExpr(x.Call, f, false)
			case *ast.GoStmt:
				walkExpr(x.Call, f, false)
			case *ast.LabeledStmt:
				f = walkStmts([]ast.Stmt{x.Stmt}, f)
			case *ast.BranchStmt, *ast.EmptyStmt:
			case *ast.SelectStmt, *ast.SendStmt, *ast.CommClause:
				// none of these touch imported strings in goja; visit expressions generically
				ast.Inspect(x, func(n ast.Node) bool {
					if e, ok := n.(ast.Expr); ok {
						walkExpr(e, f, false)
						return false
					}
					return true
				})
			default:
				err = fmt.Errorf("%s: statement %T not understood", fname, s)
			}
		}
		return f
	}
	walkStmts(fd.Body.List, frame{vars: vars, ensure: map[string]bool{}, flag: map[string]bool{}})
	return err
}

// ---- memo protocol ---------------------------------------------------------------------------------------

// memoProg translates scan() and ensureScanned() into the model's instruction list.
func (g *c16) memoProg() ([]string, error) {
	scan := g.methods["importedString"]["scan"]
	ens := g.methods["importedString"]["ensureScanned"]
	if scan == nil || ens == nil {
		return nil, fmt.Errorf("importedString.scan/ensureScanned not found")
	}
	recvOf := func(fd *ast.FuncDecl) string { n, _, _ := recvInfo(fd); return n }
	var transScan func() ([]string, error)
	transScan = func() ([]string, error) {
		r := recvOf(scan)
		var out []string
		for _, s := range scan.Body.List {
			txt := renameIdent(g.str(s), r, "$")
			switch txt {
			case "$.u = unistring.Scan($.s)":
				out = append(out, ".scanStore")
			case "$.scanned = true":
				out = append(out, ".storeFlag .plain")
			case "$.scanned.Store(true)", "atomic.StoreUint32(&$.scanned, 1)", "atomic.StoreInt32(&$.scanned, 1)":
				out = append(out, ".storeFlag .atomic")
			default:
				return nil, fmt.Errorf("scan(): statement %q not understood", txt)
			}
		}
		return out, nil
	}
	r := recvOf(ens)
	var trans func(list []ast.Stmt) ([]string, error)
	trans = func(list []ast.Stmt) ([]string, error) {
		var out []string
		for _, s := range list {
			switch x := s.(type) {
			case *ast.IfStmt:
				if x.Init != nil || x.Else != nil {
					return nil, fmt.Errorf("ensureScanned(): if with init/else")
				}
				c := renameIdent(g.str(x.Cond), r, "$")
				var load string
				switch c {
				case "!$.scanned":
					load = ".loadFlag .plain"
				case "!$.scanned.Load()", "atomic.LoadUint32(&$.scanned) == 0", "atomic.LoadInt32(&$.scanned) == 0":
					load = ".loadFlag .atomic"
				default:
					return nil, fmt.Errorf("ensureScanned(): condition %q not understood", c)
				}
				body, err := trans(x.Body.List)
				if err != nil {
					return nil, err
				}
				out = append(out, load, ".brSet")
				out = append(out, body...)
				out = append(out, ".label")
			case *ast.ExprStmt:
				txt := renameIdent(g.str(x.X), r, "$")
				switch {
				case txt == "$.scan()":
					b, err := transScan()
					if err != nil {
						return nil, err
					}
					out = append(out, b...)
				case strings.HasPrefix(txt, "$.") && strings.HasSuffix(txt, ".Do($.scan)"):
					fld := strings.TrimSuffix(strings.TrimPrefix(txt, "$."), ".Do($.scan)")
					ft := g.fieldType(ast.NewIdent("importedString"), fld, 0)
					if ft == nil || g.str(ft) != "sync.Once" {
						return nil, fmt.Errorf("ensureScanned(): %q is not a sync.Once field", fld)
					}
					b, err := transScan()
					if err != nil {
						return nil, err
					}
					out = append(out, ".onceBegin")
					out = append(out, b...)
					out = append(out, ".onceEnd")
				default:
					return nil, fmt.Errorf("ensureScanned(): statement %q not understood", txt)
				}
			default:
				return nil, fmt.Errorf("ensureScanned(): statement %T not understood", s)
			}
		}
		return out, nil
	}
	return trans(ens.Body.List)
}

// ---- toValue(*Object) decision -------------------------------------------------------------------------------

func (g *c16) toValueObject() ([][2]string, error) {
	fd := g.methods["Runtime"]["toValue"]
	if fd == nil {
		return nil, fmt.Errorf("Runtime.toValue not found")
	}
	rname, _, _ := recvInfo(fd)
	var res [][2]string
	found := false
	for _, s := range fd.Body.List {
		ts, ok := s.(*ast.TypeSwitchStmt)
		if !ok {
			continue
		}
		bound := ""
		if as, ok := ts.Assign.(*ast.AssignStmt); ok {
			bound = as.Lhs[0].(*ast.Ident).Name
		}
		for idx, cc := range ts.Body.List {
			c := cc.(*ast.CaseClause)
			if len(c.List) != 1 || g.str(c.List[0]) != "*Object" {
				continue
			}
			// position of the clause matters: it must come before `case Value:` (an *Object is a Value)
			for j := 0; j < idx; j++ {
				pc := ts.Body.List[j].(*ast.CaseClause)
				for _, e := range pc.List {
					t := g.str(e)
					if t == "Value" || t == "valueContainer" || t == "interface{}" || t == "any" {
						return nil, fmt.Errorf("toValue: case %s precedes case *Object", t)
					}
				}
			}
			found = true
			norm := func(n ast.Node) string {
				t := g.str(n)
				t = renameIdent(t, bound, "o")
				t = renameIdent(t, rname, "r")
				return t
			}
			for _, st := range c.Body {
				switch x := st.(type) {
				case *ast.IfStmt:
					if x.Init != nil || x.Else != nil || len(x.Body.List) != 1 {
						return nil, fmt.Errorf("toValue *Object clause: if shape")
					}
					res = append(res, [2]string{norm(x.Cond), norm(x.Body.List[0])})
				case *ast.ReturnStmt:
					res = append(res, [2]string{"true", norm(x)})
				default:
					return nil, fmt.Errorf("toValue *Object clause: statement %T", st)
				}
			}
		}
	}
	if !found {
		return nil, fmt.Errorf("toValue: no `case *Object:` clause")
	}
	return res, nil
}

// ---- generator ----------------------------------------------------------------------------------------------

func lb(b bool) string {
	if b {
		return "true"
	}
	return "false"
}

func genC16(p *Pkg) (map[string]string, error) {
	g := &c16{p: p}
	g.index()
	g.findFlagHelpers()

	// deterministic order of files / decls
	var fileNames []string
	for n := range p.Files {
		fileNames = append(fileNames, n)
	}
	sort.Strings(fileNames)

	var b strings.Builder
	b.WriteString("-- GENERATED by extract/c16.go from the Go sources; do not edit. Data only.\n")
	b.WriteString("import GojaModel.C16.Model\nnamespace GojaModel.C16.Generated\nopen GojaModel.C16\n\n")

	// exec methods + access table
	type em struct {
		ty  string
		ptr bool
		fd  *ast.FuncDecl
	}
	var ems []em
	for _, fn := range fileNames {
		for _, d := range p.Files[fn].Decls {
			if fd, ok := d.(*ast.FuncDecl); ok && isExecMethod(fd) {
				_, ty, ptr := recvInfo(fd)
				if ty == "" {
					return nil, fmt.Errorf("exec method with unnamed receiver type in %s", fn)
				}
				ems = append(ems, em{ty, ptr, fd})
			}
		}
	}
	sort.SliceStable(ems, func(i, j int) bool { return ems[i].ty < ems[j].ty })
	if len(ems) < 100 {
		return nil, fmt.Errorf("only %d exec methods found", len(ems))
	}
	b.WriteString("def execMethods : List (String × Bool) := [\n")
	for i, e := range ems {
		sep := ","
		if i == len(ems)-1 {
			sep = ""
		}
		fmt.Fprintf(&b, "  (%s, %s)%s\n", LeanString(e.ty), lb(e.ptr), sep)
	}
	b.WriteString("]\n\n")

	var accs []execAcc
	for _, e := range ems {
		w := &execWalker{g: g, ty: e.ty, out: &accs, visited: map[string]bool{}}
		w.walkFunc(e.fd)
		if w.err != nil {
			return nil, w.err
		}
	}
	// helper entries of embedded types are recorded under the declaring type; dedupe identical rows
	seen := map[string]bool{}
	var accs2 []execAcc
	for _, a := range accs {
		k := fmt.Sprint(a)
		if seen[k] {
			continue
		}
		seen[k] = true
		accs2 = append(accs2, a)
	}
	b.WriteString("def execAcc : List ExecAcc := [\n")
	for i, a := range accs2 {
		sep := ","
		if i == len(accs2)-1 {
			sep = ""
		}
		fmt.Fprintf(&b, "  { ty := %s, fn := %s, ptr := %s, kind := %s, path := %s, sink := %s, guard := %s, isLocal := %s }%s\n",
			LeanString(a.ty), LeanString(a.fn), lb(a.ptr), LeanString(a.kind), LeanString(a.path), LeanString(a.sink), LeanString(a.guard), lb(a.local), sep)
	}
	b.WriteString("]\n\n")

	// writes to Program-only field names anywhere; writers of `names` maps
	type fw struct{ file, fn, field string }
	var pws, nws, rxs []fw
	addU := func(l *[]fw, x fw) {
		for _, y := range *l {
			if y == x {
				return
			}
		}
		*l = append(*l, x)
	}
	for _, fn := range fileNames {
		for _, d := range p.Files[fn].Decls {
			fd, ok := d.(*ast.FuncDecl)
			if !ok || fd.Body == nil {
				continue
			}
			name := fd.Name.Name
			if _, typ, _ := recvInfo(fd); typ != "" {
				name = typ + "." + name
			}
			target := func(l ast.Expr) {
				e := l
				for {
					switch x := e.(type) {
					case *ast.IndexExpr:
						e = x.X
						continue
					case *ast.SliceExpr:
						e = x.X
						continue
					case *ast.ParenExpr:
						e = x.X
						continue
					case *ast.StarExpr:
						e = x.X
						continue
					}
					break
				}
				for {
					sel, ok := e.(*ast.SelectorExpr)
					if !ok {
						return
					}
					switch sel.Sel.Name {
					case "code", "srcMap":
						addU(&pws, fw{fn, name, sel.Sel.Name})
					case "names":
						addU(&nws, fw{fn, name, "names"})
					case "cache", "regexp2Wrapper", "regexpWrapper":
						addU(&rxs, fw{fn, name, sel.Sel.Name})
					}
					// a write to x.code[i].f also writes "through" code
					e = sel.X
					for {
						switch x := e.(type) {
						case *ast.IndexExpr:
							e = x.X
							continue
						case *ast.ParenExpr:
							e = x.X
							continue
						case *ast.StarExpr:
							e = x.X
							continue
						}
						break
					}
				}
			}
			ast.Inspect(fd.Body, func(n ast.Node) bool {
				switch x := n.(type) {
				case *ast.AssignStmt:
					if x.Tok == token.DEFINE {
						return true
					}
					for _, l := range x.Lhs {
						target(l)
					}
				case *ast.IncDecStmt:
					target(x.X)
				case *ast.CallExpr:
					if id, ok := x.Fun.(*ast.Ident); ok && (id.Name == "delete" || id.Name == "clear" || id.Name == "copy") && len(x.Args) > 0 {
						target(x.Args[0])
					}
				}
				return true
			})
		}
	}
	wr := func(name string, l []fw) {
		fmt.Fprintf(&b, "def %s : List FieldWrite := [\n", name)
		for i, x := range l {
			sep := ","
			if i == len(l)-1 {
				sep = ""
			}
			fmt.Fprintf(&b, "  { file := %s, fn := %s, field := %s }%s\n", LeanString(x.file), LeanString(x.fn), LeanString(x.field), sep)
		}
		b.WriteString("]\n\n")
	}
	if len(pws) == 0 {
		return nil, fmt.Errorf("no writer of Program.code found (compiler moved?)")
	}
	wr("progFieldWrites", pws)
	wr("namesWrites", nws)
	wr("rxCacheWrites", rxs)

	// Program struct fields (so that a new field is noticed)
	pt, ok := g.types["Program"].(*ast.StructType)
	if !ok {
		return nil, fmt.Errorf("type Program is not a struct")
	}
	b.WriteString("def programFields : List (String × String) := [")
	first := true
	for _, f := range pt.Fields.List {
		for _, n := range f.Names {
			if !first {
				b.WriteString(", ")
			}
			first = false
			fmt.Fprintf(&b, "(%s, %s)", LeanString(n.Name), LeanString(g.str(f.Type)))
		}
	}
	b.WriteString("]\n\n")

	// importedString
	it, ok := g.types["importedString"].(*ast.StructType)
	if !ok {
		return nil, fmt.Errorf("type importedString is not a struct")
	}
	b.WriteString("def importedFields : List (String × String) := [")
	first = true
	for _, f := range it.Fields.List {
		for _, n := range f.Names {
			if !first {
				b.WriteString(", ")
			}
			first = false
			fmt.Fprintf(&b, "(%s, %s)", LeanString(n.Name), LeanString(g.str(f.Type)))
		}
	}
	b.WriteString("]\n\n")
	var ias []impAcc
	for _, fn := range fileNames {
		for _, d := range p.Files[fn].Decls {
			if fd, ok := d.(*ast.FuncDecl); ok {
				if err := g.impAccesses(fd, fn, &ias); err != nil {
					return nil, err
				}
			}
		}
	}
	if len(ias) < 20 {
		return nil, fmt.Errorf("only %d importedString accesses found", len(ias))
	}
	b.WriteString("def impAcc : List ImpAcc := [\n")
	for i, a := range ias {
		sep := ","
		if i == len(ias)-1 {
			sep = ""
		}
		fmt.Fprintf(&b, "  { file := %s, fn := %s, field := %s, write := %s, sync := %s, dom := %s }%s\n",
			LeanString(a.file), LeanString(a.fn), LeanString(a.field), lb(a.rw == "w"), LeanString(a.sync), LeanString(a.dom), sep)
	}
	b.WriteString("]\n\n")

	mp, err := g.memoProg()
	if err != nil {
		return nil, err
	}
	b.WriteString("def memoProg : List PInstr := [" + strings.Join(mp, ", ") + "]\n\n")

	tv, err := g.toValueObject()
	if err != nil {
		return nil, err
	}
	b.WriteString("def toValueObject : List (String × String) := [\n")
	for i, x := range tv {
		sep := ","
		if i == len(tv)-1 {
			sep = ""
		}
		fmt.Fprintf(&b, "  (%s, %s)%s\n", LeanString(x[0]), LeanString(x[1]), sep)
	}
	b.WriteString("]\n\n")

	// clone() of regexpPattern / regexp2Wrapper: which fields the copy shares with the original
	for _, ty := range []string{"regexpPattern", "regexp2Wrapper", "regexpWrapper"} {
		fd := g.methods[ty]["clone"]
		if fd == nil {
			return nil, fmt.Errorf("%s.clone not found", ty)
		}
		r, _, _ := recvInfo(fd)
		var items []string
		ast.Inspect(fd.Body, func(n ast.Node) bool {
			switch x := n.(type) {
			case *ast.KeyValueExpr:
				items = append(items, g.str(x.Key)+" := "+renameIdent(g.str(x.Value), r, "$"))
			case *ast.AssignStmt:
				if x.Tok != token.DEFINE {
					items = append(items, renameIdent(g.str(x.Lhs[0]), r, "$")+" = "+renameIdent(g.str(x.Rhs[0]), r, "$"))
				}
			case *ast.ReturnStmt:
				if len(x.Results) == 1 {
					if id, ok := x.Results[0].(*ast.Ident); ok {
						items = append(items, "return "+renameIdent(id.Name, r, "$"))
					}
				}
			}
			return true
		})
		fmt.Fprintf(&b, "def clone_%s : List String := [", ty)
		for i, it := range items {
			if i > 0 {
				b.WriteString(", ")
			}
			b.WriteString(LeanString(it))
		}
		b.WriteString("]\n\n")
	}

	// ---- names-map discipline: where `extensible` comes from, who calls the map writers, and the text of the
	// three small functions the Names model transcribes
	type pair struct{ a, b string }
	var extSites, bindCalls, symAcc []pair
	for _, fn := range fileNames {
		for _, d := range p.Files[fn].Decls {
			fd, ok := d.(*ast.FuncDecl)
			if !ok || fd.Body == nil {
				continue
			}
			name := fd.Name.Name
			if _, typ, _ := recvInfo(fd); typ != "" {
				name = typ + "." + name
			}
			ast.Inspect(fd.Body, func(n ast.Node) bool {
				switch x := n.(type) {
				case *ast.AssignStmt:
					for _, l := range x.Lhs {
						if sel, ok := l.(*ast.SelectorExpr); ok && sel.Sel.Name == "desc" {
							symAcc = append(symAcc, pair{name, "write " + g.str(l)})
						}
					}
				case *ast.CallExpr:
					if sel, ok := x.Fun.(*ast.SelectorExpr); ok {
						switch sel.Sel.Name {
						case "createBinding", "createLexBinding", "deleteBinding":
							bindCalls = append(bindCalls, pair{name, g.str(x.Fun)})
						}
					}
				case *ast.CompositeLit:
					if id, ok := x.Type.(*ast.Ident); ok && (id.Name == "enterFunc" || id.Name == "enterFunc1" || id.Name == "enterFuncBody") {
						// every construction of a function-entry instruction that carries a names map: where does `extensible` come from?
						ext, names := "<unset>", false
						for _, el := range x.Elts {
							if kv, ok := el.(*ast.KeyValueExpr); ok {
								if k, ok := kv.Key.(*ast.Ident); ok && k.Name == "extensible" {
									ext = g.str(kv.Value)
								}
								if k, ok := kv.Key.(*ast.Ident); ok && k.Name == "names" {
									names = true
								}
							}
						}
						_ = names
						extSites = append(extSites, pair{name + ":" + id.Name, ext})
					}
					if id, ok := x.Type.(*ast.Ident); ok && id.Name == "Symbol" {
						for _, el := range x.Elts {
							if kv, ok := el.(*ast.KeyValueExpr); ok {
								symAcc = append(symAcc, pair{name, "init " + g.str(kv.Key)})
							} else {
								symAcc = append(symAcc, pair{name, "init positional"})
							}
						}
					}
				}
				return true
			})
		}
	}
	wp := func(name string, l []pair) {
		fmt.Fprintf(&b, "def %s : List (String × String) := [", name)
		for i, x := range l {
			if i > 0 {
				b.WriteString(", ")
			}
			fmt.Fprintf(&b, "(%s, %s)", LeanString(x.a), LeanString(x.b))
		}
		b.WriteString("]\n\n")
	}
	if len(extSites) == 0 || len(bindCalls) == 0 {
		return nil, fmt.Errorf("no `extensible:` site / no createBinding call found")
	}
	wp("extensibleSites", extSites)
	wp("bindingCalls", bindCalls)
	wp("symbolWrites", symAcc)
	body := func(recv, fn string) ([]string, error) {
		var fd *ast.FuncDecl
		if recv == "" {
			fd = p.FuncDecl("", fn)
		} else {
			fd = g.methods[recv][fn]
		}
		if fd == nil || fd.Body == nil {
			return nil, fmt.Errorf("%s.%s not found", recv, fn)
		}
		var out []string
		for _, st := range fd.Body.List {
			out = append(out, g.str(st))
		}
		return out, nil
	}
	for _, it := range [][3]string{{"bindVars", "exec", "body_bindVars_exec"}, {"stash", "createBinding", "body_createBinding"},
		{"stash", "deleteBinding", "body_deleteBinding"}, {"stash", "isVariable", "body_isVariable"}, {"copyStash", "exec", "body_copyStash_exec"}} {
		l, err := body(it[0], it[1])
		if err != nil {
			return nil, err
		}
		fmt.Fprintf(&b, "def %s : List String := [", it[2])
		for i, x := range l {
			if i > 0 {
				b.WriteString(", ")
			}
			b.WriteString(LeanString(x))
		}
		b.WriteString("]\n\n")
	}
	// the deletable test of deleteVar.exec
	{
		fd := g.methods["deleteVar"]["exec"]
		if fd == nil {
			return nil, fmt.Errorf("deleteVar.exec not found")
		}
		var conds []string
		ast.Inspect(fd.Body, func(n ast.Node) bool {
			if is, ok := n.(*ast.IfStmt); ok {
				has := false
				ast.Inspect(is.Body, func(m ast.Node) bool {
					if c, ok := m.(*ast.CallExpr); ok {
						if sel, ok := c.Fun.(*ast.SelectorExpr); ok && sel.Sel.Name == "deleteBinding" {
							has = true
						}
					}
					return true
				})
				if has {
					conds = append(conds, g.str(is.Cond))
				}
			}
			return true
		})
		fmt.Fprintf(&b, "def deleteVarGuards : List String := [")
		for i, x := range conds {
			if i > 0 {
				b.WriteString(", ")
			}
			b.WriteString(LeanString(x))
		}
		b.WriteString("]\n\n")
	}
	// ---- the compiler's side of the names contract: every site that sets `dynamic`, the function-entry construction
	// sites with the statement that installs their names map, hasStash / isFunction
	{
		var dynSites, entrySites []pair
		isEntryLit := func(e ast.Expr) (*ast.CompositeLit, string) {
			if u, ok := e.(*ast.UnaryExpr); ok && u.Op == token.AND {
				e = u.X
			}
			if cl, ok := e.(*ast.CompositeLit); ok {
				if id, ok := cl.Type.(*ast.Ident); ok && (id.Name == "enterFunc" || id.Name == "enterFunc1" || id.Name == "enterFuncBody") {
					return cl, id.Name
				}
			}
			return nil, ""
		}
		field := func(cl *ast.CompositeLit, name string) string {
			for _, el := range cl.Elts {
				if kv, ok := el.(*ast.KeyValueExpr); ok {
					if k, ok := kv.Key.(*ast.Ident); ok && k.Name == name {
						return g.str(kv.Value)
					}
				}
			}
			return "<unset>"
		}
		for _, fn := range fileNames {
			for _, d := range p.Files[fn].Decls {
				fd, ok := d.(*ast.FuncDecl)
				if !ok || fd.Body == nil {
					continue
				}
				name := fd.Name.Name
				if _, typ, _ := recvInfo(fd); typ != "" {
					name = typ + "." + name
				}
				// statements assigning `.dynamic`: rendered with the innermost enclosing for-loop (the marking loop) if any
				var loops []*ast.ForStmt
				var visit func(n ast.Node) bool
				visit = func(n ast.Node) bool {
					switch x := n.(type) {
					case *ast.ForStmt:
						loops = append(loops, x)
						ast.Inspect(x.Body, visit)
						loops = loops[:len(loops)-1]
						return false
					case *ast.AssignStmt:
						for _, l := range x.Lhs {
							if sel, ok := l.(*ast.SelectorExpr); ok && sel.Sel.Name == "dynamic" {
								if len(loops) > 0 {
									dynSites = append(dynSites, pair{name, g.str(loops[len(loops)-1])})
								} else {
									dynSites = append(dynSites, pair{name, g.str(x)})
								}
							}
						}
					case *ast.BlockStmt:
						for i, st := range x.List {
							var rhs []ast.Expr
							switch y := st.(type) {
							case *ast.AssignStmt:
								rhs = y.Rhs
							case *ast.DeclStmt:
								if gd, ok := y.Decl.(*ast.GenDecl); ok {
									for _, sp := range gd.Specs {
										if vs, ok := sp.(*ast.ValueSpec); ok {
											rhs = append(rhs, vs.Values...)
										}
									}
								}
							}
							for _, r := range rhs {
								if cl, ty := isEntryLit(r); cl != nil {
									next := "<none>"
									if i+1 < len(x.List) {
										next = g.str(x.List[i+1])
									}
									entrySites = append(entrySites, pair{name + ":" + ty, "extensible=" + field(cl, "extensible") + "; funcType=" + field(cl, "funcType") + "; then " + next})
								}
							}
						}
					}
					return true
				}
				ast.Inspect(fd.Body, visit)
			}
		}
		if len(dynSites) == 0 || len(entrySites) == 0 {
			return nil, fmt.Errorf("no site sets scope.dynamic / no function-entry construction site found")
		}
		wp("dynamicSites", dynSites)
		wp("entrySites", entrySites)
		for _, it := range [][3]string{{"scope", "hasStash", "body_hasStash"}, {"scope", "isFunction", "body_isFunction"}, {"scope", "isDynamic", "body_isDynamic"},
			{"", "cloneTemplateValues", "body_cloneTemplateValues"}, {"", "setArrayValues", "body_setArrayValues"}} {
			l, err := body(it[0], it[1])
			if err != nil {
				return nil, err
			}
			if len(l) > 1 && it[2] == "body_hasStash" {
				l = l[:1] // only the decision that matters here: `if s.dynamic { return true }`
			}
			fmt.Fprintf(&b, "def %s : List String := [", it[2])
			for i, x := range l {
				if i > 0 {
					b.WriteString(", ")
				}
				b.WriteString(LeanString(x))
			}
			b.WriteString("]\n\n")
		}
	}

	// ---- what the callees of the escape rows do with the argument: for every `escape` row whose sink is `argN f`,
	// how the N-th parameter of f is used (read-only: ranged over / indexed / len / compared; stored; written; passed on)
	{
		var uses []pair
		seenU := map[string]bool{}
		for _, a := range accs2 {
			if a.kind != "escape" && a.kind != "escape-iface" {
				continue
			}
			var n int
			var callee string
			if _, err := fmt.Sscanf(a.sink, "arg%d %s", &n, &callee); err != nil {
				continue
			}
			key := fmt.Sprintf("%s#%d", callee, n)
			if seenU[key] {
				continue
			}
			seenU[key] = true
			fname := callee
			recvT := ""
			if i := strings.LastIndex(callee, "."); i >= 0 {
				fname = callee[i+1:]
				switch callee[:i] {
				case "vm":
					recvT = "vm"
				case "vm.r":
					recvT = "Runtime"
				case "obj.self": // objectImpl method: the base implementation
					recvT = "baseObject"
				default:
					recvT = "?"
				}
			}
			var fd *ast.FuncDecl
			if recvT == "" {
				fd = p.FuncDecl("", fname)
			} else if recvT != "?" {
				fd = g.methods[recvT][fname]
			}
			if fd == nil || fd.Body == nil {
				uses = append(uses, pair{key, "unresolved"})
				continue
			}
			// n-th parameter name
			var params []string
			for _, f := range fd.Type.Params.List {
				if len(f.Names) == 0 {
					params = append(params, "_")
				}
				for _, nm := range f.Names {
					params = append(params, nm.Name)
				}
			}
			if n >= len(params) {
				uses = append(uses, pair{key, "variadic-or-unknown"})
				continue
			}
			pn := params[n]
			kinds := map[string]bool{}
			var walkU func(n ast.Node, ctxk string)
			walkU = func(n ast.Node, ctxk string) {
				switch x := n.(type) {
				case nil:
				case *ast.Ident:
					if x.Name == pn {
						kinds[ctxk] = true
					}
				case *ast.RangeStmt:
					walkU(x.X, "read")
					walkU(x.Body, "other")
				case *ast.IndexExpr:
					walkU(x.X, "read")
					walkU(x.Index, "other")
				case *ast.SelectorExpr:
					walkU(x.X, "read")
				case *ast.BinaryExpr:
					walkU(x.X, "read")
					walkU(x.Y, "read")
				case *ast.CallExpr:
					if id, ok := x.Fun.(*ast.Ident); ok && (id.Name == "len" || id.Name == "cap") {
						for _, a := range x.Args {
							walkU(a, "read")
						}
						return
					}
					walkU(x.Fun, "other")
					for _, a := range x.Args {
						walkU(a, "passed:"+g.str(x.Fun))
					}
				case *ast.AssignStmt:
					for _, l := range x.Lhs {
						// a write THROUGH the parameter: p[i] = …, p.f = …, *p = …
						switch t := l.(type) {
						case *ast.IndexExpr:
							walkU(t.X, "written")
							walkU(t.Index, "other")
						case *ast.SelectorExpr:
							walkU(t.X, "written")
						case *ast.StarExpr:
							walkU(t.X, "written")
						default:
							walkU(l, "rebound")
						}
					}
					for i, r := range x.Rhs {
						k := "stored"
						if i < len(x.Lhs) {
							k = "stored:" + g.str(x.Lhs[i])
						}
						walkU(r, k)
					}
				case *ast.ReturnStmt:
					for _, r := range x.Results {
						walkU(r, "returned")
					}
				default:
					ast.Inspect(n, func(m ast.Node) bool {
						if m == nil || m == n {
							return true
						}
						switch m.(type) {
						case *ast.Ident, *ast.RangeStmt, *ast.IndexExpr, *ast.SelectorExpr, *ast.BinaryExpr, *ast.CallExpr, *ast.AssignStmt, *ast.ReturnStmt:
							walkU(m, "other")
							return false
						}
						return true
					})
				}
			}
			walkU(fd.Body, "other")
			var ks []string
			for k := range kinds {
				if k != "other" || len(kinds) == 1 {
					ks = append(ks, k)
				}
			}
			sort.Strings(ks)
			uses = append(uses, pair{key, strings.Join(ks, " | ")})
		}
		wp("calleeParamUse", uses)
	}

	// ---- strictness of scopes and the strict/sloppy plumbing of direct eval (Scopes.lean)
	{
		var strictSites []pair
		var evalBranch, compilePlumbing []string
		for _, fn := range fileNames {
			for _, d := range p.Files[fn].Decls {
				fd, ok := d.(*ast.FuncDecl)
				if !ok || fd.Body == nil {
					continue
				}
				name := fd.Name.Name
				if _, typ, _ := recvInfo(fd); typ != "" {
					name = typ + "." + name
				}
				var ifs []*ast.IfStmt
				var visit func(n ast.Node) bool
				visit = func(n ast.Node) bool {
					switch x := n.(type) {
					case *ast.IfStmt:
						// the branch that chooses callEvalStrict
						if strings.Contains(g.str(x.Cond), "scope.strict") && strings.Contains(g.str(x.Body), "callEvalStrict") {
							evalBranch = append(evalBranch, name+": "+g.str(x))
						}
						if name == "compiler.compile" && strings.Contains(g.str(x.Body), "bindVars{") && !strings.Contains(g.str(x.Cond), "inGlobal") {
							compilePlumbing = append(compilePlumbing, "if "+g.str(x.Cond))
						}
						ifs = append(ifs, x)
						if x.Init != nil {
							ast.Inspect(x.Init, visit)
						}
						ast.Inspect(x.Body, visit)
						ifs = ifs[:len(ifs)-1]
						if x.Else != nil {
							ast.Inspect(x.Else, visit)
						}
						return false
					case *ast.AssignStmt:
						for _, l := range x.Lhs {
							if sel, ok := l.(*ast.SelectorExpr); ok && sel.Sel.Name == "strict" && strings.HasPrefix(fn, "compiler") { // scope.strict: only the compiler has scopes
								txt := g.str(x)
								if len(ifs) > 0 && strings.Contains(g.str(ifs[len(ifs)-1].Cond), "strict") {
									txt = "if " + g.str(ifs[len(ifs)-1].Cond) + " { " + txt + " }"
								}
								strictSites = append(strictSites, pair{name, txt})
							}
						}
						if name == "compiler.compile" && len(x.Lhs) == 1 {
							if id, ok := x.Lhs[0].(*ast.Ident); ok && id.Name == "ownVarScope" {
								compilePlumbing = append(compilePlumbing, g.str(x))
							}
						}
					}
					return true
				}
				ast.Inspect(fd.Body, visit)
			}
		}
		if len(strictSites) == 0 || len(evalBranch) == 0 || len(compilePlumbing) < 2 {
			return nil, fmt.Errorf("strictness sites / eval branch / compile plumbing not found (%d, %d, %d)", len(strictSites), len(evalBranch), len(compilePlumbing))
		}
		wp("strictSites", strictSites)
		wl := func(name string, l []string) {
			fmt.Fprintf(&b, "def %s : List String := [", name)
			for i, x := range l {
				if i > 0 {
					b.WriteString(", ")
				}
				b.WriteString(LeanString(x))
			}
			b.WriteString("]\n\n")
		}
		wl("evalStrictBranch", evalBranch)
		wl("compileEvalPlumbing", compilePlumbing)
		for _, it := range [][3]string{{"compiler", "newScope", "body_newScope"}, {"callEval", "exec", "body_callEval_exec"}, {"callEvalStrict", "exec", "body_callEvalStrict_exec"},
			{"_callEvalVariadic", "exec", "body_callEvalVariadic_exec"}, {"_callEvalVariadicStrict", "exec", "body_callEvalVariadicStrict_exec"}} {
			l, err := body(it[0], it[1])
			if err != nil {
				return nil, err
			}
			wl(it[2], l)
		}
	}

	// ---- everything else that is reachable from a Program through goja's own struct types (source map items, nested
	// Programs, regexp patterns with their wrappers and match caches, private-name records, every instruction struct):
	// for each field whose NAME is declared by exactly one struct type of the package, the functions that assign it.
	{
		reach := map[string]bool{"Program": true}
		queue := []string{"Program"}
		for _, e := range ems {
			if !reach[e.ty] {
				reach[e.ty] = true
				queue = append(queue, e.ty)
			}
		}
		var namedIn func(t ast.Expr, out *[]string)
		namedIn = func(t ast.Expr, out *[]string) {
			switch x := t.(type) {
			case *ast.Ident:
				*out = append(*out, x.Name)
			case *ast.StarExpr:
				namedIn(x.X, out)
			case *ast.ArrayType:
				namedIn(x.Elt, out)
			case *ast.MapType:
				namedIn(x.Key, out)
				namedIn(x.Value, out)
			}
		}
		for len(queue) > 0 {
			tn := queue[0]
			queue = queue[1:]
			u := g.types[tn]
			for i := 0; i < 4; i++ { // type A B
				if id, ok := u.(*ast.Ident); ok {
					u = g.types[id.Name]
					if !reach[id.Name] && g.types[id.Name] != nil {
						reach[id.Name] = true
					}
				}
			}
			st, ok := u.(*ast.StructType)
			if !ok {
				continue
			}
			for _, f := range st.Fields.List {
				var ns []string
				namedIn(f.Type, &ns)
				for _, n := range ns {
					if _, isStruct := g.types[n].(*ast.StructType); isStruct && !reach[n] {
						reach[n] = true
						queue = append(queue, n)
					} else if id, ok := g.types[n].(*ast.Ident); ok && !reach[n] { // named alias of a struct
						if _, isStruct := g.types[id.Name].(*ast.StructType); isStruct {
							reach[n] = true
							queue = append(queue, n)
						}
					}
				}
			}
		}
		// field name -> declaring struct types (whole package)
		decl := map[string][]string{}
		var tnames []string
		for tn := range g.types {
			tnames = append(tnames, tn)
		}
		sort.Strings(tnames)
		for _, tn := range tnames {
			if st, ok := g.types[tn].(*ast.StructType); ok {
				for _, f := range st.Fields.List {
					for _, n := range f.Names {
						decl[n.Name] = append(decl[n.Name], tn)
					}
				}
			}
		}
		unique := map[string]string{} // field -> reachable type
		ambiguous := 0
		for f, ts := range decl {
			if len(ts) == 1 && reach[ts[0]] {
				unique[f] = ts[0]
			} else {
				for _, t := range ts {
					if reach[t] {
						ambiguous++
						break
					}
				}
			}
		}
		type rw struct{ file, fn, field string }
		var rws []rw
		seenRW := map[rw]bool{}
		for _, fn := range fileNames {
			for _, d := range p.Files[fn].Decls {
				fd, ok := d.(*ast.FuncDecl)
				if !ok || fd.Body == nil {
					continue
				}
				name := fd.Name.Name
				if _, typ, _ := recvInfo(fd); typ != "" {
					name = typ + "." + name
				}
				tgt := func(l ast.Expr) {
					e := l
					for {
						switch x := e.(type) {
						case *ast.IndexExpr:
							e = x.X
							continue
						case *ast.SliceExpr:
							e = x.X
							continue
						case *ast.ParenExpr:
							e = x.X
							continue
						case *ast.StarExpr:
							e = x.X
							continue
						}
						break
					}
					// every selector on the way down is written "through"
					for {
						sel, ok := e.(*ast.SelectorExpr)
						if !ok {
							return
						}
						if t, ok := unique[sel.Sel.Name]; ok {
							k := rw{fn, name, t + "." + sel.Sel.Name}
							if !seenRW[k] {
								seenRW[k] = true
								rws = append(rws, k)
							}
						}
						e = sel.X
						through := false
						for {
							switch x := e.(type) {
							case *ast.IndexExpr:
								e = x.X
								through = true
								continue
							case *ast.ParenExpr:
								e = x.X
								continue
							case *ast.StarExpr:
								e = x.X
								through = true
								continue
							}
							break
						}
						// the outermost selector is the field being assigned; an inner one is written "through" only if it was
						// indexed / dereferenced on the way (x.srcMap[0].pc = …  writes an element of srcMap)
						if !through {
							return
						}
					}
				}
				ast.Inspect(fd.Body, func(n ast.Node) bool {
					switch x := n.(type) {
					case *ast.AssignStmt:
						if x.Tok == token.DEFINE {
							return true
						}
						for _, l := range x.Lhs {
							tgt(l)
						}
					case *ast.IncDecStmt:
						tgt(x.X)
					case *ast.CallExpr:
						if id, ok := x.Fun.(*ast.Ident); ok && (id.Name == "delete" || id.Name == "clear" || id.Name == "copy") && len(x.Args) > 0 {
							tgt(x.Args[0])
						}
					}
					return true
				})
			}
		}
		var rts []string
		for t := range reach {
			if _, ok := g.types[t]; ok {
				rts = append(rts, t)
			}
		}
		sort.Strings(rts)
		fmt.Fprintf(&b, "def reachableTypeCount : Nat := %d\n\n", len(rts))
		fmt.Fprintf(&b, "def reachableUniqueFields : Nat := %d\n\n", len(unique))
		fmt.Fprintf(&b, "def reachableAmbiguousFields : Nat := %d\n\n", ambiguous)
		b.WriteString("def reachableFieldWrites : List FieldWrite := [\n")
		for i, x := range rws {
			sep := ","
			if i == len(rws)-1 {
				sep = ""
			}
			fmt.Fprintf(&b, "  { file := %s, fn := %s, field := %s }%s\n", LeanString(x.file), LeanString(x.fn), LeanString(x.field), sep)
		}
		b.WriteString("]\n\n")
	}

	// Symbol struct
	syt, ok := g.types["Symbol"].(*ast.StructType)
	if !ok {
		return nil, fmt.Errorf("type Symbol is not a struct")
	}
	b.WriteString("def symbolFields : List (String × String) := [")
	first = true
	for _, f := range syt.Fields.List {
		for _, n := range f.Names {
			if !first {
				b.WriteString(", ")
			}
			first = false
			fmt.Fprintf(&b, "(%s, %s)", LeanString(n.Name), LeanString(g.str(f.Type)))
		}
	}
	b.WriteString("]\n\n")

	b.WriteString("end GojaModel.C16.Generated\n")
	return map[string]string{"C16_Share.lean": b.String()}, nil
}
