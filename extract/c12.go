// C12: regenerate the DECISION STRUCTURE of number formatting that the Lean layout functions transcribe:
//
//   - ftoa/ftostr.go FToStr: the "fixed falls back to standard" guard, the switch that chooses exponential notation
//     and the minimum digit count per mode, and the conditions of the final layout (where the point / exponent go);
//   - builtin_number.go: the argument range checks of toFixed / toExponential / toPrecision / toString and the
//     (mode, precision) each front-end passes to fToStr.
//
// Only conditions, the assignments to exponentialNotation / minNDigits, fallthrough and the fToStr calls are emitted
// (normalised source text, blanks removed); buffer manipulation is deliberately not part of the tie.  A statement of
// another kind inside the layout switch is "tie not regenerable".
package main

import (
	"bytes"
	"fmt"
	"go/ast"
	"go/parser"
	"go/printer"
	"go/token"
	"path/filepath"
	"strings"
)

func init() { Register("C12", genC12) }

func c12src(fset *token.FileSet, n ast.Node) string {
	var b bytes.Buffer
	printer.Fprint(&b, fset, n)
	s := b.String()
	for _, ws := range []string{" ", "\t", "\n"} {
		s = strings.ReplaceAll(s, ws, "")
	}
	return s
}

func c12list(xs []string) string {
	q := make([]string, len(xs))
	for i, x := range xs {
		q[i] = LeanString(x)
	}
	return "[" + strings.Join(q, ", ") + "]"
}

// c12layoutStmts renders the statements of one case clause of the layout switch.
func c12layoutStmts(fset *token.FileSet, list []ast.Stmt, out *[]string) error {
	for _, s := range list {
		switch x := s.(type) {
		case *ast.IfStmt:
			if x.Init != nil {
				return fmt.Errorf("if with init in layout switch")
			}
			*out = append(*out, "if "+c12src(fset, x.Cond))
			if err := c12layoutStmts(fset, x.Body.List, out); err != nil {
				return err
			}
			if x.Else != nil {
				blk, ok := x.Else.(*ast.BlockStmt)
				if !ok {
					return fmt.Errorf("else-if in layout switch")
				}
				*out = append(*out, "else")
				if err := c12layoutStmts(fset, blk.List, out); err != nil {
					return err
				}
			}
			*out = append(*out, "end")
		case *ast.AssignStmt:
			*out = append(*out, c12src(fset, x))
		case *ast.BranchStmt:
			if x.Tok != token.FALLTHROUGH {
				return fmt.Errorf("branch statement %s in layout switch", x.Tok)
			}
			*out = append(*out, "fallthrough")
		default:
			return fmt.Errorf("statement of kind %T in layout switch", s)
		}
	}
	return nil
}

func c12conds(fset *token.FileSet, n ast.Node, out *[]string) {
	ast.Inspect(n, func(m ast.Node) bool {
		if is, ok := m.(*ast.IfStmt); ok {
			*out = append(*out, c12src(fset, is.Cond))
		}
		return true
	})
}

func genC12(p *Pkg) (map[string]string, error) {
	fset := token.NewFileSet()
	f, err := parser.ParseFile(fset, filepath.Join(p.Dir, "ftoa", "ftostr.go"), nil, 0)
	if err != nil {
		return nil, err
	}
	var fn *ast.FuncDecl
	for _, d := range f.Decls {
		if fd, ok := d.(*ast.FuncDecl); ok && fd.Name.Name == "FToStr" && fd.Recv == nil {
			fn = fd
		}
	}
	if fn == nil {
		return nil, fmt.Errorf("ftoa.FToStr not found")
	}
	// (a) the guard that sends large numbers from ModeFixed to ModeStandard; (b) the layout switch; (c) tail conditions
	var fixedGuard []string
	var layout *ast.SwitchStmt
	layoutIdx := -1
	for i, s := range fn.Body.List {
		switch x := s.(type) {
		case *ast.IfStmt:
			c := c12src(fset, x.Cond)
			if strings.Contains(c, "ModeFixed") && layout == nil {
				fixedGuard = append(fixedGuard, c)
				for _, b := range x.Body.List {
					fixedGuard = append(fixedGuard, c12src(fset, b))
				}
			}
		case *ast.SwitchStmt:
			if id, ok := x.Tag.(*ast.Ident); ok && id.Name == "mode" {
				layout = x
				layoutIdx = i
			}
		}
	}
	if len(fixedGuard) != 2 {
		return nil, fmt.Errorf("ModeFixed guard not found in the expected shape (%v)", fixedGuard)
	}
	if layout == nil {
		return nil, fmt.Errorf("layout switch on mode not found")
	}
	var cases []string
	for _, cc := range layout.Body.List {
		cl := cc.(*ast.CaseClause)
		var names []string
		for _, e := range cl.List {
			names = append(names, c12src(fset, e))
		}
		var body []string
		if err := c12layoutStmts(fset, cl.Body, &body); err != nil {
			return nil, err
		}
		cases = append(cases, "("+LeanString(strings.Join(names, ","))+", "+c12list(body)+")")
	}
	var tail []string
	for _, s := range fn.Body.List[layoutIdx+1:] {
		c12conds(fset, s, &tail)
	}
	// front-ends
	var methods []string
	for _, m := range []string{"numberproto_toString", "numberproto_toFixed", "numberproto_toExponential", "numberproto_toPrecision"} {
		fd := p.FuncDecl("Runtime", m)
		if fd == nil {
			return nil, fmt.Errorf("method %s not found", m)
		}
		var conds, calls []string
		ast.Inspect(fd.Body, func(n ast.Node) bool {
			switch x := n.(type) {
			case *ast.IfStmt:
				c := c12src(p.Fset, x.Cond)
				if strings.Contains(c, "prec<") || strings.Contains(c, "prec>") || strings.Contains(c, "radix<") ||
					strings.Contains(c, "radix>") || strings.Contains(c, "radix==") {
					conds = append(conds, c)
				}
			case *ast.CallExpr:
				c := c12src(p.Fset, x)
				if strings.HasPrefix(c, "fToStr(") || strings.HasPrefix(c, "ftoa.FToBaseStr(") {
					calls = append(calls, c)
				}
			}
			return true
		})
		methods = append(methods, "("+LeanString(strings.TrimPrefix(m, "numberproto_"))+", "+c12list(conds)+", "+c12list(calls)+")")
	}
	// FToBaseStr (toString(radix)): every condition in source order, the statements that compute s2 / mlo / mhi, and
	// the constants they use — the skeleton that lean/GojaModel/C12/Radix.lean transcribes.
	fb, err := parser.ParseFile(fset, filepath.Join(p.Dir, "ftoa", "ftobasestr.go"), nil, 0)
	if err != nil {
		return nil, err
	}
	var fbs *ast.FuncDecl
	for _, d := range fb.Decls {
		if fd, ok := d.(*ast.FuncDecl); ok && fd.Name.Name == "FToBaseStr" && fd.Recv == nil {
			fbs = fd
		}
	}
	if fbs == nil {
		return nil, fmt.Errorf("ftoa.FToBaseStr not found")
	}
	var radixConds, radixInit []string
	c12conds(fset, fbs.Body, &radixConds)
	ast.Inspect(fbs.Body, func(n ast.Node) bool {
		if as, ok := n.(*ast.AssignStmt); ok && len(as.Lhs) == 1 {
			if id, ok := as.Lhs[0].(*ast.Ident); ok && (id.Name == "s2" || id.Name == "mlo" || id.Name == "mhi") {
				radixInit = append(radixInit, c12src(fset, as))
			}
		}
		return true
	})
	fc, err := parser.ParseFile(fset, filepath.Join(p.Dir, "ftoa", "common.go"), nil, 0)
	if err != nil {
		return nil, err
	}
	var radixConsts []string
	for _, d := range fc.Decls {
		gd, ok := d.(*ast.GenDecl)
		if !ok || gd.Tok != token.CONST {
			continue
		}
		for _, sp := range gd.Specs {
			vs := sp.(*ast.ValueSpec)
			for i, nm := range vs.Names {
				if (nm.Name == "bias" || nm.Name == "p" || nm.Name == "log2P") && i < len(vs.Values) {
					radixConsts = append(radixConsts, nm.Name+"="+c12src(fset, vs.Values[i]))
				}
			}
		}
	}
	if len(radixConsts) != 3 {
		return nil, fmt.Errorf("constants bias, p, log2P not found (%v)", radixConsts)
	}

	var b strings.Builder
	b.WriteString("-- GENERATED by extract/c12.go from ftoa/ftostr.go, ftoa/ftobasestr.go, ftoa/common.go and builtin_number.go — do not edit.\n")
	b.WriteString("namespace GojaModel.Generated.C12\n\n")
	b.WriteString("/-- FToStr: ModeFixed falls back to ModeStandard for large magnitudes (condition, action). -/\n")
	b.WriteString("def fixedGuard : List String := " + c12list(fixedGuard) + "\n\n")
	b.WriteString("/-- FToStr: per mode, when exponential notation is used and the minimum digit count. -/\n")
	b.WriteString("def layoutSwitch : List (String × List String) :=\n  [" + strings.Join(cases, ",\n   ") + "]\n\n")
	b.WriteString("/-- FToStr: conditions of the final layout, in source order. -/\n")
	b.WriteString("def tailConds : List String := " + c12list(tail) + "\n\n")
	b.WriteString("/-- builtin_number.go: (method, argument range checks, conversions called). -/\n")
	b.WriteString("def frontEnds : List (String × List String × List String) :=\n  [" + strings.Join(methods, ",\n   ") + "]\n\n")
	b.WriteString("/-- FToBaseStr: every condition, in source order. -/\n")
	b.WriteString("def radixConds : List String :=\n  " + c12list(radixConds) + "\n\n")
	b.WriteString("/-- FToBaseStr: the statements that set s2, mlo, mhi, in source order. -/\n")
	b.WriteString("def radixInit : List String :=\n  " + c12list(radixInit) + "\n\n")
	b.WriteString("/-- ftoa/common.go constants used there. -/\n")
	b.WriteString("def radixConsts : List String := " + c12list(radixConsts) + "\n\n")
	b.WriteString("end GojaModel.Generated.C12\n")
	return map[string]string{"C12_Layout.lean": b.String()}, nil
}
