// C20: regenerate the flag loop of compileRegexp (builtin_regexp.go) as a Lean decision function.
//
// Understood shape (anything else is "tie not regenerable"):
//
//	var global, ignoreCase, multiline, dotAll, sticky, unicode bool      (any order, all six)
//	if flags != "" {
//	    invalidFlags := func() { err = ... }
//	    for _, chr := range flags { switch chr { case '<c>': <stmts> ... default: <stmts> } }
//	}
//	stmt ::= invalidFlags() | return | <flag> = true | <flag> = false | if <flag> { stmts } | if !<flag> { stmts }
//
// Semantics emitted: a state transformer FlagSt → Char → Option FlagSt; `invalidFlags()` sets err,
// `return` aborts the constructor (none) and must come with the error set on that path.
package main

import (
	"fmt"
	"go/ast"
	"go/printer"
	"go/token"
	"strings"
)

func init() { Register("C20", genC20Flags) }

var c20FlagVars = map[string]bool{"global": true, "ignoreCase": true, "multiline": true, "dotAll": true, "sticky": true, "unicode": true}

type c20Tr struct{ errs []string }

func (t *c20Tr) fail(format string, a ...interface{}) string {
	t.errs = append(t.errs, fmt.Sprintf(format, a...))
	return "none"
}

// stmts translates a statement list executed in state `st` (a Lean term) whose error flag is statically known
// to be `errSet` or unknown (-1 unknown, 0 clear, 1 set).
func (t *c20Tr) stmts(list []ast.Stmt, st string, errSet int, indent string) string {
	if len(list) == 0 {
		return "some " + st
	}
	s := list[0]
	rest := list[1:]
	switch x := s.(type) {
	case *ast.ExprStmt:
		if call, ok := x.X.(*ast.CallExpr); ok {
			if id, ok := call.Fun.(*ast.Ident); ok && id.Name == "invalidFlags" && len(call.Args) == 0 {
				return t.stmts(rest, "{ "+st+" with err := true }", 1, indent)
			}
		}
		return t.fail("unsupported expression statement")
	case *ast.ReturnStmt:
		if len(x.Results) != 0 {
			return t.fail("return with results")
		}
		if errSet != 1 {
			return t.fail("return on a path where invalidFlags() was not called")
		}
		return "none"
	case *ast.AssignStmt:
		if len(x.Lhs) == 1 && len(x.Rhs) == 1 && x.Tok == token.ASSIGN {
			l, ok1 := x.Lhs[0].(*ast.Ident)
			r, ok2 := x.Rhs[0].(*ast.Ident)
			if ok1 && ok2 && c20FlagVars[l.Name] && (r.Name == "true" || r.Name == "false") {
				return t.stmts(rest, "{ "+st+" with "+l.Name+" := "+r.Name+" }", errSet, indent)
			}
		}
		return t.fail("unsupported assignment")
	case *ast.IfStmt:
		if x.Init != nil || x.Else != nil {
			return t.fail("if with init/else")
		}
		cond := ""
		switch c := x.Cond.(type) {
		case *ast.Ident:
			if c20FlagVars[c.Name] {
				cond = st + "." + c.Name
			}
		case *ast.UnaryExpr:
			if id, ok := c.X.(*ast.Ident); ok && c.Op == token.NOT && c20FlagVars[id.Name] {
				cond = "!" + st + "." + id.Name
			}
		}
		if cond == "" {
			return t.fail("unsupported if condition")
		}
		thenList := append(append([]ast.Stmt{}, x.Body.List...), rest...)
		return "(if " + cond + " then " + t.stmts(thenList, st, errSet, indent) + " else " + t.stmts(rest, st, errSet, indent) + ")"
	}
	return t.fail("unsupported statement %T", s)
}

func genC20Flags(p *Pkg) (map[string]string, error) {
	fd := p.FuncDecl("", "compileRegexp")
	if fd == nil {
		return nil, fmt.Errorf("compileRegexp not found")
	}
	// the six flag variables must be declared as bool in the function
	declared := map[string]bool{}
	var loop *ast.RangeStmt
	for _, s := range fd.Body.List {
		switch x := s.(type) {
		case *ast.DeclStmt:
			if gd, ok := x.Decl.(*ast.GenDecl); ok && gd.Tok == token.VAR {
				for _, sp := range gd.Specs {
					vs := sp.(*ast.ValueSpec)
					if id, ok := vs.Type.(*ast.Ident); ok && id.Name == "bool" && len(vs.Values) == 0 {
						for _, n := range vs.Names {
							declared[n.Name] = true
						}
					}
				}
			}
		case *ast.IfStmt:
			if loop != nil {
				continue
			}
			be, ok := x.Cond.(*ast.BinaryExpr)
			if !ok || be.Op != token.NEQ {
				continue
			}
			if id, ok := be.X.(*ast.Ident); !ok || id.Name != "flags" {
				continue
			}
			if bl, ok := be.Y.(*ast.BasicLit); !ok || bl.Value != `""` {
				continue
			}
			for _, inner := range x.Body.List {
				switch y := inner.(type) {
				case *ast.AssignStmt:
					// invalidFlags := func() { err = ... }
					ok := false
					if len(y.Lhs) == 1 && len(y.Rhs) == 1 {
						if id, isId := y.Lhs[0].(*ast.Ident); isId && id.Name == "invalidFlags" {
							if fl, isFn := y.Rhs[0].(*ast.FuncLit); isFn && len(fl.Body.List) == 1 {
								if as, isAs := fl.Body.List[0].(*ast.AssignStmt); isAs && len(as.Lhs) == 1 {
									if e, isE := as.Lhs[0].(*ast.Ident); isE && e.Name == "err" && as.Tok == token.ASSIGN {
										ok = true
									}
								}
							}
						}
					}
					if !ok {
						return nil, fmt.Errorf("unexpected statement before the flag loop")
					}
				case *ast.RangeStmt:
					loop = y
				default:
					return nil, fmt.Errorf("unexpected statement %T inside `if flags != \"\"`", inner)
				}
			}
		}
	}
	for v := range c20FlagVars {
		if !declared[v] {
			return nil, fmt.Errorf("flag variable %s not declared as bool", v)
		}
	}
	if loop == nil {
		return nil, fmt.Errorf("flag loop not found")
	}
	if id, ok := loop.X.(*ast.Ident); !ok || id.Name != "flags" {
		return nil, fmt.Errorf("loop does not range over flags")
	}
	chr, ok := loop.Value.(*ast.Ident)
	if !ok || len(loop.Body.List) != 1 {
		return nil, fmt.Errorf("loop body is not a single switch")
	}
	sw, ok := loop.Body.List[0].(*ast.SwitchStmt)
	if !ok || sw.Init != nil {
		return nil, fmt.Errorf("loop body is not a switch")
	}
	if tag, ok := sw.Tag.(*ast.Ident); !ok || tag.Name != chr.Name {
		return nil, fmt.Errorf("switch tag is not the loop variable")
	}
	tr := &c20Tr{}
	var b strings.Builder
	b.WriteString("-- GENERATED by extract/c20.go from builtin_regexp.go compileRegexp (flag loop). Do not edit.\n")
	b.WriteString("import GojaModel.C20.Model\nnamespace GojaModel.Generated.C20\nopen GojaModel.C20\n\n")
	b.WriteString("def flagStep (st : FlagSt) (chr : Char) : Option FlagSt :=\n")
	def := ""
	seen := map[string]bool{}
	var cases []string
	for _, cc := range sw.Body.List {
		clause := cc.(*ast.CaseClause)
		if clause.List == nil {
			def = tr.stmts(clause.Body, "st", 0, "    ")
			continue
		}
		if len(clause.List) != 1 {
			return nil, fmt.Errorf("case with several values")
		}
		bl, ok := clause.List[0].(*ast.BasicLit)
		if !ok || bl.Kind != token.CHAR || len(bl.Value) != 3 {
			return nil, fmt.Errorf("case value is not a plain char literal")
		}
		if seen[bl.Value] {
			return nil, fmt.Errorf("duplicate case %s", bl.Value)
		}
		seen[bl.Value] = true
		cases = append(cases, fmt.Sprintf("  if chr = %s then\n    %s\n  else ", bl.Value, tr.stmts(clause.Body, "st", 0, "    ")))
	}
	if def == "" {
		return nil, fmt.Errorf("switch has no default clause")
	}
	for i, c := range cases {
		if i > 0 {
			c = strings.TrimPrefix(c, "  ")
		}
		b.WriteString(c)
	}
	b.WriteString(def + "\n\n")
	if len(tr.errs) > 0 {
		return nil, fmt.Errorf("flag loop outside the translatable subset: %s", strings.Join(tr.errs, "; "))
	}
	fmt.Fprintf(&b, "def caseCount : Nat := %d\n\nend GojaModel.Generated.C20\n", len(cases))
	return map[string]string{"C20_Flags.lean": b.String()}, nil
}

// ---------------------------------------------------------------------------------------------------
// Routing of regexpPattern.findSubmatchIndex / findAllSubmatchIndex (regexp.go): which engine / wrapper is
// called under which conditions.  Emitted as a decision tree over a fixed vocabulary of conditions and
// calls (exact source text); anything outside the vocabulary becomes `.other "…"` / `.bad "…"`, which the
// Tie theorems reject.  Statement forms understood: `if c { … }` without else/init, `return e`,
// `x, y := call` (binding), expression statements and range/for loops (post-processing, skipped).

func init() { Register("C20", genC20Routing) }

var c20Conds = map[string]string{
	"p.regexpWrapper == nil": ".noLinear", "start == 0": ".startZero", "start != 0": ".startNonZero", "u == nil": ".asciiSubject",
	"limit == 1": ".limitOne", "p.unicode": ".unicodeFlag", "pm != nil": ".pmOk", "result.indexes == nil": ".noMatch",
}

var c20Calls = map[string]string{
	"p.regexp2Wrapper.findAllSubmatchIndex(s, start, limit, sticky, p.unicode)":     ".r2All",
	"p.regexpWrapper.findAllSubmatchIndex(string(a), limit, sticky)":                ".goAllAscii",
	"[]regexpResult{p.regexpWrapper.findSubmatchIndexUnicode(u, p.unicode)}":        ".linearSingle",
	"p.regexpWrapper.findAllSubmatchIndex(str, limit, sticky)":                      ".goAllUtf8",
	"p.regexp2Wrapper.findSubmatchIndex(s, start, p.unicode, p.global || p.sticky)": ".r2Find",
	"p.regexpWrapper.findSubmatchIndex(s, p.unicode)":                               ".linearFind",
	"nil": ".nilResult",
}

func c20Text(p *Pkg, n ast.Node) string {
	var b strings.Builder
	if err := printer.Fprint(&b, p.Fset, n); err != nil {
		return "?"
	}
	return strings.Join(strings.Fields(b.String()), " ")
}

func c20Subst(p *Pkg, e ast.Expr, env map[string]string) string {
	switch x := e.(type) {
	case *ast.Ident:
		if t, ok := env[x.Name]; ok {
			return t
		}
	case *ast.CompositeLit:
		parts := []string{}
		for _, el := range x.Elts {
			parts = append(parts, c20Subst(p, el, env))
		}
		return c20Text(p, x.Type) + "{" + strings.Join(parts, ", ") + "}"
	}
	return c20Text(p, e)
}

func c20Tree(p *Pkg, list []ast.Stmt, env map[string]string) string {
	for i, s := range list {
		switch x := s.(type) {
		case *ast.AssignStmt:
			if x.Tok == token.DEFINE && len(x.Rhs) == 1 {
				t := c20Text(p, x.Rhs[0])
				env2 := map[string]string{}
				for k, v := range env {
					env2[k] = v
				}
				for _, l := range x.Lhs {
					if id, ok := l.(*ast.Ident); ok {
						env2[id.Name] = t
					}
				}
				env = env2
				continue
			}
			continue // plain assignments inside post-processing
		case *ast.ExprStmt, *ast.RangeStmt, *ast.ForStmt:
			continue
		case *ast.IfStmt:
			if x.Init != nil || x.Else != nil {
				return fmt.Sprintf("(.bad %s)", LeanString("if with init/else: "+c20Text(p, x.Cond)))
			}
			c, ok := c20Conds[c20Text(p, x.Cond)]
			if !ok {
				return fmt.Sprintf("(.bad %s)", LeanString("condition: "+c20Text(p, x.Cond)))
			}
			rest := list[i+1:]
			thenList := append(append([]ast.Stmt{}, x.Body.List...), rest...)
			return fmt.Sprintf("(.ite %s %s %s)", c, c20Tree(p, thenList, env), c20Tree(p, rest, env))
		case *ast.ReturnStmt:
			if len(x.Results) != 1 {
				return "(.bad \"return arity\")"
			}
			t := c20Subst(p, x.Results[0], env)
			if c, ok := c20Calls[t]; ok {
				return "(.ret " + c + ")"
			}
			return fmt.Sprintf("(.ret (.other %s))", LeanString(t))
		default:
			return fmt.Sprintf("(.bad %s)", LeanString(fmt.Sprintf("statement %T", s)))
		}
	}
	return "(.bad \"falls off the end\")"
}

func genC20Routing(p *Pkg) (map[string]string, error) {
	var b strings.Builder
	b.WriteString("-- GENERATED by extract/c20.go from regexp.go (findSubmatchIndex / findAllSubmatchIndex routing). Do not edit.\n")
	b.WriteString("import GojaModel.C20.Model\nnamespace GojaModel.Generated.C20\nopen GojaModel.C20\n\n")
	for _, fn := range []struct{ name, lean string }{{"findSubmatchIndex", "findTree"}, {"findAllSubmatchIndex", "findAllTree"}} {
		fd := p.FuncDecl("regexpPattern", fn.name)
		if fd == nil {
			return nil, fmt.Errorf("regexpPattern.%s not found", fn.name)
		}
		fmt.Fprintf(&b, "def %s : RNode :=\n  %s\n\n", fn.lean, c20Tree(p, fd.Body.List, map[string]string{}))
	}
	b.WriteString("end GojaModel.Generated.C20\n")
	return map[string]string{"C20_Routing.lean": b.String()}, nil
}

// ---------------------------------------------------------------------------------------------------
// Guards of the lastIndex protocol and of the fast-path selection: the exact condition expressions that
// the Lean model transcribes (Model.lean getLastIndex / execRegexp / fastGlobalMatches / fastSplit …).
// Emitted as (label, source text) pairs; Tie.tie_guards compares them with the expressions the model was
// written from.  Only decision expressions are pinned, not statement bodies.

func init() { Register("C20", genC20Guards) }

// c20FindIf returns the n-th (0-based) if-statement of the function body in source order (nested included).
func c20Ifs(fd *ast.FuncDecl) []*ast.IfStmt {
	var out []*ast.IfStmt
	ast.Inspect(fd.Body, func(n ast.Node) bool {
		if x, ok := n.(*ast.IfStmt); ok {
			out = append(out, x)
		}
		return true
	})
	return out
}

func genC20Guards(p *Pkg) (map[string]string, error) {
	type pair struct{ label, text string }
	var out []pair
	add := func(label, text string) { out = append(out, pair{label, text}) }
	need := func(recv, name string) (*ast.FuncDecl, error) {
		fd := p.FuncDecl(recv, name)
		if fd == nil {
			return nil, fmt.Errorf("%s.%s not found", recv, name)
		}
		return fd, nil
	}
	// getLastIndex: the condition under which lastIndex is ignored
	fd, err := need("regexpObject", "getLastIndex")
	if err != nil {
		return nil, err
	}
	ifs := c20Ifs(fd)
	if len(ifs) != 1 {
		return nil, fmt.Errorf("getLastIndex: expected one if, found %d", len(ifs))
	}
	add("getLastIndex.zero", c20Text(p, ifs[0].Cond))
	// execRegexp
	fd, err = need("regexpObject", "execRegexp")
	if err != nil {
		return nil, err
	}
	ifs = c20Ifs(fd)
	if len(ifs) != 3 {
		return nil, fmt.Errorf("execRegexp: expected three ifs, found %d", len(ifs))
	}
	add("execRegexp.range", c20Text(p, ifs[0].Cond))
	add("execRegexp.writeBack", c20Text(p, ifs[1].Cond))
	add("execRegexp.ifMatch", c20Text(p, ifs[2].Cond))
	if len(ifs[2].Body.List) == 1 {
		add("execRegexp.newLastIndex", c20Text(p, ifs[2].Body.List[0]))
	}
	for _, s := range fd.Body.List {
		if as, ok := s.(*ast.AssignStmt); ok && len(as.Lhs) == 1 {
			if id, ok := as.Lhs[0].(*ast.Ident); ok && id.Name == "match" {
				add("execRegexp.match", c20Text(p, as.Rhs[0]))
			}
		}
	}
	// fast-path selection
	for _, fn := range []struct{ name, label string }{{"regexpproto_stdMatcher", "stdMatcher"}, {"regexpproto_stdReplacer", "stdReplacer"}, {"regexpproto_stdSearch", "stdSearch"}} {
		fd, err = need("Runtime", fn.name)
		if err != nil {
			return nil, err
		}
		ifs = c20Ifs(fd)
		if len(ifs) == 0 {
			return nil, fmt.Errorf("%s: no if", fn.name)
		}
		add(fn.label+".generic", c20Text(p, ifs[0].Cond))
	}
	// stdSearch: lastIndex is restored before the no-match return
	fd, _ = need("Runtime", "regexpproto_stdSearch")
	restore, ret := -1, -1
	for i, s := range fd.Body.List {
		t := c20Text(p, s)
		if strings.HasPrefix(t, `rx.setOwnStr("lastIndex", previousLastIndex`) {
			restore = i
		}
		if x, ok := s.(*ast.IfStmt); ok && c20Text(p, x.Cond) == "!match" && ret < 0 {
			ret = i
		}
	}
	add("stdSearch.restoreBeforeNoMatchReturn", fmt.Sprint(restore >= 0 && ret >= 0 && restore < ret))
	// stdSplitter: which empty matches do not split
	fd, err = need("Runtime", "regexpproto_stdSplitter")
	if err != nil {
		return nil, err
	}
	for _, x := range c20Ifs(fd) {
		if c20Text(p, x.Cond) == "result.indexes[0] == result.indexes[1]" && len(x.Body.List) == 1 {
			if inner, ok := x.Body.List[0].(*ast.IfStmt); ok {
				add("stdSplitter.skipEmpty", c20Text(p, inner.Cond))
			}
		}
	}
	var b strings.Builder
	b.WriteString("-- GENERATED by extract/c20.go from regexp.go / builtin_regexp.go (guards of the lastIndex protocol and fast-path selection). Do not edit.\n")
	b.WriteString("namespace GojaModel.Generated.C20\n\ndef guards : List (String × String) := [\n")
	for i, pr := range out {
		sep := ","
		if i == len(out)-1 {
			sep = ""
		}
		fmt.Fprintf(&b, "  (%s, %s)%s\n", LeanString(pr.label), LeanString(pr.text), sep)
	}
	b.WriteString("]\n\nend GojaModel.Generated.C20\n")
	return map[string]string{"C20_Guards.lean": b.String()}, nil
}
