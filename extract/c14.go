package main

// C14: regenerate the panic-payload classifier tables and the decision skeletons of the boundary functions:
//
//   efvCases       the type switch of vm.exceptionFromValue: per case (in order) the case types and the
//                  normalised statements of its body; plus the trailing "capture a stack if ex.stack == nil"
//   asUncCases     the type switch of asUncatchableException
//   skel_*         for isUncatchableException, handleThrow, vm.try, runTryInner, runWrapped, RunProgram (deferred
//                  func), wrapReflectFunc (error branch), wrapJSFunc (err != nil branch), NewGoError,
//                  Exception.Unwrap, _throw.exec, __call/_call, ForOf, iteratorRecord.step, the promise reaction
//                  job: the ordered list of decision-relevant nodes (if / for / switch-case headers, panic(...),
//                  return ..., assignments to ex / err / ex.stack / results[...] / tf.exception / handlerResult)
//   recoverSites   every function of the package that calls recover(), with the skeleton of the recovering func
//
// Output is Lean DATA only (lists of strings).  GojaModel/C14/Tie.lean proves (by decide) that the data equals
// the expectations the model was transcribed from and that the classifier tables agree with the model's
// exceptionFromValue / asUncatchableException on one representative per dynamic type.

import (
	"bytes"
	"fmt"
	"go/ast"
	"go/printer"
	"sort"
	"strings"
)

func init() { Register("C14", genC14) }

func c14text(p *Pkg, n ast.Node) string {
	var b bytes.Buffer
	printer.Fprint(&b, p.Fset, n)
	return strings.Join(strings.Fields(b.String()), " ")
}

// decision-relevant assignment targets
var c14lhs = map[string]bool{"s": true, "ex": true, "err": true, "ex.stack": true, "tf.exception": true, "handlerResult": true,
	"e1": true, "ret": true, "results[numOut-1]": true, "e": true, "vm.pc": true, "tf.catchPos": true, "tf.finallyPos": true}

type c14skel struct {
	p   *Pkg
	out []string
}

func (s *c14skel) add(depth int, format string, a ...interface{}) {
	s.out = append(s.out, strings.Repeat(".", depth)+fmt.Sprintf(format, a...))
}

func (s *c14skel) stmts(list []ast.Stmt, d int) {
	for _, st := range list {
		s.stmt(st, d)
	}
}

func (s *c14skel) exprFuncLits(e ast.Node, d int) {
	// descend into function literals that appear inside expressions (deferred funcs, callbacks)
	ast.Inspect(e, func(n ast.Node) bool {
		if fl, ok := n.(*ast.FuncLit); ok {
			s.add(d, "func{")
			s.stmts(fl.Body.List, d+1)
			s.add(d, "}")
			return false
		}
		return true
	})
}

func (s *c14skel) stmt(st ast.Stmt, d int) {
	p := s.p
	switch x := st.(type) {
	case *ast.IfStmt:
		hdr := ""
		if x.Init != nil {
			hdr = c14text(p, x.Init) + "; "
		}
		s.add(d, "if %s%s", hdr, c14text(p, x.Cond))
		s.stmts(x.Body.List, d+1)
		if x.Else != nil {
			s.add(d, "else")
			switch e := x.Else.(type) {
			case *ast.BlockStmt:
				s.stmts(e.List, d+1)
			default:
				s.stmt(e, d+1)
			}
		}
	case *ast.ForStmt:
		init, cond, post := "", "", ""
		if x.Init != nil {
			init = c14text(p, x.Init)
		}
		if x.Cond != nil {
			cond = c14text(p, x.Cond)
		}
		if x.Post != nil {
			post = c14text(p, x.Post)
		}
		s.add(d, "for %s; %s; %s", init, cond, post)
		s.stmts(x.Body.List, d+1)
	case *ast.RangeStmt:
		s.add(d, "range %s", c14text(p, x.X))
		s.stmts(x.Body.List, d+1)
	case *ast.TypeSwitchStmt:
		s.add(d, "typeswitch %s", c14text(p, x.Assign))
		for _, c := range x.Body.List {
			cc := c.(*ast.CaseClause)
			if cc.List == nil {
				s.add(d, "default")
			} else {
				var ts []string
				for _, t := range cc.List {
					ts = append(ts, c14text(p, t))
				}
				s.add(d, "case %s", strings.Join(ts, ", "))
			}
			s.stmts(cc.Body, d+1)
		}
	case *ast.SwitchStmt:
		tag := ""
		if x.Tag != nil {
			tag = c14text(p, x.Tag)
		}
		s.add(d, "switch %s", tag)
		for _, c := range x.Body.List {
			cc := c.(*ast.CaseClause)
			if cc.List == nil {
				s.add(d, "default")
			} else {
				var ts []string
				for _, t := range cc.List {
					ts = append(ts, c14text(p, t))
				}
				s.add(d, "case %s", strings.Join(ts, ", "))
			}
			s.stmts(cc.Body, d+1)
		}
	case *ast.BlockStmt:
		s.stmts(x.List, d)
	case *ast.ReturnStmt:
		hasLit := false
		ast.Inspect(x, func(n ast.Node) bool {
			if _, ok := n.(*ast.FuncLit); ok {
				hasLit = true
			}
			return true
		})
		if hasLit {
			s.add(d, "return func")
			s.exprFuncLits(x, d+1)
		} else {
			s.add(d, "%s", c14text(p, x))
		}
	case *ast.BranchStmt:
		s.add(d, "%s", c14text(p, x))
	case *ast.DeferStmt:
		s.add(d, "defer %s", c14text(p, x.Call.Fun)[:min(len(c14text(p, x.Call.Fun)), 24)])
		s.exprFuncLits(x.Call, d+1)
	case *ast.ExprStmt:
		if call, ok := x.X.(*ast.CallExpr); ok {
			if id, ok := call.Fun.(*ast.Ident); ok && id.Name == "panic" {
				s.add(d, "%s", c14text(p, x))
				return
			}
			if t := c14text(p, x); strings.HasPrefix(t, "e.Set(") || strings.HasPrefix(t, "iter.returnIter(") ||
				strings.Contains(t, "e.val.String()") || strings.Contains(t, "valueString()") || strings.Contains(t, "promiseCap.re") || strings.Contains(t, "capability.re") || strings.Contains(t, "nextThrow(") || strings.Contains(t, "leaveAbrupt()") {
				s.add(d, "%s", t)
				return
			}
		}
		s.exprFuncLits(x, d)
	case *ast.AssignStmt:
		keep := false
		for _, l := range x.Lhs {
			if c14lhs[c14text(p, l)] {
				keep = true
			}
		}
		hasLit := false
		ast.Inspect(x, func(n ast.Node) bool {
			if _, ok := n.(*ast.FuncLit); ok {
				hasLit = true
			}
			return true
		})
		if hasLit {
			var ls []string
			for _, l := range x.Lhs {
				ls = append(ls, c14text(p, l))
			}
			callee := ""
			if len(x.Rhs) == 1 {
				if call, ok := x.Rhs[0].(*ast.CallExpr); ok {
					callee = c14text(p, call.Fun)
				}
			}
			s.add(d, "%s %s %s(func)", strings.Join(ls, ", "), x.Tok, callee)
			s.exprFuncLits(x, d+1)
		} else if keep || strings.Contains(c14text(p, x), "restoreStacks(") || strings.Contains(c14text(p, x), "returnIter") {
			s.add(d, "%s", c14text(p, x))
		}
	}
}

func c14skeleton(p *Pkg, body []ast.Stmt) []string {
	s := &c14skel{p: p}
	s.stmts(body, 0)
	return s.out
}

// Statements that belong to other properties' mechanisms (state clean-up of C03, call-stack bookkeeping, message
// texts) are not transcribed by the C14 model and are therefore not pinned: a skeleton line containing one of these
// substrings is dropped.  What stays is the decision structure the model mirrors: classification, recover /
// re-panic, try-frame handling, iterator closing, error wrapping / unwrapping.
var c14drop = []string{
	"leaveAbrupt", "callStack) == 0", "cannot be converted to a string",
	"vm.prg, vm.newTarget", "tf.callStackLen) < len(vm.callStack)",
	"if recursive", "if pushed", "vm.pc = 0", "vm.pc = -2", "if needPop", "if vm.prg != nil",
	"tracker", "range tail", "int(iterLen) < len(vm.iterStack)", "int(refLen) < len(vm.refStack)",
}

func c14leanList(name string, xs []string) string {
	kept := xs[:0:0]
	for _, x := range xs {
		drop := false
		for _, d := range c14drop {
			if strings.Contains(x, d) {
				drop = true
			}
		}
		if !drop {
			kept = append(kept, x)
		}
	}
	xs = kept
	var b strings.Builder
	fmt.Fprintf(&b, "def %s : List String := [", name)
	for i, x := range xs {
		if i > 0 {
			b.WriteString(",")
		}
		b.WriteString("\n  " + LeanString(x))
	}
	b.WriteString("]\n\n")
	return b.String()
}

// find the first statement satisfying pred, searching nested blocks and function literals
func c14find(n ast.Node, pred func(ast.Node) bool) ast.Node {
	var found ast.Node
	ast.Inspect(n, func(x ast.Node) bool {
		if found != nil {
			return false
		}
		if x != nil && pred(x) {
			found = x
			return false
		}
		return true
	})
	return found
}

func genC14(p *Pkg) (map[string]string, error) {
	var b strings.Builder
	b.WriteString("-- GENERATED by extract/c14.go from /repo — do not edit.\nset_option linter.unusedVariables false\nnamespace GojaModel.Generated.C14\n\n")

	// ---- exceptionFromValue type switch
	fd := p.FuncDecl("vm", "exceptionFromValue")
	if fd == nil {
		return nil, fmt.Errorf("vm.exceptionFromValue not found")
	}
	var ts *ast.TypeSwitchStmt
	var tail []ast.Stmt
	for i, st := range fd.Body.List {
		if t, ok := st.(*ast.TypeSwitchStmt); ok {
			ts = t
			tail = fd.Body.List[i+1:]
			break
		}
	}
	if ts == nil {
		return nil, fmt.Errorf("exceptionFromValue: no type switch")
	}
	b.WriteString("/-- (case types, normalised body statements) in source order -/\ndef efvCases : List (String × List String) := [")
	for i, c := range ts.Body.List {
		cc := c.(*ast.CaseClause)
		var types []string
		for _, t := range cc.List {
			types = append(types, c14text(p, t))
		}
		name := strings.Join(types, ", ")
		if cc.List == nil {
			name = "default"
		}
		var body []string
		for _, st := range cc.Body {
			body = append(body, c14text(p, st))
		}
		if i > 0 {
			b.WriteString(",")
		}
		fmt.Fprintf(&b, "\n  (%s, [", LeanString(name))
		for j, s := range body {
			if j > 0 {
				b.WriteString(", ")
			}
			b.WriteString(LeanString(s))
		}
		b.WriteString("])")
	}
	b.WriteString("]\n\n")
	b.WriteString(c14leanList("efvTail", c14skeleton(p, tail)))

	// ---- asUncatchableException type switch
	fd = p.FuncDecl("", "asUncatchableException")
	if fd == nil {
		return nil, fmt.Errorf("asUncatchableException not found")
	}
	b.WriteString(c14leanList("skel_asUncatchableException", c14skeleton(p, fd.Body.List)))

	type fn struct{ recv, name, lean string }
	for _, f := range []fn{
		{"", "isUncatchableException", "skel_isUncatchableException"},
		{"vm", "handleThrow", "skel_handleThrow"},
		{"vm", "try", "skel_vmTry"},
		{"vm", "runTry", "skel_runTry"},
		{"vm", "runTryInner", "skel_runTryInner"},
		{"Runtime", "runWrapped", "skel_runWrapped"},
		{"Runtime", "NewGoError", "skel_NewGoError"},
		{"Exception", "Unwrap", "skel_ExceptionUnwrap"},
		{"InterruptedError", "Unwrap", "skel_InterruptedUnwrap"},
		{"_throw", "exec", "skel_throwExec"},
		{"baseJsFuncObject", "_call", "skel_call"},
		{"Runtime", "ForOf", "skel_ForOf"},
		{"iteratorRecord", "step", "skel_iterStep"},
		{"Runtime", "Try", "skel_Try"},
		{"Runtime", "try", "skel_rtry"},
		{"", "AssertFunction", "skel_AssertFunction"},
		{"Runtime", "leave", "skel_leave"},
		{"vm", "_restoreStacks", "skel_restoreStacks"},
		{"generatorObject", "step", "skel_generatorObjectStep"},
		{"generatorObject", "tryCallDelegated", "skel_tryCallDelegated"},
		{"generator", "nextThrow", "skel_generatorNextThrow"},
		{"asyncRunner", "step", "skel_asyncRunnerStep"},
		{"Exception", "Error", "skel_ExceptionError"},
		{"Exception", "String", "skel_ExceptionString"},
		{"Exception", "valueString", "skel_ExceptionValueString"},
	} {
		d := p.FuncDecl(f.recv, f.name)
		if d == nil {
			return nil, fmt.Errorf("%s.%s not found", f.recv, f.name)
		}
		b.WriteString(c14leanList(f.lean, c14skeleton(p, d.Body.List)))
	}

	// ---- __call: only the try-frame / run-loop part (from pushTryFrame on)
	d := p.FuncDecl("baseJsFuncObject", "__call")
	if d == nil {
		return nil, fmt.Errorf("__call not found")
	}
	start := -1
	for i, st := range d.Body.List {
		if strings.HasPrefix(c14text(p, st), "vm.pushTryFrame(") {
			start = i
			break
		}
	}
	if start < 0 {
		return nil, fmt.Errorf("__call: no pushTryFrame")
	}
	sk := []string{c14text(p, d.Body.List[start])}
	sk = append(sk, c14skeleton(p, d.Body.List[start+1:])...)
	b.WriteString(c14leanList("skel_underscoreCall", sk))

	// ---- RunProgram: the deferred recover and the runTry result handling
	d = p.FuncDecl("Runtime", "RunProgram")
	if d == nil {
		return nil, fmt.Errorf("RunProgram not found")
	}
	b.WriteString(c14leanList("skel_RunProgram", c14skeleton(p, d.Body.List)))

	// ---- wrapReflectFunc: the `last.Type() == reflectTypeError` branch
	d = p.FuncDecl("Runtime", "wrapReflectFunc")
	if d == nil {
		return nil, fmt.Errorf("wrapReflectFunc not found")
	}
	n := c14find(d, func(x ast.Node) bool {
		is, ok := x.(*ast.IfStmt)
		return ok && strings.Contains(c14text(p, is.Cond), "reflectTypeError")
	})
	if n == nil {
		return nil, fmt.Errorf("wrapReflectFunc: error branch not found")
	}
	b.WriteString(c14leanList("skel_wrapReflectErr", c14skeleton(p, []ast.Stmt{n.(*ast.IfStmt)})))

	// ---- wrapJSFunc: the call and the `if err != nil` branch
	d = p.FuncDecl("Runtime", "wrapJSFunc")
	if d == nil {
		return nil, fmt.Errorf("wrapJSFunc not found")
	}
	n = c14find(d, func(x ast.Node) bool {
		is, ok := x.(*ast.IfStmt)
		return ok && c14text(p, is.Cond) == "err != nil"
	})
	if n == nil {
		return nil, fmt.Errorf("wrapJSFunc: err != nil branch not found")
	}
	b.WriteString(c14leanList("skel_wrapJSFuncErr", c14skeleton(p, []ast.Stmt{n.(*ast.IfStmt)})))

	// ---- promise reaction job
	d = p.FuncDecl("Runtime", "newPromiseReactionJob")
	if d == nil {
		return nil, fmt.Errorf("newPromiseReactionJob not found")
	}
	b.WriteString(c14leanList("skel_promiseReactionJob", c14skeleton(p, d.Body.List)))

	// ---- the uncatchable marker types
	var markers []string
	files := make([]string, 0, len(p.Files))
	for f := range p.Files {
		files = append(files, f)
	}
	sort.Strings(files)
	for _, f := range files {
		for _, dd := range p.Files[f].Decls {
			if fdd, ok := dd.(*ast.FuncDecl); ok && fdd.Name.Name == "_uncatchableException" && fdd.Recv != nil {
				markers = append(markers, c14text(p, fdd.Recv.List[0].Type))
			}
		}
	}
	b.WriteString(c14leanList("uncatchableMarkerReceivers", markers))
	// struct types embedding baseUncatchableException
	var embed []string
	for _, f := range files {
		ast.Inspect(p.Files[f], func(x ast.Node) bool {
			tsp, ok := x.(*ast.TypeSpec)
			if !ok {
				return true
			}
			st, ok := tsp.Type.(*ast.StructType)
			if !ok {
				return true
			}
			for _, fld := range st.Fields.List {
				if len(fld.Names) == 0 && c14text(p, fld.Type) == "baseUncatchableException" {
					embed = append(embed, tsp.Name.Name)
				}
			}
			return true
		})
	}
	sort.Strings(embed)
	b.WriteString(c14leanList("uncatchableTypes", embed))

	// ---- every recover() site of the package
	var sites []string
	for _, f := range files {
		for _, dd := range p.Files[f].Decls {
			fdd, ok := dd.(*ast.FuncDecl)
			if !ok || fdd.Body == nil {
				continue
			}
			has := c14find(fdd.Body, func(x ast.Node) bool {
				c, ok := x.(*ast.CallExpr)
				if !ok {
					return false
				}
				id, ok := c.Fun.(*ast.Ident)
				return ok && id.Name == "recover"
			})
			if has != nil {
				recv := ""
				if fdd.Recv != nil {
					recv = c14text(p, fdd.Recv.List[0].Type) + "."
				}
				sites = append(sites, f+":"+recv+fdd.Name.Name)
			}
		}
	}
	b.WriteString(c14leanList("recoverSites", sites))

	// ---- handleThrow's per-frame decision as a Lean FUNCTION (decision logic, not text): the ordered if-chain of the
	// loop body over (catchPos, finallyPos, ex == nil)
	dec, err := c14handleThrowDecision(p)
	if err != nil {
		return nil, err
	}
	b.WriteString(dec)
	// ---- `_throw.exec`: the condition under which an errorObject's own stack is reused
	d = p.FuncDecl("_throw", "exec")
	n = c14find(d, func(x ast.Node) bool {
		is, ok := x.(*ast.IfStmt)
		return ok && strings.Contains(c14text(p, is.Cond), "e.stack")
	})
	if n == nil {
		return nil, fmt.Errorf("_throw.exec: no condition on e.stack")
	}
	switch c14text(p, n.(*ast.IfStmt).Cond) {
	case "len(e.stack) > 0":
		b.WriteString("/-- `_throw.exec` reuses the own stack of an errorObject iff … (stackLen = len(e.stack), allocated = e.stack != nil) -/\ndef throwReusesOwnStack (stackLen : Nat) (allocated : Bool) : Bool := decide (stackLen > 0)\n\n")
	case "e.stack != nil":
		b.WriteString("def throwReusesOwnStack (stackLen : Nat) (allocated : Bool) : Bool := allocated\n\n")
	default:
		return nil, fmt.Errorf("_throw.exec: condition %q not in the translatable subset", c14text(p, n.(*ast.IfStmt).Cond))
	}

	// ---- wrapReflectFunc's error branch as a decision FUNCTION over (err is *Exception, isUncatchableException(err))
	d = p.FuncDecl("Runtime", "wrapReflectFunc")
	n = c14find(d, func(x ast.Node) bool {
		is, ok := x.(*ast.IfStmt)
		return ok && c14text(p, is.Cond) == "!last.IsNil()"
	})
	if n == nil {
		return nil, fmt.Errorf("wrapReflectFunc: `if !last.IsNil()` not found")
	}
	{
		var out strings.Builder
		out.WriteString("/-- wrapReflectFunc, non-nil error result: what is panicked, by the ordered checks of the source. -/\ndef wrapReflectDecision (isException isUncatchable : Bool) : String :=\n")
		stmts := n.(*ast.IfStmt).Body.List
		if len(stmts) < 2 || !strings.HasPrefix(c14text(p, stmts[0]), "err := last.Interface().(error)") {
			return nil, fmt.Errorf("wrapReflectFunc: error branch not in the translatable subset (first statement)")
		}
		for _, st := range stmts[1:] {
			switch x := st.(type) {
			case *ast.IfStmt:
				cond := ""
				switch {
				case x.Init != nil && c14text(p, x.Init) == "_, ok := err.(*Exception)" && c14text(p, x.Cond) == "ok":
					cond = "isException"
				case x.Init == nil && c14text(p, x.Cond) == "isUncatchableException(err)":
					cond = "isUncatchable"
				default:
					return nil, fmt.Errorf("wrapReflectFunc: condition %q not in the translatable subset", c14text(p, x))
				}
				if len(x.Body.List) != 1 || x.Else != nil {
					return nil, fmt.Errorf("wrapReflectFunc: branch body not in the translatable subset")
				}
				fmt.Fprintf(&out, "  if %s then %s else\n", cond, LeanString(c14text(p, x.Body.List[0])))
			case *ast.ExprStmt:
				fmt.Fprintf(&out, "  %s\n\n", LeanString(c14text(p, x)))
			default:
				return nil, fmt.Errorf("wrapReflectFunc: statement %q not in the translatable subset", c14text(p, st))
			}
		}
		b.WriteString(out.String())
	}
	// ---- the deferred recover of runWrapped and of RunProgram as a decision FUNCTION over (asUncatchableException(x) != nil)
	for _, rf := range []struct{ name, lean string }{{"runWrapped", "runWrappedRecoverDecision"}, {"RunProgram", "runProgramRecoverDecision"}} {
		d = p.FuncDecl("Runtime", rf.name)
		n = c14find(d, func(x ast.Node) bool {
			is, ok := x.(*ast.IfStmt)
			return ok && is.Init != nil && c14text(p, is.Init) == "ex := asUncatchableException(x)"
		})
		if n == nil {
			return nil, fmt.Errorf("%s: `if ex := asUncatchableException(x); …` not found", rf.name)
		}
		is := n.(*ast.IfStmt)
		els, ok := is.Else.(*ast.BlockStmt)
		if c14text(p, is.Cond) != "ex != nil" || !ok || len(els.List) != 1 || c14text(p, els.List[0]) != "panic(x)" ||
			len(is.Body.List) == 0 || c14text(p, is.Body.List[0]) != "err = ex" {
			return nil, fmt.Errorf("%s: recover block not in the translatable subset", rf.name)
		}
		fmt.Fprintf(&b, "/-- %s's deferred recover: the error is returned iff asUncatchableException recognises the panic value, else re-panicked. -/\ndef %s (recognised : Bool) : String := if recognised then \"err = ex\" else \"panic(x)\"\n\n", rf.name, rf.lean)
	}

	// ---- asUncatchableException's type switch as a decision FUNCTION
	au, err := c14asUncatchableDecision(p)
	if err != nil {
		return nil, err
	}
	b.WriteString(au)

	// ---- wrapJSFunc's `if err != nil` branch as a decision FUNCTION
	wj, err := c14wrapJSFuncDecision(p)
	if err != nil {
		return nil, err
	}
	b.WriteString(wj)

	b.WriteString("end GojaModel.Generated.C14\n")
	return map[string]string{"C14_PanicKinds.lean": b.String()}, nil
}


// c14cond translates a Go boolean expression over tf.catchPos / tf.finallyPos / ex / tryPanicMarker / int literals
// into a Lean Bool term over (c f : Int) (exNil : Bool).
func c14cond(p *Pkg, e ast.Expr) (string, error) {
	switch x := e.(type) {
	case *ast.ParenExpr:
		return c14cond(p, x.X)
	case *ast.BinaryExpr:
		op := x.Op.String()
		if op == "&&" || op == "||" {
			l, err := c14cond(p, x.X)
			if err != nil {
				return "", err
			}
			r, err := c14cond(p, x.Y)
			if err != nil {
				return "", err
			}
			return "(" + l + " " + op + " " + r + ")", nil
		}
		lt, rt := c14text(p, x.X), c14text(p, x.Y)
		if lt == "ex" && rt == "nil" {
			switch op {
			case "==":
				return "exNil", nil
			case "!=":
				return "(!exNil)", nil
			}
		}
		term := func(t string) (string, bool) {
			switch t {
			case "tf.catchPos":
				return "c", true
			case "tf.finallyPos":
				return "f", true
			case "tryPanicMarker":
				return "(-2 : Int)", true
			case "-1":
				return "(-1 : Int)", true
			case "0":
				return "(0 : Int)", true
			}
			return "", false
		}
		l, ok1 := term(lt)
		r, ok2 := term(rt)
		if ok1 && ok2 {
			switch op {
			case "==":
				return "(" + l + " == " + r + ")", nil
			case "!=":
				return "(" + l + " != " + r + ")", nil
			case ">=":
				return "decide (" + l + " ≥ " + r + ")", nil
			case ">":
				return "decide (" + l + " > " + r + ")", nil
			case "<":
				return "decide (" + l + " < " + r + ")", nil
			}
		}
	}
	return "", fmt.Errorf("handleThrow: condition %q not in the translatable subset", c14text(p, e))
}

func c14handleThrowDecision(p *Pkg) (string, error) {
	fd := p.FuncDecl("vm", "handleThrow")
	if fd == nil {
		return "", fmt.Errorf("vm.handleThrow not found")
	}
	var loop *ast.ForStmt
	for _, st := range fd.Body.List {
		if f, ok := st.(*ast.ForStmt); ok {
			loop = f
		}
	}
	if loop == nil {
		return "", fmt.Errorf("handleThrow: no loop")
	}
	var b strings.Builder
	b.WriteString("/-- What handleThrow does with the top try frame, as the ordered if-chain of its loop body. c = tf.catchPos, f = tf.finallyPos (tryPanicMarker = -2). -/\ndef handleThrowDecision (c f : Int) (exNil : Bool) : String :=\n")
	n := 0
	for _, st := range loop.Body.List {
		is, ok := st.(*ast.IfStmt)
		if !ok {
			continue
		}
		body := c14text(p, is.Body)
		action := ""
		switch {
		case strings.Contains(body, "continue"):
			action = "continue"
		case strings.Contains(body, "break"):
			action = "break"
		case strings.Contains(body, "return nil") && strings.Contains(body, "vm.push(ex.val)"):
			action = "caught"
		case strings.Contains(body, "return nil") && strings.Contains(body, "tf.exception = ex"):
			action = "finally"
		case !strings.Contains(body, "return") && !strings.Contains(body, "panic("):
			continue // pure state restoration (call stack), no decision
		default:
			return "", fmt.Errorf("handleThrow: if-body not recognised: %s", body)
		}
		cond, err := c14cond(p, is.Cond)
		if err != nil {
			return "", err
		}
		fmt.Fprintf(&b, "  if %s then %s else\n", cond, LeanString(action))
		n++
	}
	if n != 4 {
		return "", fmt.Errorf("handleThrow: expected 4 decisions in the loop body, found %d", n)
	}
	b.WriteString("  \"next-iteration\"\n\n")
	return b.String(), nil
}


// c14wrapJSFuncDecision translates wrapJSFunc's error handling: with an error result the Go error stored in the thrown
// object's `value` is handed over when ALL nested checks hold, else the error itself; without an error result panic(err).
func c14wrapJSFuncDecision(p *Pkg) (string, error) {
	d := p.FuncDecl("Runtime", "wrapJSFunc")
	if d == nil {
		return "", fmt.Errorf("wrapJSFunc not found")
	}
	n := c14find(d, func(x ast.Node) bool {
		is, ok := x.(*ast.IfStmt)
		return ok && c14text(p, is.Cond) == "err != nil" && is.Init == nil
	})
	if n == nil {
		return "", fmt.Errorf("wrapJSFunc: `if err != nil` not found")
	}
	outer := n.(*ast.IfStmt)
	if len(outer.Body.List) != 1 {
		return "", fmt.Errorf("wrapJSFunc: error branch not in the translatable subset (statements before/after the result-type test)")
	}
	rt, ok := outer.Body.List[0].(*ast.IfStmt)
	if !ok || c14text(p, rt.Cond) != "numOut > 0 && typ.Out(numOut-1) == reflectTypeError" {
		return "", fmt.Errorf("wrapJSFunc: result-type test not in the translatable subset")
	}
	els, ok := rt.Else.(*ast.BlockStmt)
	if !ok || len(els.List) != 1 || c14text(p, els.List[0]) != "panic(err)" {
		return "", fmt.Errorf("wrapJSFunc: else branch is not `panic(err)`")
	}
	if len(rt.Body.List) != 2 || !strings.HasPrefix(c14text(p, rt.Body.List[1]), "results[numOut-1] = reflect.ValueOf(err)") {
		return "", fmt.Errorf("wrapJSFunc: error-result branch not in the translatable subset")
	}
	want := []struct{ head, name string }{
		{"ex, ok := err.(*Exception); ok", "isException"},
		{"exo, ok := ex.val.(*Object); ok", "valIsObject"},
		{"v := exo.self.getStr(\"value\", nil); v != nil", "hasValue"},
		{"v.ExportType().AssignableTo(reflectTypeError)", "assignable"},
	}
	cur := rt.Body.List[0]
	var conds []string
	for _, w := range want {
		is, ok := cur.(*ast.IfStmt)
		if !ok || is.Else != nil || len(is.Body.List) != 1 {
			return "", fmt.Errorf("wrapJSFunc: unwrap chain not in the translatable subset at %q", w.name)
		}
		head := c14text(p, is.Cond)
		if is.Init != nil {
			head = c14text(p, is.Init) + "; " + head
		}
		if head != w.head {
			return "", fmt.Errorf("wrapJSFunc: unwrap check %q is now %q", w.head, head)
		}
		conds = append(conds, w.name)
		cur = is.Body.List[0]
	}
	if c14text(p, cur) != "err = v.Export().(error)" {
		return "", fmt.Errorf("wrapJSFunc: innermost statement is %q", c14text(p, cur))
	}
	return "/-- wrapJSFunc, callee failed with err: what the Go caller of the exported func gets. -/\n" +
		"def wrapJSFuncDecision (hasErrorResult isException valIsObject hasValue assignable : Bool) : String :=\n" +
		"  if hasErrorResult then (if " + strings.Join(conds, " && ") + " then \"return v.Export().(error)\" else \"return err\")\n" +
		"  else \"panic(err)\"\n\n", nil
}


// c14asUncatchableDecision translates asUncatchableException: the ordered cases of its type switch over
// (v implements uncatchableException, v is an error, isUncatchableException(v)).
func c14asUncatchableDecision(p *Pkg) (string, error) {
	d := p.FuncDecl("", "asUncatchableException")
	if d == nil || len(d.Body.List) != 2 {
		return "", fmt.Errorf("asUncatchableException: not in the translatable subset (statement count)")
	}
	ts, ok := d.Body.List[0].(*ast.TypeSwitchStmt)
	if !ok || c14text(p, d.Body.List[1]) != "return nil" {
		return "", fmt.Errorf("asUncatchableException: expected a type switch followed by `return nil`")
	}
	var b strings.Builder
	b.WriteString("/-- asUncatchableException: the ordered cases of its type switch. -/\ndef asUncatchableDecision (isMarker isError chainUncatchable : Bool) : String :=\n")
	for _, c := range ts.Body.List {
		cc := c.(*ast.CaseClause)
		if len(cc.List) != 1 || len(cc.Body) != 1 {
			return "", fmt.Errorf("asUncatchableException: case not in the translatable subset")
		}
		typ := c14text(p, cc.List[0])
		body := c14text(p, cc.Body[0])
		switch {
		case typ == "uncatchableException" && body == "return v":
			b.WriteString("  if isMarker then \"return v\" else\n")
		case typ == "error" && body == "if isUncatchableException(v) { return v }":
			b.WriteString("  if isError then (if chainUncatchable then \"return v\" else \"return nil\") else\n")
		default:
			return "", fmt.Errorf("asUncatchableException: case %q with body %q not in the translatable subset", typ, body)
		}
	}
	b.WriteString("  \"return nil\"\n\n")
	return b.String(), nil
}
