// C10: pin the DECISION STRUCTURE of the promise machinery that lean/GojaModel/C10/{Model,Interp}.lean transcribe by
// hand.  For every function listed below the generator walks the body and emits, in source order, a skeleton:
//
//	if <cond> { … } else { … }     for <cond> { … }     range <expr> { … }     switch <tag> { case <list>: … default: … }
//	func { … }                       (function literal: the closures of createResolvingFunctions, the job closures)
//	call <callee>                    every call, callee printed (arguments are not)
//	set <lhs> = <rhs>                assignments whose left side is a field (x.y…) or one of the latch / flag variables
//	return
//
// Local variable declarations, argument lists, comments and layout are NOT part of the skeleton, so clean-up edits do not
// break the tie; a changed guard, a dropped or reordered call, a moved latch assignment or a different loop shape does.
// Output: Lean DATA  `def skeleton : List (String × List String)`; lean/GojaModel/C10/Tie.lean compares it with the
// skeleton the model was transcribed from.  A listed function that no longer exists is "tie not regenerable".
package main

import (
	"bytes"
	"fmt"
	"go/ast"
	"go/printer"
	"go/token"
	"strings"
)

func init() { Register("C10", genC10) }

var c10Funcs = [][2]string{
	{"Promise", "createResolvingFunctions"}, {"Promise", "reject"}, {"Promise", "fulfill"}, {"Promise", "addReactions"},
	{"Runtime", "newPromiseResolveThenableJob"}, {"Runtime", "enqueuePromiseJob"}, {"Runtime", "triggerPromiseReactions"},
	{"Runtime", "newPromiseReactionJob"}, {"Runtime", "performPromiseThen"}, {"Runtime", "promiseResolve"},
	{"Runtime", "promiseProto_finally"}, {"Runtime", "promise_all"}, {"Runtime", "promise_allSettled"},
	{"Runtime", "promise_any"}, {"Runtime", "promise_race"}, {"Runtime", "NewPromise"},
	{"Runtime", "leave"}, {"Runtime", "leaveAbrupt"}, {"asyncRunner", "step"}, {"asyncRunner", "onFulfilled"},
	{"asyncRunner", "onRejected"}, {"asyncRunner", "start"},
}

var c10Watch = map[string]bool{"alreadyResolved": true, "alreadyCalled": true, "jobs": true, "fulfill": true,
	"remainingElementsCount": true, "handlerResult": true, "entered": true}

type c10Walker struct {
	fset *token.FileSet
	out  []string
}

func (w *c10Walker) pr(n ast.Node) string {
	var buf bytes.Buffer
	cfg := printer.Config{Mode: printer.RawFormat, Tabwidth: 1}
	_ = cfg.Fprint(&buf, w.fset, n)
	return strings.Join(strings.Fields(buf.String()), " ")
}

// emit appends a skeleton token; assignments to VM bookkeeping fields (r.vm.…, ar.gen.vm.…: stack-trace / clean-up
// state owned by other properties) are not part of the promise decision structure.
func (w *c10Walker) emit(s string) {
	if strings.HasPrefix(s, "set r.vm.") || strings.HasPrefix(s, "set ar.gen.vm.") || s == "call r.ClearInterrupt" {
		return
	}
	w.out = append(w.out, s)
}

// exprs emits the calls and function literals inside an expression, in source order.
func (w *c10Walker) expr(e ast.Node) {
	if e == nil {
		return
	}
	ast.Inspect(e, func(n ast.Node) bool {
		switch x := n.(type) {
		case *ast.FuncLit:
			w.emit("func {")
			w.block(x.Body)
			w.emit("}")
			return false
		case *ast.CallExpr:
			// arguments first (they are evaluated first), then the call itself
			if fl, ok := x.Fun.(*ast.FuncLit); ok {
				w.expr(fl)
			}
			for _, a := range x.Args {
				w.expr(a)
			}
			if _, ok := x.Fun.(*ast.FuncLit); !ok {
				w.expr2(x.Fun)
				w.emit("call " + w.pr(x.Fun))
			}
			return false
		}
		return true
	})
}

// expr2 handles calls nested in the callee expression (e.g. r.toCallable(x)(…)).
func (w *c10Walker) expr2(e ast.Expr) {
	switch x := e.(type) {
	case *ast.CallExpr:
		w.expr(x)
	case *ast.SelectorExpr:
		w.expr2(x.X)
	case *ast.ParenExpr:
		w.expr2(x.X)
	}
}

func (w *c10Walker) watched(e ast.Expr) bool {
	switch x := e.(type) {
	case *ast.SelectorExpr:
		return true
	case *ast.IndexExpr:
		return true
	case *ast.Ident:
		return c10Watch[x.Name]
	}
	return false
}

func (w *c10Walker) block(b *ast.BlockStmt) {
	if b == nil {
		return
	}
	for _, s := range b.List {
		w.stmt(s)
	}
}

func (w *c10Walker) stmt(s ast.Stmt) {
	switch x := s.(type) {
	case *ast.BlockStmt:
		w.block(x)
	case *ast.ExprStmt:
		w.expr(x.X)
	case *ast.AssignStmt:
		for _, r := range x.Rhs {
			w.expr(r)
		}
		for i, l := range x.Lhs {
			if w.watched(l) {
				rhs := "…"
				if len(x.Lhs) == len(x.Rhs) {
					if _, isFn := x.Rhs[i].(*ast.FuncLit); !isFn {
						rhs = w.pr(x.Rhs[i])
					} else {
						rhs = "func"
					}
				}
				w.emit("set " + w.pr(l) + " " + x.Tok.String() + " " + rhs)
			}
		}
	case *ast.IncDecStmt:
		if w.watched(x.X) {
			w.emit("set " + w.pr(x.X) + x.Tok.String())
		}
	case *ast.DeclStmt:
		if gd, ok := x.Decl.(*ast.GenDecl); ok {
			for _, sp := range gd.Specs {
				if vs, ok := sp.(*ast.ValueSpec); ok {
					for _, v := range vs.Values {
						w.expr(v)
					}
					for i, n := range vs.Names {
						if c10Watch[n.Name] && i < len(vs.Values) {
							w.emit("set " + n.Name + " := " + w.pr(vs.Values[i]))
						}
					}
				}
			}
		}
	case *ast.IfStmt:
		if x.Init != nil {
			w.stmt(x.Init)
		}
		w.expr(x.Cond)
		w.emit("if " + w.pr(x.Cond) + " {")
		w.block(x.Body)
		if x.Else != nil {
			w.emit("} else {")
			w.stmt(x.Else)
		}
		w.emit("}")
	case *ast.ForStmt:
		if x.Init != nil {
			w.stmt(x.Init)
		}
		c := ""
		if x.Cond != nil {
			c = w.pr(x.Cond)
		}
		w.emit("for " + c + " {")
		w.block(x.Body)
		if x.Post != nil {
			w.stmt(x.Post)
		}
		w.emit("}")
	case *ast.RangeStmt:
		w.expr(x.X)
		w.emit("range " + w.pr(x.X) + " {")
		w.block(x.Body)
		w.emit("}")
	case *ast.SwitchStmt:
		if x.Init != nil {
			w.stmt(x.Init)
		}
		t := ""
		if x.Tag != nil {
			t = w.pr(x.Tag)
		}
		w.emit("switch " + t + " {")
		for _, c := range x.Body.List {
			cc := c.(*ast.CaseClause)
			if cc.List == nil {
				w.emit("default:")
			} else {
				var ls []string
				for _, e := range cc.List {
					ls = append(ls, w.pr(e))
				}
				w.emit("case " + strings.Join(ls, ", ") + ":")
			}
			for _, st := range cc.Body {
				w.stmt(st)
			}
		}
		w.emit("}")
	case *ast.ReturnStmt:
		for _, r := range x.Results {
			w.expr(r)
		}
		w.emit("return")
	case *ast.DeferStmt:
		w.emit("defer {")
		w.expr(x.Call)
		w.emit("}")
	case *ast.GoStmt:
		w.emit("go {")
		w.expr(x.Call)
		w.emit("}")
	case *ast.BranchStmt:
		w.emit(x.Tok.String())
	default:
		// other statement kinds do not occur in the pinned functions; make their appearance visible
		w.emit("stmt " + fmt.Sprintf("%T", s))
	}
}

func genC10(p *Pkg) (map[string]string, error) {
	var b strings.Builder
	b.WriteString("-- GENERATED by extract/c10.go from /repo — do not edit.\nnamespace GojaModel.Generated.C10\n\n")
	b.WriteString("def skeleton : List (String × List String) := [\n")
	for i, fn := range c10Funcs {
		fd := p.FuncDecl(fn[0], fn[1])
		if fd == nil || fd.Body == nil {
			return nil, fmt.Errorf("function %s.%s not found", fn[0], fn[1])
		}
		w := &c10Walker{fset: p.Fset}
		w.block(fd.Body)
		var items []string
		for _, s := range w.out {
			items = append(items, LeanString(s))
		}
		sep := ","
		if i == len(c10Funcs)-1 {
			sep = ""
		}
		fmt.Fprintf(&b, "  (%s, [%s])%s\n", LeanString(fn[0]+"."+fn[1]), strings.Join(items, ", "), sep)
	}
	b.WriteString("]\n\nend GojaModel.Generated.C10\n")
	return map[string]string{"C10_Skeleton.lean": b.String()}, nil
}
