package main

// C04: KeyKindCopies — branch structure of the triplicated [[Set]] method families of object.go after erasing the
// Str/Idx/Sym suffixes.  Emits Lean DATA only (lists of strings); GojaModel/C04/Tie.lean compares them with the
// hand-written expectation of the legitimate differences between the copies.

import (
	"bytes"
	"fmt"
	"go/ast"
	"go/printer"
	"regexp"
	"strings"
)

func init() { Register("C04", genC04) }

var c04Suffix = regexp.MustCompile(`(Str|Idx|Sym)\b`)
var c04Ws = regexp.MustCompile(`\s+`)

// c04Erase: erase the Str/Idx/Sym suffixes (true for the triplicated families, false for the dispatchers, whose whole point
// is WHICH copy each key type reaches)
var c04Erase = true

func c04Norm(p *Pkg, n ast.Node, keyParam string) string {
	var b bytes.Buffer
	printer.Fprint(&b, p.Fset, n)
	s := c04Ws.ReplaceAllString(b.String(), " ")
	if c04Erase {
		s = c04Suffix.ReplaceAllString(s, "")
	}
	if keyParam != "" {
		s = regexp.MustCompile(`\b`+regexp.QuoteMeta(keyParam)+`\b`).ReplaceAllString(s, "KEY")
	}
	return s
}

// c04Skeleton lists, in source order, every if-condition, every call that is a statement or a returned expression,
// and every assignment, with error-message arguments of typeErrorResult dropped.
func c04Skeleton(p *Pkg, fd *ast.FuncDecl) ([]string, error) {
	if fd == nil || fd.Body == nil {
		return nil, fmt.Errorf("function not found")
	}
	key := ""
	if fd.Type.Params != nil && len(fd.Type.Params.List) > 0 && len(fd.Type.Params.List[0].Names) > 0 {
		key = fd.Type.Params.List[0].Names[0].Name
	}
	var out []string
	var walk func(st ast.Stmt) error
	walkBlock := func(b *ast.BlockStmt) error {
		for _, s := range b.List {
			if err := walk(s); err != nil {
				return err
			}
		}
		return nil
	}
	expr := func(e ast.Expr) string {
		if c, ok := e.(*ast.CallExpr); ok {
			if sel, ok := c.Fun.(*ast.SelectorExpr); ok && sel.Sel.Name == "typeErrorResult" {
				return "typeErrorResult(throw)"
			}
		}
		return c04Norm(p, e, key)
	}
	walk = func(st ast.Stmt) error {
		switch s := st.(type) {
		case *ast.IfStmt:
			if s.Init != nil {
				if err := walk(s.Init); err != nil {
					return err
				}
			}
			out = append(out, "if "+c04Norm(p, s.Cond, key))
			if err := walkBlock(s.Body); err != nil {
				return err
			}
			if s.Else != nil {
				out = append(out, "else")
				switch e := s.Else.(type) {
				case *ast.BlockStmt:
					if err := walkBlock(e); err != nil {
						return err
					}
				default:
					if err := walk(e); err != nil {
						return err
					}
				}
			}
			out = append(out, "end")
		case *ast.ReturnStmt:
			parts := []string{}
			for _, r := range s.Results {
				parts = append(parts, expr(r))
			}
			out = append(out, "return "+strings.Join(parts, ", "))
		case *ast.ExprStmt:
			out = append(out, expr(s.X))
		case *ast.AssignStmt:
			l := []string{}
			for _, x := range s.Lhs {
				l = append(l, c04Norm(p, x, key))
			}
			r := []string{}
			for _, x := range s.Rhs {
				r = append(r, expr(x))
			}
			out = append(out, strings.Join(l, ", ")+" "+s.Tok.String()+" "+strings.Join(r, ", "))
		case *ast.DeclStmt:
			out = append(out, c04Norm(p, s, key))
		case *ast.BlockStmt:
			return walkBlock(s)
		case *ast.IncDecStmt:
			out = append(out, c04Norm(p, s.X, key)+s.Tok.String())
		case *ast.RangeStmt:
			out = append(out, "for range "+c04Norm(p, s.X, key))
			if err := walkBlock(s.Body); err != nil {
				return err
			}
			out = append(out, "end")
		case *ast.ForStmt:
			if s.Init != nil {
				if err := walk(s.Init); err != nil {
					return err
				}
			}
			cond := ""
			if s.Cond != nil {
				cond = c04Norm(p, s.Cond, key)
			}
			out = append(out, "for "+cond)
			if err := walkBlock(s.Body); err != nil {
				return err
			}
			if s.Post != nil {
				if err := walk(s.Post); err != nil {
					return err
				}
			}
			out = append(out, "end")
		case *ast.TypeSwitchStmt:
			out = append(out, "typeswitch "+c04Norm(p, s.Assign, key))
			for _, cc := range s.Body.List {
				cl := cc.(*ast.CaseClause)
				ts := []string{}
				for _, e := range cl.List {
					ts = append(ts, c04Norm(p, e, key))
				}
				if len(ts) == 0 {
					out = append(out, "default")
				} else {
					out = append(out, "case "+strings.Join(ts, ", "))
				}
				for _, st := range cl.Body {
					if err := walk(st); err != nil {
						return err
					}
				}
			}
			out = append(out, "end")
		case *ast.BranchStmt:
			lbl := ""
			if s.Label != nil {
				lbl = " " + s.Label.Name
			}
			out = append(out, s.Tok.String()+lbl)
		case *ast.LabeledStmt:
			out = append(out, "label "+s.Label.Name)
			return walk(s.Stmt)
		default:
			return fmt.Errorf("%s: statement shape %T outside the translatable subset", fd.Name.Name, st)
		}
		return nil
	}
	if err := walkBlock(fd.Body); err != nil {
		return nil, err
	}
	return out, nil
}

func genC04(p *Pkg) (map[string]string, error) {
	type fam struct{ lean, recv string; fn [3]string }
	fams := []fam{
		{"objectSet", "Object", [3]string{"setStr", "setIdx", "setSym"}},
		{"setOwn", "baseObject", [3]string{"setOwnStr", "setOwnIdx", "setOwnSym"}},
		{"setForeignInner", "baseObject", [3]string{"_setForeignStr", "_setForeignIdx", "setForeignSym"}},
		{"setForeignOuter", "baseObject", [3]string{"setForeignStr", "setForeignIdx", ""}},
		{"defineOwn", "baseObject", [3]string{"defineOwnPropertyStr", "defineOwnPropertyIdx", "defineOwnPropertySym"}},
		{"deleteOwn", "baseObject", [3]string{"deleteStr", "deleteIdx", "deleteSym"}},
		{"getProp", "baseObject", [3]string{"getStr", "getIdx", "getSym"}},
		{"hasProperty", "baseObject", [3]string{"hasPropertyStr", "hasPropertyIdx", "hasPropertySym"}},
		{"getWithOwnProp", "baseObject", [3]string{"getWithOwnProp", "", ""}},
		{"checkDelete", "baseObject", [3]string{"checkDelete", "", ""}},
	}
	var b strings.Builder
	b.WriteString("/- GENERATED by extract/c04.go from /repo/object.go — do not edit. -/\nnamespace GojaModel.Generated.C04\n\n")
	kinds := [3]string{"Str", "Idx", "Sym"}
	for _, f := range fams {
		for i, name := range f.fn {
			if name == "" {
				continue
			}
			sk, err := c04Skeleton(p, p.FuncDecl(f.recv, name))
			if err != nil {
				return nil, fmt.Errorf("%s.%s: %v", f.recv, name, err)
			}
			fmt.Fprintf(&b, "def %s%s : List String := [\n", f.lean, kinds[i])
			for j, l := range sk {
				sep := ","
				if j == len(sk)-1 {
					sep = ""
				}
				fmt.Fprintf(&b, "  %s%s\n", LeanString(l), sep)
			}
			b.WriteString("]\n\n")
		}
	}
	// single functions: the copy-on-write marker of propNames, the key-type dispatchers, the lazily-templated built-ins,
	// the mapped arguments object — each is transcribed in a Lean model (Cow.lean, Entry.lean, Templ.lean, Args.lean)
	singles := []struct{ lean, recv, fn string }{
		{"cow_delete", "baseObject", "_delete"},
		{"cow_fixPropOrder", "baseObject", "fixPropOrder"},
		{"cow_ensurePropOrder", "baseObject", "ensurePropOrder"},
		{"cow_prepareNamesForCopy", "", "prepareNamesForCopy"},
		{"cow_namesMarkedForCopy", "", "namesMarkedForCopy"},
		{"cow_clearNamesCopyMarker", "", "clearNamesCopyMarker"},
		{"cow_copyNamesIfNeeded", "", "copyNamesIfNeeded"},
		{"cow_iterateStringKeys", "baseObject", "iterateStringKeys"},
		{"cow_objectPropIter_next", "objectPropIter", "next"},
		{"disp_get", "Object", "get"},
		{"disp_set", "Object", "set"},
		{"disp_setOwn", "Object", "setOwn"},
		{"disp_delete", "Object", "delete"},
		{"disp_hasProperty", "Object", "hasProperty"},
		{"disp_defineOwnProperty", "Object", "defineOwnProperty"},
		{"tmpl_getOwnPropStr", "templatedObject", "getOwnPropStr"},
		{"tmpl_getOwnPropSym", "templatedObject", "getOwnPropSym"},
		{"tmpl_materialiseSymbols", "templatedObject", "materialiseSymbols"},
		{"tmpl_materialisePropNames", "templatedObject", "materialisePropNames"},
		{"tmpl_defineOwnPropertyStr", "templatedObject", "defineOwnPropertyStr"},
		{"tmpl_defineOwnPropertySym", "templatedObject", "defineOwnPropertySym"},
		{"tmpl_deleteStr", "templatedObject", "deleteStr"},
		{"tmpl_deleteSym", "templatedObject", "deleteSym"},
		{"tmpl_setOwnSym", "templatedObject", "setOwnSym"},
		{"tmpl_hasOwnPropertyStr", "templatedObject", "hasOwnPropertyStr"},
		{"tmpl_hasOwnPropertySym", "templatedObject", "hasOwnPropertySym"},
		{"args_getOwnPropStr", "argumentsObject", "getOwnPropStr"},
		{"args_setOwnStr", "argumentsObject", "setOwnStr"},
		{"args_deleteStr", "argumentsObject", "deleteStr"},
		{"args_defineOwnPropertyStr", "argumentsObject", "defineOwnPropertyStr"},
		// String exotic object (Exotic.lean; Str and Idx copies)
		{"str_getOwnPropStr", "stringObject", "getOwnPropStr"},
		{"str_getOwnPropIdx", "stringObject", "getOwnPropIdx"},
		{"str_setOwnStr", "stringObject", "setOwnStr"},
		{"str_setOwnIdx", "stringObject", "setOwnIdx"},
		{"str_defineOwnPropertyStr", "stringObject", "defineOwnPropertyStr"},
		{"str_defineOwnPropertyIdx", "stringObject", "defineOwnPropertyIdx"},
		{"str_deleteStr", "stringObject", "deleteStr"},
		{"str_deleteIdx", "stringObject", "deleteIdx"},
		{"str_hasOwnPropertyStr", "stringObject", "hasOwnPropertyStr"},
		{"str_hasOwnPropertyIdx", "stringObject", "hasOwnPropertyIdx"},
		// integer-indexed exotic objects (Typed.lean); deleteStr/deleteIdx are left out while their patch is pending
		{"ta_getOwnPropStr", "typedArrayObject", "getOwnPropStr"},
		{"ta_getOwnPropIdx", "typedArrayObject", "getOwnPropIdx"},
		{"ta_getStr", "typedArrayObject", "getStr"},
		{"ta_getIdx", "typedArrayObject", "getIdx"},
		{"ta_setOwnStr", "typedArrayObject", "setOwnStr"},
		{"ta_setOwnIdx", "typedArrayObject", "setOwnIdx"},
		{"ta_setForeignStr", "typedArrayObject", "setForeignStr"},
		{"ta_setForeignIdx", "typedArrayObject", "setForeignIdx"},
		{"ta_hasOwnPropertyStr", "typedArrayObject", "hasOwnPropertyStr"},
		{"ta_hasOwnPropertyIdx", "typedArrayObject", "hasOwnPropertyIdx"},
		{"ta_hasPropertyStr", "typedArrayObject", "hasPropertyStr"},
		{"ta_hasPropertyIdx", "typedArrayObject", "hasPropertyIdx"},
		{"ta_defineIdxProperty", "typedArrayObject", "_defineIdxProperty"},
		{"ta_defineOwnPropertyStr", "typedArrayObject", "defineOwnPropertyStr"},
		{"ta_defineOwnPropertyIdx", "typedArrayObject", "defineOwnPropertyIdx"},
		// lazy `prototype` of ordinary functions (FuncLazy.lean)
		{"fn_addProto", "funcObject", "_addProto"},
		{"fn_addProtoBeforeNewKey", "funcObject", "_addProtoBeforeNewKey"},
		{"fn_addPrototype", "funcObject", "addPrototype"},
		{"fn_getOwnPropStr", "funcObject", "getOwnPropStr"},
		{"fn_setOwnStr", "funcObject", "setOwnStr"},
		{"fn_defineOwnPropertyStr", "funcObject", "defineOwnPropertyStr"},
		{"fn_deleteStr", "funcObject", "deleteStr"},
		{"fn_hasOwnPropertyStr", "funcObject", "hasOwnPropertyStr"},
		{"fn_stringKeys", "funcObject", "stringKeys"},
		{"fn_iterateStringKeys", "funcObject", "iterateStringKeys"},
		// second deepening round (Tie2.lean): typed-array delete (4b86f46), arguments key enumeration (52d9686), Go map wrapper (GoMap.lean)
		{"ta_deleteStr", "typedArrayObject", "deleteStr"},
		{"ta_deleteIdx", "typedArrayObject", "deleteIdx"},
		{"args_stringKeys", "argumentsObject", "stringKeys"},
		{"args_iterateStringKeys", "argumentsObject", "iterateStringKeys"},
		{"args_propIterNext", "argumentsPropIter", "next"},
		{"gm_getStr0", "objectGoMapSimple", "_getStr"},
		{"gm_hasStr0", "objectGoMapSimple", "_hasStr"},
		{"gm_getStr", "objectGoMapSimple", "getStr"},
		{"gm_getOwnPropStr", "objectGoMapSimple", "getOwnPropStr"},
		{"gm_setOwnStr", "objectGoMapSimple", "setOwnStr"},
		{"gm_setForeignStr", "objectGoMapSimple", "setForeignStr"},
		{"gm_setForeignIdx", "objectGoMapSimple", "setForeignIdx"},
		{"gm_hasOwnPropertyStr", "objectGoMapSimple", "hasOwnPropertyStr"},
		{"gm_defineOwnPropertyStr", "objectGoMapSimple", "defineOwnPropertyStr"},
		{"gm_deleteStr", "objectGoMapSimple", "deleteStr"},
		{"gm_stringKeys", "objectGoMapSimple", "stringKeys"},
		{"gm_iterateStringKeys", "objectGoMapSimple", "iterateStringKeys"},
		{"gm_propIterNext", "gomapPropIter", "next"},
		{"host_checkPropertyDescr", "Runtime", "checkHostObjectPropertyDescr"},
	}
	for _, f := range singles {
		c04Erase = !strings.HasPrefix(f.lean, "disp_")
		sk, err := c04Skeleton(p, p.FuncDecl(f.recv, f.fn))
		c04Erase = true
		if err != nil {
			return nil, fmt.Errorf("%s.%s: %v", f.recv, f.fn, err)
		}
		fmt.Fprintf(&b, "def %s : List String := [\n", f.lean)
		for j, l := range sk {
			sep := ","
			if j == len(sk)-1 {
				sep = ""
			}
			fmt.Fprintf(&b, "  %s%s\n", LeanString(l), sep)
		}
		b.WriteString("]\n\n")
	}

	// the decision function itself: every statement of _defineOwnProperty in order (conditions, assignments, gotos)
	sk, err := c04Skeleton(p, p.FuncDecl("baseObject", "_defineOwnProperty"))
	if err != nil {
		return nil, fmt.Errorf("baseObject._defineOwnProperty: %v", err)
	}
	b.WriteString("def defineOwnProperty : List String := [\n")
	for j, l := range sk {
		sep := ","
		if j == len(sk)-1 {
			sep = ""
		}
		fmt.Fprintf(&b, "  %s%s\n", LeanString(l), sep)
	}
	b.WriteString("]\n\n")
	b.WriteString("end GojaModel.Generated.C04\n")
	return map[string]string{"C04_KeyKindCopies.lean": b.String()}, nil
}
