package main

// C09 facts (decision structure only, as small integer codes — see lean/GojaModel/C09/Tie.lean for their meaning):
//   suspendRebase / resumeRebase : the per-frame offset updates inside the `for i := range …tryStack` loops of
//                                  vm.suspend / vm.resume: (field, operator, operand)
//   enfEntry                     : the assignments generator.enterNextFinallyFrame makes when it enters a finally block
//   enfRetakesPointer            : `tf = &vm.tryStack[len(vm.tryStack)-1]` follows the restoreStacks call (4bb92ea)
//   step1ContinuesWhenNotHalted  : the returning loop of generator.step1 has `if !vm.halted() { continue }` (5eca78e)
//   enfCloseErrorUsesHandleThrow : the restoreStacks-error branch of enterNextFinallyFrame is `handleThrow` + return (bf2a7fb)
//   step1UnwindsBeforeReportingCloseError : step1 unwinds the activation right after the final restoreStacks (bf2a7fb)
//   throwPrelude / returnPrelude / nextPrelude : the start/completed prelude of generatorObject.throw / _return / next:
//                                  (state tested, action) pairs in order
// Anything outside the shapes understood here is an error ("tie not regenerable").

import (
	"bytes"
	"fmt"
	"go/ast"
	"go/printer"
	"go/token"
	"strings"
)

func init() { Register("C09", genC09) }

func c09src(p *Pkg, n ast.Node) string {
	var b bytes.Buffer
	printer.Fprint(&b, p.Fset, n)
	return strings.Join(strings.Fields(b.String()), " ")
}

var c09Fields = map[string]int{"tf.iterLen": 0, "tf.refLen": 1, "tf.sp": 2, "tf.callStackLen": 3}
var c09Ops = map[token.Token]int{token.ASSIGN: 0, token.ADD_ASSIGN: 1, token.SUB_ASSIGN: 2}
var c09Operands = map[string]int{
	"iterStackLen": 0, "refStackLen": 1, "sp": 2, "int32(sp)": 2,
	"uint32(len(vm.callStack))": 3, "uint32(len(vm.iterStack))": 4, "uint32(len(vm.refStack))": 5,
}

// the body of the `for i := range X.tryStack` loop of fn
func c09RebaseLoop(p *Pkg, fn *ast.FuncDecl) ([][3]int, []string, error) {
	var loop *ast.RangeStmt
	ast.Inspect(fn.Body, func(n ast.Node) bool {
		if r, ok := n.(*ast.RangeStmt); ok && strings.HasSuffix(c09src(p, r.X), ".tryStack") {
			if loop != nil {
				loop = nil
				return false
			}
			loop = r
		}
		return true
	})
	if loop == nil {
		return nil, nil, fmt.Errorf("%s: expected exactly one range loop over a tryStack", fn.Name.Name)
	}
	var out [][3]int
	var txt []string
	for i, st := range loop.Body.List {
		as, ok := st.(*ast.AssignStmt)
		if !ok || len(as.Lhs) != 1 || len(as.Rhs) != 1 {
			return nil, nil, fmt.Errorf("%s: unexpected statement in the rebasing loop: %s", fn.Name.Name, c09src(p, st))
		}
		lhs, rhs := c09src(p, as.Lhs[0]), c09src(p, as.Rhs[0])
		if i == 0 && lhs == "tf" && as.Tok == token.DEFINE {
			continue
		}
		f, ok1 := c09Fields[lhs]
		o, ok2 := c09Ops[as.Tok]
		v, ok3 := c09Operands[rhs]
		if !ok1 || !ok2 || !ok3 {
			return nil, nil, fmt.Errorf("%s: unknown rebasing statement: %s", fn.Name.Name, c09src(p, st))
		}
		out = append(out, [3]int{f, o, v})
		txt = append(txt, c09src(p, st))
	}
	return out, txt, nil
}

var c09EnfLhs = map[string]int{"vm.sp": 0, "vm.stash": 1, "vm.privEnv": 2, "vm.pc": 3, "tf.catchPos": 4, "tf.finallyPos": 5, "tf.finallyRet": 6}
var c09EnfRhs = map[string]int{"int(tf.sp)": 0, "tf.stash": 1, "tf.privEnv": 2, "int(tf.finallyPos)": 3, "-1": 4, "-2": 5}

func c09Enf(p *Pkg) ([][2]int, []string, bool, error) {
	fn := p.FuncDecl("generator", "enterNextFinallyFrame")
	if fn == nil {
		return nil, nil, false, fmt.Errorf("generator.enterNextFinallyFrame not found")
	}
	var entry *ast.IfStmt
	retake, sawRestore := false, false
	ast.Inspect(fn.Body, func(n ast.Node) bool {
		switch s := n.(type) {
		case *ast.IfStmt:
			if c09src(p, s.Cond) == "tf.finallyPos >= 0" {
				entry = s
			}
		case *ast.AssignStmt:
			t := c09src(p, s)
			if strings.Contains(t, "vm.restoreStacks(tf.iterLen, tf.refLen)") {
				sawRestore = true
			}
			if sawRestore && t == "tf = &vm.tryStack[len(vm.tryStack)-1]" {
				retake = true
			}
		}
		return true
	})
	if entry == nil || !sawRestore {
		return nil, nil, false, fmt.Errorf("enterNextFinallyFrame: finally-entry block or restoreStacks call not found")
	}
	var out [][2]int
	var txt []string
	for _, st := range entry.Body.List {
		switch s := st.(type) {
		case *ast.AssignStmt:
			if len(s.Lhs) != 1 || len(s.Rhs) != 1 || s.Tok != token.ASSIGN {
				return nil, nil, false, fmt.Errorf("enterNextFinallyFrame: unexpected assignment %s", c09src(p, st))
			}
			l, ok1 := c09EnfLhs[c09src(p, s.Lhs[0])]
			r, ok2 := c09EnfRhs[c09src(p, s.Rhs[0])]
			if !ok1 || !ok2 {
				return nil, nil, false, fmt.Errorf("enterNextFinallyFrame: unknown assignment %s", c09src(p, st))
			}
			out = append(out, [2]int{l, r})
			txt = append(txt, c09src(p, st))
		case *ast.ReturnStmt:
		default:
			return nil, nil, false, fmt.Errorf("enterNextFinallyFrame: unexpected statement %s", c09src(p, st))
		}
	}
	return out, txt, retake, nil
}

// the `if ex != nil { … }` block after restoreStacks in enterNextFinallyFrame dispatches with handleThrow and returns the
// uncaught exception (bf2a7fb); vm.throw (which panics outside the run loop) is not called anywhere in the function
func c09EnfCloseError(p *Pkg) (bool, error) {
	fn := p.FuncDecl("generator", "enterNextFinallyFrame")
	if fn == nil {
		return false, fmt.Errorf("generator.enterNextFinallyFrame not found")
	}
	ok, usesThrow := false, false
	ast.Inspect(fn.Body, func(n ast.Node) bool {
		switch s := n.(type) {
		case *ast.CallExpr:
			if c09src(p, s.Fun) == "vm.throw" {
				usesThrow = true
			}
		case *ast.IfStmt:
			if c09src(p, s.Cond) == "ex != nil" && s.Init == nil && len(s.Body.List) == 2 {
				inner, ok1 := s.Body.List[0].(*ast.IfStmt)
				ret, ok2 := s.Body.List[1].(*ast.ReturnStmt)
				if ok1 && ok2 && inner.Init != nil && c09src(p, inner.Init) == "ex = vm.handleThrow(ex)" &&
					c09src(p, inner.Cond) == "ex != nil" && len(inner.Body.List) == 1 &&
					c09src(p, inner.Body.List[0]) == "return false, ex" && c09src(p, ret) == "return true, nil" {
					ok = true
				}
			}
		}
		return true
	})
	return ok && !usesThrow, nil
}

// in step1's returning branch, after `ex = vm.restoreStacks(g.iterStackLen, g.refStackLen)` the activation is unwound
// (vm.sp, vm.callStack) before any return
func c09Step1Unwind(p *Pkg) (bool, error) {
	fn := p.FuncDecl("generator", "step1")
	if fn == nil {
		return false, fmt.Errorf("generator.step1 not found")
	}
	found := false
	ast.Inspect(fn.Body, func(n ast.Node) bool {
		blk, ok := n.(*ast.BlockStmt)
		if !ok {
			return true
		}
		for i, st := range blk.List {
			if c09src(p, st) == "ex = vm.restoreStacks(g.iterStackLen, g.refStackLen)" && i+2 < len(blk.List) {
				if c09src(p, blk.List[i+1]) == "vm.sp = vm.sb - 1" &&
					c09src(p, blk.List[i+2]) == "vm.callStack = vm.callStack[:len(vm.callStack)-1]" {
					found = true
				}
			}
		}
		return true
	})
	return found, nil
}

func c09Step1(p *Pkg) (bool, error) {
	fn := p.FuncDecl("generator", "step1")
	if fn == nil {
		return false, fmt.Errorf("generator.step1 not found")
	}
	// the else branch of `if g.returning == nil`
	var ret *ast.IfStmt
	for _, st := range fn.Body.List {
		if i, ok := st.(*ast.IfStmt); ok && c09src(p, i.Cond) == "g.returning == nil" {
			ret = i
		}
	}
	if ret == nil || ret.Else == nil {
		return false, fmt.Errorf("step1: `if g.returning == nil {…} else {…}` not found")
	}
	found := false
	ast.Inspect(ret.Else, func(n ast.Node) bool {
		if i, ok := n.(*ast.IfStmt); ok && c09src(p, i.Cond) == "!vm.halted()" && len(i.Body.List) == 1 {
			if b, ok := i.Body.List[0].(*ast.BranchStmt); ok && b.Tok == token.CONTINUE {
				found = true
			}
		}
		return true
	})
	return found, nil
}

var c09States = map[string]int{"g.state == genStateSuspendedStart": 1, "g.state == genStateCompleted": 5}

// prelude of generatorObject.throw / _return: after g.validate(), the leading `if g.state == X { action }` statements
func c09Prelude(p *Pkg, name string) ([][2]int, []string, error) {
	fn := p.FuncDecl("generatorObject", name)
	if fn == nil {
		return nil, nil, fmt.Errorf("generatorObject.%s not found", name)
	}
	if len(fn.Body.List) == 0 || c09src(p, fn.Body.List[0]) != "g.validate()" {
		return nil, nil, fmt.Errorf("generatorObject.%s does not start with g.validate()", name)
	}
	var out [][2]int
	var txt []string
	for _, st := range fn.Body.List[1:] {
		i, ok := st.(*ast.IfStmt)
		if !ok {
			break
		}
		c, ok := c09States[c09src(p, i.Cond)]
		if !ok {
			break
		}
		if i.Else != nil || len(i.Body.List) != 1 {
			return nil, nil, fmt.Errorf("generatorObject.%s: unexpected shape of %s", name, c09src(p, i.Cond))
		}
		a := c09src(p, i.Body.List[0])
		act := -1
		switch {
		case a == "g.state = genStateCompleted":
			act = 0
		case a == "panic(v)":
			act = 1
		case a == "return g.val.runtime.createIterResultObject(v, true)":
			act = 2
		case a == "return g.val.runtime.createIterResultObject(_undefined, true)":
			act = 3
		}
		if act < 0 {
			return nil, nil, fmt.Errorf("generatorObject.%s: unknown action %s", name, a)
		}
		out = append(out, [2]int{c, act})
		txt = append(txt, c09src(p, i.Cond)+" => "+a)
	}
	return out, txt, nil
}

func genC09(p *Pkg) (map[string]string, error) {
	var b strings.Builder
	b.WriteString("/- GENERATED by extract/c09.go from the Go sources — do not edit. -/\nnamespace GojaModel.Generated.C09\n\n")
	triples := func(name string, xs [][3]int, txt []string) {
		fmt.Fprintf(&b, "/-- %s -/\ndef %s : List (Nat × Nat × Nat) := [", strings.Join(txt, " ; "), name)
		for i, x := range xs {
			if i > 0 {
				b.WriteString(", ")
			}
			fmt.Fprintf(&b, "(%d, %d, %d)", x[0], x[1], x[2])
		}
		b.WriteString("]\n\n")
	}
	pairs := func(name string, xs [][2]int, txt []string) {
		fmt.Fprintf(&b, "/-- %s -/\ndef %s : List (Nat × Nat) := [", strings.Join(txt, " ; "), name)
		for i, x := range xs {
			if i > 0 {
				b.WriteString(", ")
			}
			fmt.Fprintf(&b, "(%d, %d)", x[0], x[1])
		}
		b.WriteString("]\n\n")
	}
	for _, f := range []struct{ fn, lean string }{{"suspend", "suspendRebase"}, {"resume", "resumeRebase"}} {
		fd := p.FuncDecl("vm", f.fn)
		if fd == nil {
			return nil, fmt.Errorf("vm.%s not found", f.fn)
		}
		xs, txt, err := c09RebaseLoop(p, fd)
		if err != nil {
			return nil, err
		}
		triples(f.lean, xs, txt)
	}
	enf, txt, retake, err := c09Enf(p)
	if err != nil {
		return nil, err
	}
	pairs("enfEntry", enf, txt)
	fmt.Fprintf(&b, "def enfRetakesPointer : Bool := %v\n\n", retake)
	cont, err := c09Step1(p)
	if err != nil {
		return nil, err
	}
	fmt.Fprintf(&b, "def step1ContinuesWhenNotHalted : Bool := %v\n\n", cont)
	ce, err := c09EnfCloseError(p)
	if err != nil {
		return nil, err
	}
	fmt.Fprintf(&b, "def enfCloseErrorUsesHandleThrow : Bool := %v\n\n", ce)
	uw, err := c09Step1Unwind(p)
	if err != nil {
		return nil, err
	}
	fmt.Fprintf(&b, "def step1UnwindsBeforeReportingCloseError : Bool := %v\n\n", uw)
	for _, f := range []struct{ fn, lean string }{{"throw", "throwPrelude"}, {"_return", "returnPrelude"}, {"next", "nextPrelude"}} {
		xs, txt, err := c09Prelude(p, f.fn)
		if err != nil {
			return nil, err
		}
		pairs(f.lean, xs, txt)
	}
	b.WriteString("end GojaModel.Generated.C09\n")
	return map[string]string{"C09_Decisions.lean": b.String()}, nil
}
