package main

// C01: regenerates
//   C01_StackEffects.lean  — for every `func (x T) exec(vm *vm)` in vm.go the syntactic operand-stack effect:
//                            the set of control paths through the method body, each with its pc effect
//                            (vm.pc++ / vm.pc += int(operand)) and its sp delta (a*operand + b), plus the
//                            deepest operand-stack slot read (need); or `dyn` when the body is not in the
//                            understood shape (sp assigned from something else, helper that moves sp, closures
//                            that push, delegation to another exec).
//   C01_PanicKinds.lean    — the case lists of vm.exceptionFromValue, asUncatchableException and the
//                            recover sites of RunProgram / runWrapped / compileAST.
// Lean DATA only.

import (
	"fmt"
	"go/ast"
	"go/token"
	"sort"
	"strings"
)

func init() { Register("C01", genC01) }

// ---- linear forms a*opnd + b -------------------------------------------------------------------------

type c01lin struct {
	coeff int
	opnd  string
	c     int
}

func (l c01lin) isConst() bool { return l.coeff == 0 }
func (l c01lin) lean() string {
	return fmt.Sprintf("⟨%d, %s, %d⟩", l.coeff, LeanString(l.opnd), l.c)
}
func c01linAdd(a, b c01lin, sign int) (c01lin, bool) {
	r := c01lin{a.coeff, a.opnd, a.c + sign*b.c}
	if b.coeff != 0 {
		if a.coeff != 0 && a.opnd != b.opnd {
			return r, false
		}
		r.opnd = b.opnd
		if a.coeff != 0 {
			r.opnd = a.opnd
		}
		r.coeff = a.coeff + sign*b.coeff
		if r.coeff == 0 {
			r.opnd = ""
		}
	}
	return r, true
}

// c01lmax returns the pointwise larger of two linear forms when comparable for all operand values >= 0.
func c01lmax(a, b c01lin) (c01lin, bool) {
	if a.coeff == 0 && b.coeff == 0 {
		if a.c >= b.c {
			return a, true
		}
		return b, true
	}
	if a.coeff != 0 && b.coeff != 0 && a.opnd != b.opnd {
		return a, false
	}
	if a.coeff >= b.coeff && a.c >= b.c {
		return a, true
	}
	if b.coeff >= a.coeff && b.c >= a.c {
		return b, true
	}
	return a, false
}

type c01path struct {
	sp    c01lin // delta so far relative to entry sp
	pc    string // "" unset, "next", "jump:<opnd>"
	need  c01lin
	ended bool   // returned
	throw bool   // ended by panic / vm.throw
	gto   string // pending forward goto to this label
	brk   bool   // pending break (nearest switch/loop)
	cont  bool   // pending continue (nearest loop)
}

type c01dynErr struct{ why string }

type c01analyzer struct {
	p        *Pkg
	recv     string            // receiver variable name
	opnds    map[string]string // Go expression (printed) -> operand name
	locals   map[string]c01lin // local var = entry sp + lin
	olocals  map[string]c01lin // local var = linear form of an operand (not sp relative)
	helpers  map[string]*c01helperSum
	inHelper map[string]bool
}

type c01helperSum struct {
	dyn   string
	paths []c01path
}

func c01exprStr(e ast.Expr) string {
	switch x := e.(type) {
	case *ast.Ident:
		return x.Name
	case *ast.SelectorExpr:
		return c01exprStr(x.X) + "." + x.Sel.Name
	case *ast.ParenExpr:
		return c01exprStr(x.X)
	case *ast.CallExpr:
		args := []string{}
		for _, a := range x.Args {
			args = append(args, c01exprStr(a))
		}
		return c01exprStr(x.Fun) + "(" + strings.Join(args, ",") + ")"
	case *ast.BasicLit:
		return x.Value
	case *ast.StarExpr:
		return "*" + c01exprStr(x.X)
	case *ast.UnaryExpr:
		return x.Op.String() + c01exprStr(x.X)
	case *ast.BinaryExpr:
		return c01exprStr(x.X) + x.Op.String() + c01exprStr(x.Y)
	case *ast.IndexExpr:
		return c01exprStr(x.X) + "[" + c01exprStr(x.Index) + "]"
	case *ast.CompositeLit:
		if x.Type != nil {
			fs := []string{}
			for _, el := range x.Elts {
				if kv, ok := el.(*ast.KeyValueExpr); ok {
					fs = append(fs, c01exprStr(kv.Key))
				}
			}
			return c01exprStr(x.Type) + "{" + strings.Join(fs, ",") + "}"
		}
	}
	return fmt.Sprintf("<%T>", e)
}

// linOf evaluates an int expression to a linear form over one operand; ok=false if not of that shape.
// `vm.sp` itself evaluates to the current delta (entry sp is the origin) when spRel is true.
func (a *c01analyzer) linOf(e ast.Expr, cur c01lin, spRel *bool) (c01lin, bool) {
	switch x := e.(type) {
	case *ast.ParenExpr:
		return a.linOf(x.X, cur, spRel)
	case *ast.BasicLit:
		if x.Kind == token.INT {
			n := 0
			if _, err := fmt.Sscanf(x.Value, "%d", &n); err == nil {
				return c01lin{c: n}, true
			}
		}
		return c01lin{}, false
	case *ast.Ident:
		if l, ok := a.locals[x.Name]; ok {
			*spRel = true
			return l, true
		}
		if l, ok := a.olocals[x.Name]; ok {
			return l, true
		}
		if o, ok := a.opnds[x.Name]; ok {
			return c01lin{coeff: 1, opnd: o}, true
		}
		return c01lin{}, false
	case *ast.SelectorExpr:
		s := c01exprStr(x)
		if s == "vm.sp" {
			*spRel = true
			return cur, true
		}
		if o, ok := a.opnds[s]; ok {
			return c01lin{coeff: 1, opnd: o}, true
		}
		return c01lin{}, false
	case *ast.CallExpr:
		// int(x), int32(x), uint32(x) conversions
		if id, ok := x.Fun.(*ast.Ident); ok && len(x.Args) == 1 {
			switch id.Name {
			case "int", "int32", "int64", "uint32", "uint", "uint64":
				return a.linOf(x.Args[0], cur, spRel)
			}
		}
		return c01lin{}, false
	case *ast.UnaryExpr:
		if x.Op == token.SUB {
			l, ok := a.linOf(x.X, cur, spRel)
			if !ok {
				return l, false
			}
			return c01lin{-l.coeff, l.opnd, -l.c}, true
		}
		return c01lin{}, false
	case *ast.BinaryExpr:
		if x.Op == token.ADD || x.Op == token.SUB {
			var r1, r2 bool
			l, ok1 := a.linOf(x.X, cur, &r1)
			r, ok2 := a.linOf(x.Y, cur, &r2)
			if !ok1 || !ok2 || (r1 && r2) || (r2 && x.Op == token.SUB) {
				return c01lin{}, false
			}
			sign := 1
			if x.Op == token.SUB {
				sign = -1
			}
			res, ok := c01linAdd(l, r, sign)
			if r1 || r2 {
				*spRel = true
			}
			return res, ok
		}
		return c01lin{}, false
	}
	return c01lin{}, false
}

func c01mentionsSpPc(n ast.Node) bool {
	found := false
	ast.Inspect(n, func(m ast.Node) bool {
		switch x := m.(type) {
		case *ast.SelectorExpr:
			s := c01exprStr(x)
			if s == "vm.sp" || s == "vm.pc" || s == "vm.push" || s == "vm.pop" {
				found = true
			}
		}
		return !found
	})
	return found
}

// scanExpr accounts for vm.pop(), vm.push(x), stack reads and helper calls inside an expression
// (evaluation order left to right, which is Go's order for calls).
func (a *c01analyzer) scanExpr(e ast.Node, ps []c01path) []c01path {
	if e == nil {
		return ps
	}
	var walk func(n ast.Node)
	walk = func(n ast.Node) {
		switch x := n.(type) {
		case nil:
			return
		case *ast.FuncLit:
			if c01mentionsSpPc(x.Body) {
				panic(c01dynErr{"closure touches sp/pc"})
			}
			return
		case *ast.CallExpr:
			fs := c01exprStr(x.Fun)
			switch {
			case fs == "vm.push":
				for _, arg := range x.Args {
					walk(arg)
				}
				for i := range ps {
					ps[i].sp.c++
				}
				return
			case fs == "vm.pop":
				for i := range ps {
					ps[i].sp.c--
					a.noteDepth(&ps[i], c01lin{c: 0}) // after the decrement slot sp is read: depth 1 before
				}
				return
			case fs == "vm.peek":
				for i := range ps {
					a.noteDepth(&ps[i], c01lin{c: -1})
				}
				return
			case fs == "vm.throw" || fs == "panic":
				for _, arg := range x.Args {
					walk(arg)
				}
				for i := range ps {
					ps[i].ended = true
					ps[i].throw = true
				}
				return
			case strings.HasSuffix(fs, ".exec") && len(x.Args) == 1 && c01exprStr(x.Args[0]) == "vm":
				panic(c01dynErr{"delegates to " + fs})
			case strings.HasSuffix(fs, ".vmCall"):
				panic(c01dynErr{"vmCall"})
			case strings.HasPrefix(fs, "vm.") && strings.Count(fs, ".") == 1:
				name := strings.TrimPrefix(fs, "vm.")
				for _, arg := range x.Args {
					walk(arg)
				}
				h := a.helper("vm", name)
				if h == nil {
					return // not a method of vm declared in the package (field func etc.): neutral
				}
				ps = a.applyHelper(fs, h, ps)
				return
			default:
				// any other call that receives vm as an argument may move sp
				for _, arg := range x.Args {
					if c01exprStr(arg) == "vm" {
						// a method/function that receives vm: analyse it like a helper if it can be found by name
						name := fs
						if k := strings.LastIndex(fs, "."); k >= 0 {
							name = fs[k+1:]
						}
						h := a.helper("*", name)
						if h == nil {
							panic(c01dynErr{"passes vm to " + fs})
						}
						for _, arg := range x.Args {
							walk(arg)
						}
						ps = a.applyHelper(fs, h, ps)
						return
					}
				}
			}
		case *ast.IndexExpr:
			if c01exprStr(x.X) == "vm.stack" {
				a.noteIndex(x.Index, ps)
			}
		case *ast.SliceExpr:
			if c01exprStr(x.X) == "vm.stack" && x.Low != nil {
				a.noteIndex(x.Low, ps)
			}
		}
		// generic traversal in source order
		ast.Inspect(n, func(m ast.Node) bool {
			if m == n || m == nil {
				return true
			}
			walk(m)
			return false
		})
	}
	walk(e)
	return ps
}

func (a *c01analyzer) noteIndex(idx ast.Expr, ps []c01path) {
	for i := range ps {
		var rel bool
		l, ok := a.linOf(idx, ps[i].sp, &rel)
		if !ok || !rel {
			continue // vm.sb-relative or unknown index: not an operand-stack access
		}
		// l is the slot position relative to entry sp; slot at position -k means k operands are needed
		a.noteDepth(&ps[i], l)
	}
}

// noteDepth: slot position pos (relative to entry sp) is accessed; need >= -pos.
func (a *c01analyzer) noteDepth(p *c01path, pos c01lin) {
	d := c01lin{-pos.coeff, pos.opnd, -pos.c}
	if d.coeff < 0 || (d.coeff == 0 && d.c <= 0) {
		return
	}
	p.need = c01lmaxLoose(p.need, d)
}

func c01live(ps []c01path) (l, done []c01path) {
	for _, p := range ps {
		if p.ended || p.gto != "" || p.brk || p.cont {
			done = append(done, p)
		} else {
			l = append(l, p)
		}
	}
	return
}

func c01clonePaths(ps []c01path) []c01path { return append([]c01path(nil), ps...) }

func (a *c01analyzer) stmts(list []ast.Stmt, ps []c01path) []c01path {
	for _, s := range list {
		if ls, ok := s.(*ast.LabeledStmt); ok {
			for i := range ps {
				if ps[i].gto == ls.Label.Name {
					ps[i].gto = ""
				}
			}
			s = ls.Stmt
		}
		l, done := c01live(ps)
		if len(l) == 0 {
			ps = done
			continue
		}
		ps = append(done, a.stmt(s, l)...)
		if len(ps) > 64 {
			panic(c01dynErr{"too many paths"})
		}
	}
	return ps
}

func (a *c01analyzer) assignSp(p *c01path, rhs ast.Expr) {
	var rel bool
	l, ok := a.linOf(rhs, p.sp, &rel)
	if !ok || !rel {
		panic(c01dynErr{"vm.sp = " + c01exprStr(rhs)})
	}
	// shrinking by assignment reads nothing, but the slots between are operands that must exist
	a.noteDepth(p, l)
	p.sp = l
}

func (a *c01analyzer) stmt(s ast.Stmt, ps []c01path) []c01path {
	switch x := s.(type) {
	case *ast.ExprStmt:
		return a.scanExpr(x.X, ps)
	case *ast.IncDecStmt:
		t := c01exprStr(x.X)
		d := 1
		if x.Tok == token.DEC {
			d = -1
		}
		switch t {
		case "vm.sp":
			for i := range ps {
				ps[i].sp.c += d
				a.noteDepth(&ps[i], ps[i].sp)
			}
		case "vm.pc":
			if d != 1 {
				panic(c01dynErr{"vm.pc--"})
			}
			for i := range ps {
				ps[i].pc = "next"
			}
		default:
			ps = a.scanExpr(x.X, ps)
		}
		return ps
	case *ast.AssignStmt:
		for _, r := range x.Rhs {
			ps = a.scanExpr(r, ps)
		}
		if len(x.Lhs) == 1 && len(x.Rhs) == 1 {
			t := c01exprStr(x.Lhs[0])
			switch t {
			case "vm.sp":
				for i := range ps {
					switch x.Tok {
					case token.ASSIGN:
						a.assignSp(&ps[i], x.Rhs[0])
					case token.ADD_ASSIGN, token.SUB_ASSIGN:
						var rel bool
						l, ok := a.linOf(x.Rhs[0], ps[i].sp, &rel)
						if !ok || rel {
							panic(c01dynErr{"vm.sp op= " + c01exprStr(x.Rhs[0])})
						}
						sign := 1
						if x.Tok == token.SUB_ASSIGN {
							sign = -1
						}
						n, ok := c01linAdd(ps[i].sp, l, sign)
						if !ok {
							panic(c01dynErr{"two operands in sp delta"})
						}
						ps[i].sp = n
						a.noteDepth(&ps[i], n)
					default:
						panic(c01dynErr{"vm.sp " + x.Tok.String()})
					}
				}
				return ps
			case "vm.pc":
				if x.Tok == token.ADD_ASSIGN {
					var rel bool
					l, ok := a.linOf(x.Rhs[0], c01lin{}, &rel)
					if ok && !rel && l.coeff == 1 && l.c == 0 {
						for i := range ps {
							ps[i].pc = "jump:" + l.opnd
						}
						return ps
					}
				}
				panic(c01dynErr{"vm.pc " + x.Tok.String() + " " + c01exprStr(x.Rhs[0])})
			}
			// local := vm.sp ± lin
			if id, ok := x.Lhs[0].(*ast.Ident); ok && len(ps) > 0 {
				var rel bool
				l, ok := a.linOf(x.Rhs[0], ps[0].sp, &rel)
				same := true
				for _, p := range ps[1:] {
					if p.sp != ps[0].sp {
						same = false
					}
				}
				delete(a.locals, id.Name)
				delete(a.olocals, id.Name)
				if ok && rel && same {
					a.locals[id.Name] = l
				} else if ok && !rel && x.Tok != token.ADD_ASSIGN && x.Tok != token.SUB_ASSIGN {
					if a.olocals == nil {
						a.olocals = map[string]c01lin{}
					}
					a.olocals[id.Name] = l
				}
			}
		} else {
			for _, l := range x.Lhs {
				t := c01exprStr(l)
				if t == "vm.sp" || t == "vm.pc" {
					panic(c01dynErr{"tuple assignment to " + t})
				}
			}
		}
		for _, l := range x.Lhs {
			if _, ok := l.(*ast.Ident); !ok {
				ps = a.scanExpr(l, ps)
			}
		}
		return ps
	case *ast.DeclStmt, *ast.EmptyStmt:
		return a.scanExpr(s, ps)
	case *ast.ReturnStmt:
		for _, r := range x.Results {
			ps = a.scanExpr(r, ps)
		}
		for i := range ps {
			ps[i].ended = true
		}
		return ps
	case *ast.BlockStmt:
		return a.stmts(x.List, ps)
	case *ast.IfStmt:
		if x.Init != nil {
			ps = a.stmt(x.Init, ps)
		}
		ps = a.scanExpr(x.Cond, ps)
		l, done := c01live(ps)
		thenP := a.stmts(x.Body.List, c01clonePaths(l))
		var elseP []c01path
		if x.Else != nil {
			elseP = a.stmt(x.Else, c01clonePaths(l))
		} else {
			elseP = c01clonePaths(l)
		}
		return append(append(done, thenP...), elseP...)
	case *ast.SwitchStmt, *ast.TypeSwitchStmt:
		var body *ast.BlockStmt
		switch y := x.(type) {
		case *ast.SwitchStmt:
			if y.Init != nil {
				ps = a.stmt(y.Init, ps)
			}
			ps = a.scanExpr(y.Tag, ps)
			body = y.Body
		case *ast.TypeSwitchStmt:
			if y.Init != nil {
				ps = a.stmt(y.Init, ps)
			}
			ps = a.scanExpr(y.Assign, ps)
			body = y.Body
		}
		l, done := c01live(ps)
		out := done
		hasDefault := false
		clauses := body.List
		for ci := range clauses {
			cc := clauses[ci].(*ast.CaseClause)
			if cc.List == nil {
				hasDefault = true
			}
			cur := c01clonePaths(l)
			// follow fallthrough chains
			for k := ci; k < len(clauses); k++ {
				b := clauses[k].(*ast.CaseClause).Body
				ft := false
				if n := len(b); n > 0 {
					if br, ok := b[n-1].(*ast.BranchStmt); ok && br.Tok == token.FALLTHROUGH {
						ft = true
						b = b[:n-1]
					}
				}
				cur = a.stmts(b, cur)
				if !ft {
					break
				}
			}
			for i := range cur {
				cur[i].brk = false
			}
			out = append(out, cur...)
		}
		if !hasDefault {
			out = append(out, c01clonePaths(l)...)
		}
		return out
	case *ast.ForStmt, *ast.RangeStmt:
		// zero or more iterations: an iteration either leaves the loop (return / goto / break / throw) or falls
		// back to the loop head, in which case it must have left sp and pc as they were (loop invariant).
		var body *ast.BlockStmt
		switch y := x.(type) {
		case *ast.ForStmt:
			if y.Init != nil {
				ps = a.stmt(y.Init, ps)
			}
			if y.Cond != nil {
				ps = a.scanExpr(y.Cond, ps)
			}
			if y.Post != nil && c01mentionsSpPc(y.Post) {
				panic(c01dynErr{"loop post statement moves sp/pc"})
			}
			body = y.Body
		case *ast.RangeStmt:
			ps = a.scanExpr(y.X, ps)
			body = y.Body
		}
		out := c01clonePaths(ps)
		for _, p0 := range ps {
			for _, q := range a.stmts(body.List, []c01path{p0}) {
				switch {
				case q.ended || q.gto != "":
					out = append(out, q)
				case q.brk:
					q.brk = false
					out = append(out, q)
				default: // falls to the loop head (or continue)
					if q.sp != p0.sp || q.pc != p0.pc {
						panic(c01dynErr{"loop iteration moves sp/pc"})
					}
					if q.need != p0.need {
						q.cont = false
						out = append(out, q)
					}
				}
			}
		}
		return out
	case *ast.DeferStmt, *ast.GoStmt:
		panic(c01dynErr{"defer/go"})
	case *ast.BranchStmt:
		switch {
		case x.Tok == token.GOTO && x.Label != nil:
			for i := range ps {
				ps[i].gto = x.Label.Name
			}
		case x.Tok == token.BREAK && x.Label == nil:
			for i := range ps {
				ps[i].brk = true
			}
		case x.Tok == token.CONTINUE && x.Label == nil:
			for i := range ps {
				ps[i].cont = true
			}
		default:
			panic(c01dynErr{"branch statement " + x.Tok.String()})
		}
		return ps
	case *ast.LabeledStmt:
		panic(c01dynErr{"label"})
	default:
		if c01mentionsSpPc(s) {
			panic(c01dynErr{fmt.Sprintf("unhandled statement %T", s)})
		}
		return ps
	}
}

func (a *c01analyzer) applyHelper(fs string, h *c01helperSum, ps []c01path) []c01path {
	if h.dyn != "" {
		panic(c01dynErr{"helper " + fs + ": " + h.dyn})
	}
	var out []c01path
	for _, p := range ps {
		for _, hp := range h.paths {
			q := p
			if hp.throw {
				q.ended, q.throw = true, true
				out = append(out, q)
				continue
			}
			d, ok := c01linAdd(hp.need, p.sp, -1)
			if !ok {
				panic(c01dynErr{"helper need not linear"})
			}
			q.need = c01lmaxLoose(q.need, d)
			sp, ok := c01linAdd(q.sp, hp.sp, 1)
			if !ok {
				panic(c01dynErr{"helper delta not linear"})
			}
			q.sp = sp
			if hp.pc != "" {
				if q.pc != "" {
					panic(c01dynErr{"pc set twice"})
				}
				if hp.pc != "next" {
					panic(c01dynErr{"helper " + fs + " jumps"})
				}
				q.pc = hp.pc
			}
			// a helper that returned has NOT ended the caller
			out = append(out, q)
		}
	}
	// merge identical paths
	var res []c01path
	for _, q := range out {
		dup := false
		for _, r := range res {
			if r == q {
				dup = true
			}
		}
		if !dup {
			res = append(res, q)
		}
	}
	if len(res) > 64 {
		panic(c01dynErr{"too many paths"})
	}
	return res
}

// c01lmaxLoose: like lmax, but for incomparable forms keeps the one with the larger coefficient
// (exact for all operand values >= the crossing point; need is a best-effort syntactic bound).
func c01lmaxLoose(a, b c01lin) c01lin {
	if m, ok := c01lmax(a, b); ok {
		return m
	}
	if b.coeff > a.coeff {
		return b
	}
	return a
}

// helper summarises a function that receives vm: recvKind "vm" = method of *vm, "*" = any unique function or
// method with that name that has a parameter `vm *vm`.
func (a *c01analyzer) helper(recvKind, name string) *c01helperSum {
	key := recvKind + "." + name
	if h, ok := a.helpers[key]; ok {
		return h
	}
	var fd *ast.FuncDecl
	if recvKind == "vm" {
		fd = a.p.FuncDecl("vm", name)
	} else {
		n := 0
		for _, f := range a.p.Files {
			for _, d := range f.Decls {
				g, ok := d.(*ast.FuncDecl)
				if !ok || g.Name.Name != name || g.Body == nil {
					continue
				}
				for _, prm := range g.Type.Params.List {
					if c01exprStr(prm.Type) == "*vm" && len(prm.Names) == 1 && prm.Names[0].Name == "vm" {
						fd = g
						n++
					}
				}
			}
		}
		if n != 1 {
			return nil
		}
	}
	if fd == nil || fd.Body == nil {
		return nil
	}
	if a.inHelper[key] {
		// recursion: optimistic neutral summary; the outer analysis of the same body finds any real effect
		return &c01helperSum{paths: []c01path{{}}}
	}
	a.inHelper[key] = true
	defer delete(a.inHelper, key)
	sub := &c01analyzer{p: a.p, opnds: map[string]string{}, locals: map[string]c01lin{}, helpers: a.helpers, inHelper: a.inHelper}
	h := &c01helperSum{}
	func() {
		defer func() {
			if r := recover(); r != nil {
				if d, ok := r.(c01dynErr); ok {
					h.dyn = d.why
					return
				}
				panic(r)
			}
		}()
		for _, q := range sub.stmts(fd.Body.List, []c01path{{}}) {
			if q.gto != "" || q.brk || q.cont {
				panic(c01dynErr{"unresolved goto/break"})
			}
			q.ended = false
			h.paths = append(h.paths, q)
		}
	}()
	a.helpers[key] = h
	return h
}

type c01execSum struct {
	typ      string
	dyn      string
	need     c01lin
	paths    [][2]string // pc, sp (lean)
	canThrow bool
}

func c01recvInfo(fd *ast.FuncDecl) (typ, varName string) {
	if fd.Recv == nil || len(fd.Recv.List) != 1 {
		return "", ""
	}
	t := fd.Recv.List[0].Type
	if s, ok := t.(*ast.StarExpr); ok {
		t = s.X
	}
	if id, ok := t.(*ast.Ident); ok {
		typ = id.Name
	}
	if len(fd.Recv.List[0].Names) == 1 {
		varName = fd.Recv.List[0].Names[0].Name
	}
	return
}

func c01typeSpecOf(p *Pkg, name string) *ast.TypeSpec {
	for _, f := range p.Files {
		for _, d := range f.Decls {
			gd, ok := d.(*ast.GenDecl)
			if !ok || gd.Tok != token.TYPE {
				continue
			}
			for _, s := range gd.Specs {
				ts := s.(*ast.TypeSpec)
				if ts.Name.Name == name {
					return ts
				}
			}
		}
	}
	return nil
}

func c01leanIdent(s string) string {
	return "eff_" + strings.ReplaceAll(s, "_", "U")
}

func genC01(p *Pkg) (map[string]string, error) {
	vmf := p.Files["vm.go"]
	if vmf == nil {
		return nil, fmt.Errorf("vm.go not found")
	}
	helpers := map[string]*c01helperSum{}
	var sums []c01execSum
	for _, d := range vmf.Decls {
		fd, ok := d.(*ast.FuncDecl)
		if !ok || fd.Name.Name != "exec" || fd.Body == nil {
			continue
		}
		if len(fd.Type.Params.List) != 1 || c01exprStr(fd.Type.Params.List[0].Type) != "*vm" {
			continue
		}
		if len(fd.Type.Params.List[0].Names) != 1 || fd.Type.Params.List[0].Names[0].Name != "vm" {
			return nil, fmt.Errorf("exec parameter of %v is not named vm", fd.Recv.List[0].Type)
		}
		typ, rv := c01recvInfo(fd)
		if typ == "" {
			return nil, fmt.Errorf("exec with unrecognised receiver at %v", p.Fset.Position(fd.Pos()))
		}
		a := &c01analyzer{p: p, recv: rv, opnds: map[string]string{}, locals: map[string]c01lin{}, helpers: helpers, inHelper: map[string]bool{}}
		if ts := c01typeSpecOf(p, typ); ts != nil && rv != "" && rv != "_" {
			switch t := ts.Type.(type) {
			case *ast.Ident:
				switch t.Name {
				case "int", "int32", "int64", "uint32", "uint", "uint64", "uint8", "int8", "uint16", "int16":
					a.opnds[rv] = "n"
				}
			case *ast.StructType:
				var addFields func(st *ast.StructType)
				addFields = func(st *ast.StructType) {
					for _, f := range st.Fields.List {
						if len(f.Names) == 0 {
							// embedded struct: flatten (matches the dump)
							if id, ok := f.Type.(*ast.Ident); ok {
								if ets := c01typeSpecOf(p, id.Name); ets != nil {
									if est, ok := ets.Type.(*ast.StructType); ok {
										addFields(est)
									}
								}
							}
							continue
						}
						if id, ok := f.Type.(*ast.Ident); ok {
							switch id.Name {
							case "int", "int32", "int64", "uint32", "uint", "uint64":
								for _, n := range f.Names {
									a.opnds[rv+"."+n.Name] = n.Name
								}
							}
						}
					}
				}
				addFields(t)
			}
		}
		sum := c01execSum{typ: typ}
		func() {
			defer func() {
				if r := recover(); r != nil {
					if de, ok := r.(c01dynErr); ok {
						sum.dyn = de.why
						return
					}
					panic(r)
				}
			}()
			ps := a.stmts(fd.Body.List, []c01path{{}})
			seen := map[[2]string]bool{}
			need := c01lin{}
			for _, q := range ps {
				if q.throw {
					sum.canThrow = true
					continue
				}
				if q.gto != "" || q.brk || q.cont {
					panic(c01dynErr{"unresolved goto/break"})
				}
				if q.pc == "" {
					panic(c01dynErr{"a path leaves pc untouched"})
				}
				need = c01lmaxLoose(need, q.need)
				var pcs string
				if q.pc == "next" {
					pcs = ".next"
				} else {
					pcs = ".jumpOp " + LeanString(strings.TrimPrefix(q.pc, "jump:"))
				}
				k := [2]string{pcs, q.sp.lean()}
				if !seen[k] {
					seen[k] = true
					sum.paths = append(sum.paths, k)
				}
			}
			if len(sum.paths) == 0 && !sum.canThrow {
				panic(c01dynErr{"no path"})
			}
			sort.Slice(sum.paths, func(i, j int) bool {
				if sum.paths[i][0] != sum.paths[j][0] {
					return sum.paths[i][0] < sum.paths[j][0]
				}
				return sum.paths[i][1] < sum.paths[j][1]
			})
			sum.need = need
		}()
		sums = append(sums, sum)
	}
	if len(sums) < 200 {
		return nil, fmt.Errorf("only %d exec methods found in vm.go (expected > 200)", len(sums))
	}
	sort.Slice(sums, func(i, j int) bool { return sums[i].typ < sums[j].typ })

	var b strings.Builder
	b.WriteString("-- GENERATED by extract/c01.go from vm.go — do not edit\nimport GojaModel.C01.Model\nnamespace GojaModel.C01.Gen\nopen GojaModel.C01\n\n")
	ndyn := 0
	for _, s := range sums {
		if s.dyn != "" {
			ndyn++
			fmt.Fprintf(&b, "def %s : Eff := .dyn %s\n", c01leanIdent(s.typ), LeanString(s.dyn))
			continue
		}
		var ps []string
		for _, q := range s.paths {
			ps = append(ps, fmt.Sprintf("⟨%s, %s⟩", q[0], q[1]))
		}
		fmt.Fprintf(&b, "def %s : Eff := .paths %s [%s]\n", c01leanIdent(s.typ), s.need.lean(), strings.Join(ps, ", "))
	}
	b.WriteString("\ndef table : List (String × Eff) := [\n")
	for i, s := range sums {
		sep := ","
		if i == len(sums)-1 {
			sep = ""
		}
		fmt.Fprintf(&b, "  (%s, %s)%s\n", LeanString(s.typ), c01leanIdent(s.typ), sep)
	}
	b.WriteString("]\n\ndef dynNames : List String := [")
	first := true
	for _, s := range sums {
		if s.dyn != "" {
			if !first {
				b.WriteString(", ")
			}
			first = false
			b.WriteString(LeanString(s.typ))
		}
	}
	b.WriteString("]\n")
	fmt.Fprintf(&b, "\ndef numExec : Nat := %d\ndef numDyn : Nat := %d\n\nend GojaModel.C01.Gen\n", len(sums), ndyn)

	pk, err := genC01PanicKinds(p)
	if err != nil {
		return nil, err
	}
	sc, err := genC01Scope(p)
	if err != nil {
		return nil, err
	}
	stm, err := genC01Stmt(p)
	if err != nil {
		return nil, err
	}
	return map[string]string{"C01_StackEffects.lean": b.String(), "C01_PanicKinds.lean": pk, "C01_Scope.lean": sc,
		"C01_Stmt.lean": stm}, nil
}

// ---- panic payload classifier case lists ---------------------------------------------------------------

func c01typeSwitchCases(fd *ast.FuncDecl) ([]string, bool, error) {
	var ts *ast.TypeSwitchStmt
	ast.Inspect(fd.Body, func(n ast.Node) bool {
		if t, ok := n.(*ast.TypeSwitchStmt); ok && ts == nil {
			ts = t
		}
		return ts == nil
	})
	if ts == nil {
		return nil, false, fmt.Errorf("%s: no type switch", fd.Name.Name)
	}
	var cases []string
	hasDefault := false
	for _, c := range ts.Body.List {
		cc := c.(*ast.CaseClause)
		if cc.List == nil {
			hasDefault = true
			continue
		}
		for _, e := range cc.List {
			cases = append(cases, c01exprStr(e))
		}
	}
	return cases, hasDefault, nil
}

// c01recoverShape describes a `defer func(){ if x := recover(); x != nil { ... } }()` site: the names of the
// classifier calls / type cases it keeps, and whether the else/default branch re-panics with the same payload.
func c01recoverShape(fd *ast.FuncDecl) (keeps []string, repanics bool, err error) {
	found := false
	ast.Inspect(fd.Body, func(n ast.Node) bool {
		ds, ok := n.(*ast.DeferStmt)
		if !ok || found {
			return true
		}
		fl, ok := ds.Call.Fun.(*ast.FuncLit)
		if !ok {
			return true
		}
		hasRecover := false
		ast.Inspect(fl.Body, func(m ast.Node) bool {
			if c, ok := m.(*ast.CallExpr); ok && c01exprStr(c.Fun) == "recover" {
				hasRecover = true
			}
			return true
		})
		if !hasRecover {
			return true
		}
		found = true
		ast.Inspect(fl.Body, func(m ast.Node) bool {
			switch y := m.(type) {
			case *ast.CallExpr:
				f := c01exprStr(y.Fun)
				if f == "asUncatchableException" {
					keeps = append(keeps, "asUncatchableException")
				}
				if f == "panic" && len(y.Args) == 1 && c01exprStr(y.Args[0]) == "x" {
					repanics = true
				}
			case *ast.CaseClause:
				for _, e := range y.List {
					keeps = append(keeps, "case "+c01exprStr(e))
				}
			}
			return true
		})
		return false
	})
	if !found {
		return nil, false, fmt.Errorf("%s: no recover site", fd.Name.Name)
	}
	return
}

func c01leanStrList(xs []string) string {
	var q []string
	for _, x := range xs {
		q = append(q, LeanString(x))
	}
	return "[" + strings.Join(q, ", ") + "]"
}

func genC01PanicKinds(p *Pkg) (string, error) {
	var b strings.Builder
	b.WriteString("-- GENERATED by extract/c01.go from vm.go / runtime.go — do not edit\nnamespace GojaModel.C01.Gen\n\n")
	efv := p.FuncDecl("vm", "exceptionFromValue")
	if efv == nil {
		return "", fmt.Errorf("vm.exceptionFromValue not found")
	}
	cs, def, err := c01typeSwitchCases(efv)
	if err != nil {
		return "", err
	}
	// the default branch must return nil (payload not convertible)
	defNil := false
	ast.Inspect(efv.Body, func(n ast.Node) bool {
		if cc, ok := n.(*ast.CaseClause); ok && cc.List == nil {
			for _, st := range cc.Body {
				if r, ok := st.(*ast.ReturnStmt); ok && len(r.Results) == 1 && c01exprStr(r.Results[0]) == "nil" {
					defNil = true
				}
			}
		}
		return true
	})
	fmt.Fprintf(&b, "def exceptionFromValueCases : List String := %s\n", c01leanStrList(cs))
	fmt.Fprintf(&b, "def exceptionFromValueDefaultNil : Bool := %v\n", def && defNil)

	aue := p.FuncDecl("", "asUncatchableException")
	if aue == nil {
		return "", fmt.Errorf("asUncatchableException not found")
	}
	cs2, def2, err := c01typeSwitchCases(aue)
	if err != nil {
		return "", err
	}
	fmt.Fprintf(&b, "def asUncatchableCases : List String := %s\n", c01leanStrList(cs2))
	fmt.Fprintf(&b, "def asUncatchableHasDefault : Bool := %v\n", def2)

	// which concrete types embed baseUncatchableException
	var unc []string
	for _, f := range p.Files {
		for _, d := range f.Decls {
			gd, ok := d.(*ast.GenDecl)
			if !ok || gd.Tok != token.TYPE {
				continue
			}
			for _, s := range gd.Specs {
				ts := s.(*ast.TypeSpec)
				st, ok := ts.Type.(*ast.StructType)
				if !ok {
					continue
				}
				for _, fl := range st.Fields.List {
					if len(fl.Names) == 0 && c01exprStr(fl.Type) == "baseUncatchableException" {
						unc = append(unc, ts.Name.Name)
					}
				}
			}
		}
	}
	sort.Strings(unc)
	fmt.Fprintf(&b, "def uncatchableTypes : List String := %s\n", c01leanStrList(unc))

	for _, site := range [][2]string{{"Runtime", "RunProgram"}, {"Runtime", "runWrapped"}, {"", "compileAST"}} {
		fd := p.FuncDecl(site[0], site[1])
		if fd == nil {
			return "", fmt.Errorf("%s not found", site[1])
		}
		keeps, rep, err := c01recoverShape(fd)
		if err != nil {
			return "", err
		}
		fmt.Fprintf(&b, "def recover_%s : List String × Bool := (%s, %v)\n", site[1], c01leanStrList(keeps), rep)
	}
	// handleThrow: must end with `if ex == nil { panic(arg) }`
	ht := p.FuncDecl("vm", "handleThrow")
	if ht == nil {
		return "", fmt.Errorf("vm.handleThrow not found")
	}
	rep := false
	ast.Inspect(ht.Body, func(n ast.Node) bool {
		if is, ok := n.(*ast.IfStmt); ok && c01exprStr(is.Cond) == "ex==nil" {
			for _, st := range is.Body.List {
				if es, ok := st.(*ast.ExprStmt); ok && c01exprStr(es.X) == "panic(arg)" {
					rep = true
				}
			}
		}
		return true
	})
	fmt.Fprintf(&b, "def handleThrowRepanicsUnknown : Bool := %v\n", rep)

	// binding.emitSetP (compiler.go): inside `if b.isConst { if strict {throw} [else {emit(pop)}] ; return }`
	// does the non-throwing branch pop the assigned value?
	sp := p.FuncDecl("binding", "emitSetP")
	if sp == nil {
		return "", fmt.Errorf("binding.emitSetP not found")
	}
	pops, shape := false, false
	for _, st := range sp.Body.List {
		is, ok := st.(*ast.IfStmt)
		if !ok || c01exprStr(is.Cond) != "b.isConst" {
			continue
		}
		shape = true
		for _, st2 := range is.Body.List {
			in, ok := st2.(*ast.IfStmt)
			if !ok || in.Else == nil {
				continue
			}
			ast.Inspect(in.Else, func(n ast.Node) bool {
				if c, ok := n.(*ast.CallExpr); ok && strings.HasSuffix(c01exprStr(c.Fun), ".emit") && len(c.Args) == 1 && c01exprStr(c.Args[0]) == "pop" {
					pops = true
				}
				return true
			})
		}
	}
	if !shape {
		return "", fmt.Errorf("binding.emitSetP: `if b.isConst` not found")
	}
	fmt.Fprintf(&b, "def setPPopsSloppyConst : Bool := %v\n", pops)

	// enterFinally.exec (vm.go): which fields of the try frame it sets to -1
	ef := p.FuncDecl("enterFinally", "exec")
	if ef == nil {
		return "", fmt.Errorf("enterFinally.exec not found")
	}
	var cleared []string
	ast.Inspect(ef.Body, func(n ast.Node) bool {
		if as, ok := n.(*ast.AssignStmt); ok && len(as.Lhs) == 1 && len(as.Rhs) == 1 && c01exprStr(as.Rhs[0]) == "-1" {
			if l := c01exprStr(as.Lhs[0]); strings.HasPrefix(l, "tf.") {
				cleared = append(cleared, strings.TrimPrefix(l, "tf."))
			}
		}
		return true
	})
	sort.Strings(cleared)
	fmt.Fprintf(&b, "def enterFinallyClears : List String := %s\n", c01leanStrList(cleared))
	b.WriteString("\nend GojaModel.C01.Gen\n")
	return b.String(), nil
}

// ---- scope analysis: who owns a stash (decision structure of scope.hasStash and of the run-time side) ----------

var c01scopeAtoms = map[string]string{
	"s.dynamic":            "dynamic",
	"s.dynLookup":          "dynLookup",
	"s.funcType!=funcNone": "isFuncType",
	"s.outer==nil":         "outerNil",
	"s.variable":           "isVarScope",
	"len(s.bindings)>0":    "hasBindings",
	"s.needStash":          "needStash",
	"s.argsInStash":        "argsInStash",
	"b.inStash":            "anyInStash",
	"true":                 "true",
	"false":                "false",
}

func c01boolExpr(e ast.Expr) (string, error) {
	switch x := e.(type) {
	case *ast.ParenExpr:
		return c01boolExpr(x.X)
	case *ast.BinaryExpr:
		if x.Op == token.LOR || x.Op == token.LAND {
			l, err := c01boolExpr(x.X)
			if err != nil {
				return "", err
			}
			r, err := c01boolExpr(x.Y)
			if err != nil {
				return "", err
			}
			op := "||"
			if x.Op == token.LAND {
				op = "&&"
			}
			return "(" + l + " " + op + " " + r + ")", nil
		}
	case *ast.UnaryExpr:
		if x.Op == token.NOT {
			in, err := c01boolExpr(x.X)
			if err != nil {
				return "", err
			}
			return "(!" + in + ")", nil
		}
	}
	if a, ok := c01scopeAtoms[c01exprStr(e)]; ok {
		return a, nil
	}
	return "", fmt.Errorf("hasStash: condition %s is outside the translatable subset", c01exprStr(e))
}

// c01boolStmts translates `if c { … }` / `return e` / `for _, b := range s.bindings { if b.inStash { return true } }`
// sequences into one Lean Bool expression; k is the value when control falls off the end of the list.
func c01boolStmts(list []ast.Stmt, k string) (string, error) {
	if len(list) == 0 {
		return k, nil
	}
	rest := func() (string, error) { return c01boolStmts(list[1:], k) }
	switch x := list[0].(type) {
	case *ast.ReturnStmt:
		if len(x.Results) != 1 {
			return "", fmt.Errorf("hasStash: return without a value")
		}
		return c01boolExpr(x.Results[0])
	case *ast.IfStmt:
		if x.Init != nil || x.Else != nil {
			return "", fmt.Errorf("hasStash: if with init/else")
		}
		c, err := c01boolExpr(x.Cond)
		if err != nil {
			return "", err
		}
		r, err := rest()
		if err != nil {
			return "", err
		}
		th, err := c01boolStmts(x.Body.List, r)
		if err != nil {
			return "", err
		}
		return "(if " + c + " then " + th + " else " + r + ")", nil
	case *ast.RangeStmt:
		if c01exprStr(x.X) != "s.bindings" {
			return "", fmt.Errorf("hasStash: range over %s", c01exprStr(x.X))
		}
		r, err := rest()
		if err != nil {
			return "", err
		}
		// the body must be exactly: if b.inStash { return true }
		if len(x.Body.List) == 1 {
			if is, ok := x.Body.List[0].(*ast.IfStmt); ok && c01exprStr(is.Cond) == "b.inStash" && len(is.Body.List) == 1 {
				if rs, ok := is.Body.List[0].(*ast.ReturnStmt); ok && len(rs.Results) == 1 && c01exprStr(rs.Results[0]) == "true" {
					return "(if anyInStash then true else " + r + ")", nil
				}
			}
		}
		return "", fmt.Errorf("hasStash: unexpected loop body")
	}
	return "", fmt.Errorf("hasStash: statement %T is outside the translatable subset", list[0])
}

func c01firstIfCond(fd *ast.FuncDecl, contains string) string {
	res := ""
	ast.Inspect(fd.Body, func(n ast.Node) bool {
		if is, ok := n.(*ast.IfStmt); ok && res == "" {
			if c := c01exprStr(is.Cond); strings.Contains(c, contains) {
				res = c
			}
		}
		return res == ""
	})
	return res
}

func genC01Scope(p *Pkg) (string, error) {
	var b strings.Builder
	b.WriteString("-- GENERATED by extract/c01.go from compiler.go / compiler_stmt.go / compiler_expr.go / vm.go — do not edit\nnamespace GojaModel.C01.Gen\n\n")
	hs := p.FuncDecl("scope", "hasStash")
	if hs == nil {
		return "", fmt.Errorf("scope.hasStash not found")
	}
	body, err := c01boolStmts(hs.Body.List, "false")
	if err != nil {
		return "", err
	}
	b.WriteString("/-- scope.hasStash, translated statement by statement -/\n")
	b.WriteString("def hasStashGen (dynamic dynLookup isFuncType outerNil isVarScope hasBindings needStash argsInStash anyInStash : Bool) : Bool :=\n  " + body + "\n\n")
	// the level loops of finaliseVarAlloc must use hasStash
	fva := p.FuncDecl("scope", "finaliseVarAlloc")
	if fva == nil {
		return "", fmt.Errorf("scope.finaliseVarAlloc not found")
	}
	var levelConds []string
	ast.Inspect(fva.Body, func(n ast.Node) bool {
		if fs, ok := n.(*ast.ForStmt); ok && fs.Init != nil && strings.HasPrefix(c01exprStr(fs.Cond), "sc!=nil") {
			for _, st := range fs.Body.List {
				if is, ok := st.(*ast.IfStmt); ok {
					levelConds = append(levelConds, c01exprStr(is.Cond))
				}
			}
		}
		return true
	})
	fmt.Fprintf(&b, "def levelLoopConds : List String := %s\n", c01leanStrList(levelConds))
	// run-time side
	eb := p.FuncDecl("enterBlock", "exec")
	efb := p.FuncDecl("enterFuncBody", "exec")
	ueb := p.FuncDecl("compiler", "updateEnterBlock")
	cfl := p.FuncDecl("compiledFunctionLiteral", "compile")
	cfs := p.FuncDecl("compiledClassLiteral", "compileFieldsAndStaticBlocks")
	if eb == nil || efb == nil || ueb == nil || cfl == nil || cfs == nil {
		return "", fmt.Errorf("enterBlock.exec / enterFuncBody.exec / updateEnterBlock / compile / compileFieldsAndStaticBlocks not found")
	}
	fmt.Fprintf(&b, "def enterBlockStashCond : String := %s\n", LeanString(c01firstIfCond(eb, "stashSize")))
	fmt.Fprintf(&b, "def enterFuncBodyStashCond : String := %s\n", LeanString(c01firstIfCond(efb, "stashSize")))
	fmt.Fprintf(&b, "def funcEnterStashCond : String := %s\n", LeanString(c01firstIfCond(cfl, "stashSize>0")))
	fmt.Fprintf(&b, "def clsInitEnterStashCond : String := %s\n", LeanString(c01firstIfCond(cfs, "stashSize>0")))
	// updateEnterBlock: `if scope.dynLookup { stashSize = len(scope.bindings) … } else { for … if b.inStash { stashSize++ } … }`
	shape := ""
	for _, st := range ueb.Body.List {
		if is, ok := st.(*ast.IfStmt); ok && c01exprStr(is.Cond) == "scope.dynLookup" {
			for _, t := range is.Body.List {
				if as, ok := t.(*ast.AssignStmt); ok && len(as.Lhs) == 1 && c01exprStr(as.Lhs[0]) == "stashSize" {
					shape = "dynLookup:" + c01exprStr(as.Rhs[0])
				}
			}
			if el, ok := is.Else.(*ast.BlockStmt); ok {
				ast.Inspect(el, func(n ast.Node) bool {
					if i2, ok := n.(*ast.IfStmt); ok && c01exprStr(i2.Cond) == "b.inStash" {
						for _, t := range i2.Body.List {
							if id, ok := t.(*ast.IncDecStmt); ok && c01exprStr(id.X) == "stashSize" {
								shape += ";else:count(b.inStash)"
							}
						}
					}
					return true
				})
			}
		}
	}
	fmt.Fprintf(&b, "def updateEnterBlockShape : String := %s\n", LeanString(shape))
	// frame-slot addressing: every function of vm.go that indexes vm.stack relative to vm.sb beyond the fixed slots
	// stack[sb] (this) and stack[sb-1] (callee)
	var sites []string
	for _, f := range p.Files {
		for _, d := range f.Decls {
			fd, ok := d.(*ast.FuncDecl)
			if !ok || fd.Body == nil {
				continue
			}
			recv, _ := c01recvInfo(fd)
			ast.Inspect(fd.Body, func(n ast.Node) bool {
				ix, ok := n.(*ast.IndexExpr)
				if !ok || c01exprStr(ix.X) != "vm.stack" {
					return true
				}
				is := c01exprStr(ix.Index)
				if strings.HasPrefix(is, "vm.sb+") || (strings.HasPrefix(is, "vm.sb-") && is != "vm.sb-1") {
					sites = append(sites, recv+"."+fd.Name.Name+":"+is)
				}
				return true
			})
		}
	}
	sort.Strings(sites)
	fmt.Fprintf(&b, "def slotAccessSites : List String := %s\n", c01leanStrList(sites))
	b.WriteString("\nend GojaModel.C01.Gen\n")
	return b.String(), nil
}

// ---- statement compilation: decision + emission skeletons ------------------------------------------------
//
// For each statement-compiling method the model transcribes, the skeleton keeps the control structure (conditions of
// if statements, loops, gotos, returns) and, in source order, the calls that emit code or compile a sub-statement;
// everything else (bookkeeping assignments, block push/pop, source maps) is dropped.

var c01skelCalls = map[string]bool{"emit": true, "emitThrow": true, "emitGetter": true, "emitExpr": true, "emitConst": true,
	"emitNamedOrConst": true, "emitNamed": true, "emitVarRef": true, "emitInitP": true, "compileStatement": true,
	"compileStatementDummy": true, "compileIfBody": true, "compileIfBodyDummy": true, "compileStatements": true,
	"compileStatementsNeedResult": true, "enterDummyMode": true, "compileVarBinding": true, "compileForHeadLexDecl": true,
	"compileFunction": true, "throwSyntaxError": true, "leave": true, "compileBlockStatement": true}

// decision variables whose assignments belong to the skeleton
var c01skelVars = map[string]bool{"lastProducingIdx": true, "needResult": true, "breakingBlock": true, "testTrue": true, "testConst": true,
	"bodyNeedResult": true}

func c01skelCallsIn(n ast.Node) string {
	out := ""
	ast.Inspect(n, func(m ast.Node) bool {
		if _, ok := m.(*ast.FuncLit); ok {
			return false
		}
		if ce, ok := m.(*ast.CallExpr); ok {
			name := ""
			switch f := ce.Fun.(type) {
			case *ast.SelectorExpr:
				name = f.Sel.Name
			case *ast.Ident:
				name = f.Name
			}
			if c01skelCalls[name] {
				out += c01exprStr(ce) + ";"
				return false
			}
		}
		return true
	})
	return out
}

// c01outsideFragment: conditions that guard code for constructs the statement model does not cover (break/continue
// bookkeeping, function/lexical declarations, per-iteration bindings, try / for-in/of unwinding in `return`, class
// constructors). Those sub-trees are not part of the pinned skeleton: an edit there does not concern the model.
func c01outsideFragment(cond string) bool {
	if cond == "ok" || strings.HasPrefix(cond, "ok&&") {
		return true // result of a type assertion on *ast.FunctionDeclaration / *ast.BranchStatement
	}
	for _, m := range []string{"enterIterBlock", "funcDerivedCtor", "funcClsInit", "leave==nil", "bs!=nil", "blk!=nil", "!c.scope.strict"} {
		if strings.Contains(cond, m) {
			return true
		}
	}
	return false
}

func c01skel(list []ast.Stmt) string {
	out := ""
	for _, st := range list {
		switch x := st.(type) {
		case *ast.IfStmt:
			if c01exprStr(x.Cond) == "v.Catch.Parameter!=nil" {
				// the catch parameter (a block scope) is outside the model; the parameter-less form is the else branch
				if x.Else != nil {
					out += "else(" + c01exprStr(x.Cond) + "){" + c01skel([]ast.Stmt{x.Else}) + "}"
				}
				continue
			}
			if c01outsideFragment(c01exprStr(x.Cond)) {
				continue
			}
			body := c01skel(x.Body.List)
			els := ""
			if x.Else != nil {
				els = c01skel([]ast.Stmt{x.Else})
			}
			if body != "" || els != "" {
				out += "if(" + c01exprStr(x.Cond) + "){" + body + "}"
				if els != "" {
					out += "else{" + els + "}"
				}
			}
		case *ast.BlockStmt:
			out += c01skel(x.List)
		case *ast.ForStmt:
			if x.Cond != nil && c01outsideFragment(c01exprStr(x.Cond)) {
				continue
			}
			if b := c01skel(x.Body.List); b != "" {
				out += "for{" + b + "}"
			}
		case *ast.RangeStmt:
			if b := c01skel(x.Body.List); b != "" {
				out += "range(" + c01exprStr(x.X) + "){" + b + "}"
			}
		case *ast.BranchStmt:
			if x.Label != nil {
				out += x.Tok.String() + " " + x.Label.Name + ";"
			} else {
				out += x.Tok.String() + ";"
			}
		case *ast.ReturnStmt:
			out += "return;"
		case *ast.LabeledStmt:
			out += x.Label.Name + ":" + c01skel([]ast.Stmt{x.Stmt})
		case *ast.SwitchStmt:
			inner := ""
			for _, c := range x.Body.List {
				cc := c.(*ast.CaseClause)
				if b := c01skel(cc.Body); b != "" {
					ls := []string{}
					for _, e := range cc.List {
						ls = append(ls, c01exprStr(e))
					}
					j := strings.Join(ls, ",")
					if strings.Contains(j, "blockIterScope") || strings.Contains(j, "blockScope") || strings.Contains(j, "blockWith") || strings.Contains(j, "blockLoopEnum") {
						continue // exit code of block kinds outside the model
					}
					inner += "case(" + j + "){" + b + "}"
				}
			}
			if inner != "" {
				out += "switch{" + inner + "}"
			}
		case *ast.TypeSwitchStmt:
			inner := ""
			for _, c := range x.Body.List {
				cc := c.(*ast.CaseClause)
				if b := c01skel(cc.Body); b != "" {
					ls := []string{}
					for _, e := range cc.List {
						ls = append(ls, c01exprStr(e))
					}
					if j := strings.Join(ls, ","); strings.Contains(j, "LexicalDecl") {
						continue // for-loop heads with lexical declarations: outside the model
					}
					inner += "case(" + strings.Join(ls, ",") + "){" + b + "}"
				}
			}
			if inner != "" {
				out += "typeswitch{" + inner + "}"
			}
		case *ast.AssignStmt:
			// patching a placeholder: c.p.code[j] = jneP(...)
			if len(x.Lhs) == 1 && strings.HasPrefix(c01exprStr(x.Lhs[0]), "c.p.code[") && len(x.Rhs) == 1 {
				out += "patch " + c01exprStr(x.Rhs[0]) + ";"
			} else if id, ok := x.Lhs[0].(*ast.Ident); ok && len(x.Lhs) == 1 && len(x.Rhs) == 1 && c01skelVars[id.Name] {
				out += "set " + id.Name + "=" + c01exprStr(x.Rhs[0]) + ";"
			} else {
				out += c01skelCallsIn(x)
			}
		case *ast.DeferStmt:
			// deferred bookkeeping (leaving dummy mode) does not emit
		default:
			out += c01skelCallsIn(st)
		}
	}
	return out
}

func genC01Stmt(p *Pkg) (string, error) {
	var b strings.Builder
	b.WriteString("-- GENERATED by extract/c01.go from compiler_stmt.go — do not edit\nnamespace GojaModel.C01.Gen\n\n")
	names := []string{"compileExpressionStatement", "compileEmptyStatement", "compileIfStatement", "compileIfBody",
		"compileLabeledWhileStatement", "compileLabeledDoWhileStatement", "compileLabeledForStatement", "compileReturnStatement",
		"compileThrowStatement", "emitVarAssign", "compileStatements", "compileStatementsNeedResult", "scanStatements",
		"compileTryStatement", "emitBlockExitCode", "compileBreak", "compileContinue", "leaveBlock"}
	for _, n := range names {
		fd := p.FuncDecl("compiler", n)
		if fd == nil {
			return "", fmt.Errorf("compiler.%s not found", n)
		}
		fmt.Fprintf(&b, "def skel_%s : String := %s\n", n, LeanString(c01skel(fd.Body.List)))
	}
	ier := p.FuncDecl("compiler", "isEmptyResult")
	if ier == nil {
		return "", fmt.Errorf("compiler.isEmptyResult not found")
	}
	cases, hasDefault, err := c01typeSwitchCases(ier)
	if err != nil {
		return "", err
	}
	fmt.Fprintf(&b, "def isEmptyResultCases : List String := %s\ndef isEmptyResultHasDefault : Bool := %v\n",
		c01leanStrList(cases), hasDefault)
	b.WriteString("\nend GojaModel.C01.Gen\n")
	return b.String(), nil
}
