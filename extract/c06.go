package main

// C06: every raw conversion site `unicodeString(e)` / `asciiString(e)` / `make(unicodeString, …)` in the non-test
// files of package goja, with its file, enclosing function and argument text, plus the eager-scan threshold of
// Runtime.ToValue(string).  Emitted as Lean data (GojaModel/Generated/C06_Sites.lean); compared with the
// hand-reviewed expectation in GojaModel/C06/Tie.lean.  A new raw conversion site therefore breaks the tie.

import (
	"bytes"
	"fmt"
	"go/ast"
	"go/parser"
	"go/printer"
	"go/token"
	"path/filepath"
	"sort"
	"strconv"
	"strings"
)

// c06ScanShape extracts, from unistring.Scan (unistring/string.go), the comparison that decides in the COUNTING pass
// whether a rune takes two UTF-16 units (`if chr > 0xFFFF { utf16Size++ }`) and the one that decides in the FILL pass
// whether it is stored as one unit (`if chr <= 0xFFFF { buf[c] = uint16(chr) } else { EncodeRune }`), each as
// (operator, constant).  Any other shape is an error.
func c06ScanShape(dir string) (countOp string, countC int, fillOp string, fillC int, err error) {
	fset := token.NewFileSet()
	f, e := parser.ParseFile(fset, filepath.Join(dir, "unistring", "string.go"), nil, 0)
	if e != nil {
		return "", 0, "", 0, e
	}
	var scan *ast.FuncDecl
	for _, d := range f.Decls {
		if fd, ok := d.(*ast.FuncDecl); ok && fd.Recv == nil && fd.Name.Name == "Scan" {
			scan = fd
		}
	}
	if scan == nil {
		return "", 0, "", 0, fmt.Errorf("unistring.Scan not found")
	}
	type cmp struct {
		op   string
		c    int
		kind string
	}
	var found []cmp
	ast.Inspect(scan, func(n ast.Node) bool {
		rs, ok := n.(*ast.RangeStmt)
		if !ok {
			return true
		}
		for _, st := range rs.Body.List {
			ifs, ok := st.(*ast.IfStmt)
			if !ok {
				continue
			}
			be, ok := ifs.Cond.(*ast.BinaryExpr)
			if !ok {
				continue
			}
			x, ok1 := be.X.(*ast.Ident)
			y, ok2 := be.Y.(*ast.BasicLit)
			if !ok1 || !ok2 || x.Name != "chr" {
				continue
			}
			v, e := strconv.ParseInt(y.Value, 0, 64)
			if e != nil {
				continue
			}
			kind := "count"
			if ifs.Else != nil {
				kind = "fill"
			}
			found = append(found, cmp{be.Op.String(), int(v), kind})
		}
		return true
	})
	if len(found) != 2 || found[0].kind != "count" || found[1].kind != "fill" {
		return "", 0, "", 0, fmt.Errorf("unistring.Scan: expected a counting range loop with `if chr OP C {…}` followed by a fill range loop with `if chr OP C {…} else {…}`, found %v", found)
	}
	return found[0].op, found[0].c, found[1].op, found[1].c, nil
}

func init() { Register("C06", genC06) }

// c06Skeleton renders the decision structure of a function body: conditions, loop headers, returns, gotos/labels and
// assignments, in source order, one normalised line each (declarations, comments and blank lines do not appear).
func c06Skeleton(fset *token.FileSet, body *ast.BlockStmt) []string {
	var out []string
	var walk func(st ast.Stmt, ind string)
	block := func(b *ast.BlockStmt, ind string) {
		for _, st := range b.List {
			walk(st, ind)
		}
	}
	walk = func(st ast.Stmt, ind string) {
		switch x := st.(type) {
		case *ast.IfStmt:
			hdr := "if "
			if x.Init != nil {
				hdr += c06NodeText(fset, x.Init) + "; "
			}
			out = append(out, ind+hdr+c06ExprText(fset, x.Cond)+" {")
			block(x.Body, ind+"  ")
			if x.Else != nil {
				out = append(out, ind+"} else {")
				if eb, ok := x.Else.(*ast.BlockStmt); ok {
					block(eb, ind+"  ")
				} else {
					walk(x.Else, ind+"  ")
				}
			}
			out = append(out, ind+"}")
		case *ast.ForStmt:
			hdr := "for "
			if x.Init != nil {
				hdr += c06NodeText(fset, x.Init)
			}
			hdr += "; "
			if x.Cond != nil {
				hdr += c06ExprText(fset, x.Cond)
			}
			hdr += "; "
			if x.Post != nil {
				hdr += c06NodeText(fset, x.Post)
			}
			out = append(out, ind+hdr+" {")
			block(x.Body, ind+"  ")
			out = append(out, ind+"}")
		case *ast.RangeStmt:
			k, v := "_", "_"
			if x.Key != nil {
				k = c06ExprText(fset, x.Key)
			}
			if x.Value != nil {
				v = c06ExprText(fset, x.Value)
			}
			out = append(out, ind+"for "+k+", "+v+" := range "+c06ExprText(fset, x.X)+" {")
			block(x.Body, ind+"  ")
			out = append(out, ind+"}")
		case *ast.BlockStmt:
			block(x, ind)
		case *ast.LabeledStmt:
			out = append(out, ind+x.Label.Name+":")
			walk(x.Stmt, ind)
		case *ast.DeclStmt:
			// declarations carry no decision
		case *ast.EmptyStmt:
		default:
			out = append(out, ind+c06NodeText(fset, st))
		}
	}
	block(body, "")
	return out
}

func c06NodeText(fset *token.FileSet, n ast.Node) string {
	var b bytes.Buffer
	_ = printer.Fprint(&b, fset, n)
	return strings.Join(strings.Fields(b.String()), " ")
}

func c06RenderStrings(name string, l []string) string {
	var b strings.Builder
	fmt.Fprintf(&b, "def %s : List String := [\n", name)
	for i, s := range l {
		sep := ","
		if i == len(l)-1 {
			sep = ""
		}
		fmt.Fprintf(&b, "  %s%s\n", LeanString(s), sep)
	}
	b.WriteString("]\n\n")
	return b.String()
}

type c06Site struct{ file, fn, arg string }

func c06ExprText(fset *token.FileSet, e ast.Expr) string {
	var b bytes.Buffer
	_ = printer.Fprint(&b, fset, e)
	return strings.Join(strings.Fields(b.String()), " ")
}

func c06FuncName(fd *ast.FuncDecl) string {
	if fd.Recv != nil && len(fd.Recv.List) == 1 {
		t := fd.Recv.List[0].Type
		if s, ok := t.(*ast.StarExpr); ok {
			t = s.X
		}
		if id, ok := t.(*ast.Ident); ok {
			return id.Name + "." + fd.Name.Name
		}
	}
	return fd.Name.Name
}

func c06ScanSkeleton(dir string) ([]string, error) {
	fset := token.NewFileSet()
	f, e := parser.ParseFile(fset, filepath.Join(dir, "unistring", "string.go"), nil, 0)
	if e != nil {
		return nil, e
	}
	for _, d := range f.Decls {
		if fd, ok := d.(*ast.FuncDecl); ok && fd.Recv == nil && fd.Name.Name == "Scan" && fd.Body != nil {
			return c06Skeleton(fset, fd.Body), nil
		}
	}
	return nil, fmt.Errorf("unistring.Scan not found")
}

func genC06(p *Pkg) (map[string]string, error) {
	var uni, asc []c06Site
	var mk []c06Site
	litCount, litAllASCII := 0, true
	threshold := -1

	names := make([]string, 0, len(p.Files))
	for n := range p.Files {
		names = append(names, n)
	}
	sort.Strings(names)
	for _, fname := range names {
		f := p.Files[fname]
		for _, d := range f.Decls {
			fn := "<package-level>"
			if fd, ok := d.(*ast.FuncDecl); ok {
				fn = c06FuncName(fd)
			}
			ast.Inspect(d, func(n ast.Node) bool {
				ce, ok := n.(*ast.CallExpr)
				if !ok {
					return true
				}
				id, ok := ce.Fun.(*ast.Ident)
				if !ok {
					return true
				}
				switch id.Name {
				case "unicodeString":
					if len(ce.Args) == 1 {
						uni = append(uni, c06Site{fname, fn, c06ExprText(p.Fset, ce.Args[0])})
					}
				case "asciiString":
					if len(ce.Args) == 1 {
						if bl, ok := ce.Args[0].(*ast.BasicLit); ok && bl.Kind == token.STRING {
							litCount++
							s, err := strconv.Unquote(bl.Value)
							if err != nil {
								litAllASCII = false
							}
							for i := 0; i < len(s); i++ {
								if s[i] >= 0x80 {
									litAllASCII = false
								}
							}
						} else {
							asc = append(asc, c06Site{fname, fn, c06ExprText(p.Fset, ce.Args[0])})
						}
					}
				case "make":
					if len(ce.Args) >= 1 {
						if t, ok := ce.Args[0].(*ast.Ident); ok && t.Name == "unicodeString" {
							mk = append(mk, c06Site{fname, fn, c06ExprText(p.Fset, ce.Args[1])})
						}
					}
				}
				return true
			})
		}
	}

	// threshold: Runtime.toValue (called by ToValue), `case string:` -> `if len(i) <= N {`
	if fd := p.FuncDecl("Runtime", "toValue"); fd != nil {
		ast.Inspect(fd, func(n ast.Node) bool {
			cc, ok := n.(*ast.CaseClause)
			if !ok || len(cc.List) != 1 {
				return true
			}
			if id, ok := cc.List[0].(*ast.Ident); !ok || id.Name != "string" {
				return true
			}
			if len(cc.Body) == 0 {
				return false
			}
			ifs, ok := cc.Body[0].(*ast.IfStmt)
			if !ok {
				return false
			}
			be, ok := ifs.Cond.(*ast.BinaryExpr)
			if !ok || be.Op != token.LEQ {
				return false
			}
			if c06ExprText(p.Fset, be.X) != "len(i)" {
				return false
			}
			if bl, ok := be.Y.(*ast.BasicLit); ok && bl.Kind == token.INT {
				if v, err := strconv.Atoi(bl.Value); err == nil {
					threshold = v
				}
			}
			return false
		})
	}
	if threshold < 0 {
		return nil, fmt.Errorf("Runtime.toValue: `case string: if len(i) <= N` not found")
	}
	cOp, cC, fOp, fC, err := c06ScanShape(p.Dir)
	if err != nil {
		return nil, err
	}
	scanSk, err := c06ScanSkeleton(p.Dir)
	if err != nil {
		return nil, err
	}
	decFd := p.FuncDecl("lenientUtf16Decoder", "ReadRune")
	if decFd == nil || decFd.Body == nil {
		return nil, fmt.Errorf("lenientUtf16Decoder.ReadRune not found")
	}
	decSk := c06Skeleton(p.Fset, decFd.Body)
	if len(uni) == 0 || len(asc) == 0 {
		return nil, fmt.Errorf("no conversion sites found (package not parsed?)")
	}

	render := func(name string, l []c06Site) string {
		var b strings.Builder
		fmt.Fprintf(&b, "def %s : List (String × String × String) := [\n", name)
		for i, s := range l {
			sep := ","
			if i == len(l)-1 {
				sep = ""
			}
			fmt.Fprintf(&b, "  (%s, %s, %s)%s\n", LeanString(s.file), LeanString(s.fn), LeanString(s.arg), sep)
		}
		b.WriteString("]\n\n")
		return b.String()
	}
	var b strings.Builder
	b.WriteString("-- GENERATED by extract/c06.go from the Go sources; do not edit.\n")
	b.WriteString("namespace GojaModel.Generated.C06\n\n")
	b.WriteString(render("uniSites", uni))
	b.WriteString(render("asciiSites", asc))
	b.WriteString(render("makeUniSites", mk))
	fmt.Fprintf(&b, "def asciiLiteralCount : Nat := %d\n\n", litCount)
	fmt.Fprintf(&b, "def asciiLiteralsAllAscii : Bool := %v\n\n", litAllASCII)
	fmt.Fprintf(&b, "def toValueEagerMax : Nat := %d\n\n", threshold)
	fmt.Fprintf(&b, "/-- unistring.Scan: (operator, constant) of the two-unit test in the counting pass and of the one-unit test in the fill pass -/\n")
	fmt.Fprintf(&b, "def scanCountTest : String × Nat := (%s, %d)\n\n", LeanString(cOp), cC)
	fmt.Fprintf(&b, "def scanFillTest : String × Nat := (%s, %d)\n\n", LeanString(fOp), fC)
	b.WriteString("/-- decision structure of lenientUtf16Decoder.ReadRune (string_unicode.go) -/\n")
	b.WriteString(c06RenderStrings("decoderSkeleton", decSk))
	b.WriteString("/-- decision structure of unistring.Scan (unistring/string.go) -/\n")
	b.WriteString(c06RenderStrings("scanSkeleton", scanSk))
	// decision structure of the String built-ins that Builtins.lean transcribes
	type fnRef struct{ recv, name string }
	bfs := []fnRef{{"Runtime", "stringproto_slice"}, {"Runtime", "stringproto_substring"}, {"Runtime", "stringproto_substr"},
		{"Runtime", "stringproto_at"}, {"Runtime", "stringproto_charAt"}, {"Runtime", "_stringPad"}, {"Runtime", "stringproto_repeat"},
		{"Runtime", "string_fromcharcode"}, {"Runtime", "string_fromcodepoint"}, {"", "writeSubstitution"},
		{"Runtime", "stringReplace"}, {"Runtime", "stringproto_replace"}, {"Runtime", "stringproto_replaceAll"}, {"Runtime", "stringproto_concat"},
		{"", "isWhitespaceUnit"}, {"", "trimString"}, {"Runtime", "string_raw"},
		{"Runtime", "stringproto_split"}, {"Runtime", "arrayproto_join"}}
	b.WriteString("def builtinSkeletons : List (String × List String) := [\n")
	for i, fr := range bfs {
		fd := p.FuncDecl(fr.recv, fr.name)
		if fd == nil || fd.Body == nil {
			return nil, fmt.Errorf("%s not found", fr.name)
		}
		sk := c06Skeleton(p.Fset, fd.Body)
		b.WriteString("  (" + LeanString(fr.name) + ", [\n")
		for j, l := range sk {
			sep := ","
			if j == len(sk)-1 {
				sep = ""
			}
			b.WriteString("    " + LeanString(l) + sep + "\n")
		}
		if i == len(bfs)-1 {
			b.WriteString("  ])\n")
		} else {
			b.WriteString("  ]),\n")
		}
	}
	b.WriteString("]\n\n")
	b.WriteString("end GojaModel.Generated.C06\n")
	return map[string]string{"C06_Sites.lean": b.String()}, nil
}
