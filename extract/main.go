// verifextract: regenerates Lean facts from /repo's Go sources (go/parser, go/ast only).
//
//	extract -repo /repo -out /verif/lean/GojaModel/Generated -only C05
//
// Each property registers its generators in an init() in its own file (cNN.go) with Register.
// A generator receives the parsed package and returns the Lean files it wants written
// (file name -> contents).  File names must start with "<PROP>_".  A generator that meets Go code
// outside the shapes it understands must return an error ("tie not regenerable"), never guess.
package main

import (
	"flag"
	"fmt"
	"go/ast"
	"go/parser"
	"go/token"
	"os"
	"path/filepath"
	"sort"
	"strings"
)

type Pkg struct {
	Fset  *token.FileSet
	Files map[string]*ast.File // base file name -> AST (non-test files of the root package)
	Dir   string
}

type Generator func(p *Pkg) (map[string]string, error)

var registry = map[string][]Generator{}

func Register(prop string, g Generator) { registry[prop] = append(registry[prop], g) }

func load(dir string) (*Pkg, error) {
	fset := token.NewFileSet()
	p := &Pkg{Fset: fset, Files: map[string]*ast.File{}, Dir: dir}
	ents, err := os.ReadDir(dir)
	if err != nil {
		return nil, err
	}
	for _, e := range ents {
		n := e.Name()
		if e.IsDir() || !strings.HasSuffix(n, ".go") || strings.HasSuffix(n, "_test.go") || strings.HasPrefix(n, "verif_hooks") {
			continue
		}
		f, err := parser.ParseFile(fset, filepath.Join(dir, n), nil, parser.ParseComments)
		if err != nil {
			return nil, err
		}
		p.Files[n] = f
	}
	return p, nil
}

// FuncDecl finds a function or method: recv "" for plain functions, otherwise the receiver type name
// without '*'.
func (p *Pkg) FuncDecl(recv, name string) *ast.FuncDecl {
	names := make([]string, 0, len(p.Files))
	for n := range p.Files {
		names = append(names, n)
	}
	sort.Strings(names)
	for _, n := range names {
		for _, d := range p.Files[n].Decls {
			fd, ok := d.(*ast.FuncDecl)
			if !ok || fd.Name.Name != name {
				continue
			}
			r := ""
			if fd.Recv != nil && len(fd.Recv.List) == 1 {
				t := fd.Recv.List[0].Type
				if s, ok := t.(*ast.StarExpr); ok {
					t = s.X
				}
				if id, ok := t.(*ast.Ident); ok {
					r = id.Name
				}
			}
			if r == recv {
				return fd
			}
		}
	}
	return nil
}

// LeanString renders s as a Lean string literal.
func LeanString(s string) string {
	var b strings.Builder
	b.WriteByte('"')
	for _, r := range s {
		switch r {
		case '"':
			b.WriteString("\\\"")
		case '\\':
			b.WriteString("\\\\")
		case '\n':
			b.WriteString("\\n")
		case '\t':
			b.WriteString("\\t")
		default:
			b.WriteRune(r)
		}
	}
	b.WriteByte('"')
	return b.String()
}

func main() {
	repo := flag.String("repo", "/repo", "goja source tree")
	out := flag.String("out", "", "output directory (lean/GojaModel/Generated)")
	only := flag.String("only", "", "property id (e.g. C05); empty = all")
	flag.Parse()
	if *out == "" {
		fmt.Fprintln(os.Stderr, "-out required")
		os.Exit(2)
	}
	pkg, err := load(*repo)
	if err != nil {
		fmt.Fprintln(os.Stderr, "load:", err)
		os.Exit(1)
	}
	props := []string{}
	for k := range registry {
		if *only == "" || *only == k {
			props = append(props, k)
		}
	}
	sort.Strings(props)
	rc := 0
	for _, prop := range props {
		for _, g := range registry[prop] {
			files, err := g(pkg)
			if err != nil {
				fmt.Fprintf(os.Stderr, "%s: tie not regenerable: %v\n", prop, err)
				rc = 1
				continue
			}
			for name, content := range files {
				if !strings.HasPrefix(name, prop+"_") {
					fmt.Fprintf(os.Stderr, "%s: bad generated file name %s\n", prop, name)
					rc = 1
					continue
				}
				if err := os.WriteFile(filepath.Join(*out, name), []byte(content), 0o644); err != nil {
					fmt.Fprintln(os.Stderr, err)
					rc = 1
				}
				fmt.Printf("generated %s (%d bytes)\n", name, len(content))
			}
		}
	}
	os.Exit(rc)
}
