package main

// C15 facts: (1) every access to vm.interrupted / vm.interruptVal with its synchronisation context,
// (2) the frame-skipping condition of handleThrow translated to a Lean Bool function, (3) the statement shapes of
// run / runWithProfiler / Interrupt / ClearInterrupt / leaveAbrupt and of the recover blocks of RunProgram / runWrapped.
// Anything outside the shapes understood here is an error ("tie not regenerable").

import (
	"bytes"
	"fmt"
	"go/ast"
	"go/printer"
	"go/token"
	"sort"
	"strings"
)

func init() { Register("C15", genC15) }

type c15Access struct {
	fn, cell              string
	write, atomic, locked bool
	pos                   token.Pos
	file                  string
}

func c15IsLockCall(e ast.Expr, name string) bool {
	call, ok := e.(*ast.CallExpr)
	if !ok {
		return false
	}
	sel, ok := call.Fun.(*ast.SelectorExpr)
	if !ok || sel.Sel.Name != name {
		return false
	}
	inner, ok := sel.X.(*ast.SelectorExpr)
	return ok && inner.Sel.Name == "interruptLock"
}

// heldRanges returns the source ranges of statements executed while interruptLock is held, and checks that every
// Lock/Unlock call on it is a plain statement of a block.
func c15HeldRanges(body *ast.BlockStmt) (ranges [][2]token.Pos, err error) {
	accounted := map[ast.Node]bool{}
	ast.Inspect(body, func(n ast.Node) bool {
		blk, ok := n.(*ast.BlockStmt)
		if !ok {
			return true
		}
		held := false
		for _, st := range blk.List {
			switch s := st.(type) {
			case *ast.ExprStmt:
				if c15IsLockCall(s.X, "Lock") {
					held = true
					accounted[s.X] = true
					continue
				}
				if c15IsLockCall(s.X, "Unlock") {
					held = false
					accounted[s.X] = true
					continue
				}
			case *ast.DeferStmt:
				if c15IsLockCall(s.Call, "Unlock") {
					accounted[s.Call] = true
					continue
				}
			}
			if held {
				ranges = append(ranges, [2]token.Pos{st.Pos(), st.End()})
			}
		}
		return true
	})
	ast.Inspect(body, func(n ast.Node) bool {
		if call, ok := n.(*ast.CallExpr); ok {
			if (c15IsLockCall(call, "Lock") || c15IsLockCall(call, "Unlock")) && !accounted[call] {
				err = fmt.Errorf("interruptLock.Lock/Unlock used outside a plain statement")
			}
		}
		return true
	})
	return
}

func c15Accesses(p *Pkg) ([]c15Access, error) {
	var out []c15Access
	names := make([]string, 0, len(p.Files))
	for n := range p.Files {
		names = append(names, n)
	}
	sort.Strings(names)
	for _, fname := range names {
		for _, d := range p.Files[fname].Decls {
			fd, ok := d.(*ast.FuncDecl)
			if !ok || fd.Body == nil {
				continue
			}
			held, err := c15HeldRanges(fd.Body)
			if err != nil {
				return nil, fmt.Errorf("%s: %v", fd.Name.Name, err)
			}
			var stack []ast.Node
			var ferr error
			ast.Inspect(fd.Body, func(n ast.Node) bool {
				if n == nil {
					stack = stack[:len(stack)-1]
					return true
				}
				stack = append(stack, n)
				sel, ok := n.(*ast.SelectorExpr)
				if !ok || (sel.Sel.Name != "interrupted" && sel.Sel.Name != "interruptVal") {
					return true
				}
				a := c15Access{fn: fd.Name.Name, cell: sel.Sel.Name, pos: sel.Pos(), file: fname}
				for _, r := range held {
					if sel.Pos() >= r[0] && sel.End() <= r[1] {
						a.locked = true
					}
				}
				parent := stack[len(stack)-2]
				switch pn := parent.(type) {
				case *ast.UnaryExpr:
					if pn.Op != token.AND || len(stack) < 3 {
						ferr = fmt.Errorf("%s: unexpected unary use of %s", fd.Name.Name, sel.Sel.Name)
						return false
					}
					call, ok := stack[len(stack)-3].(*ast.CallExpr)
					if !ok {
						ferr = fmt.Errorf("%s: address of %s escapes", fd.Name.Name, sel.Sel.Name)
						return false
					}
					fsel, ok := call.Fun.(*ast.SelectorExpr)
					pkg, _ := fsel.X.(*ast.Ident)
					if !ok || pkg == nil || pkg.Name != "atomic" {
						ferr = fmt.Errorf("%s: address of %s passed to a non-atomic function", fd.Name.Name, sel.Sel.Name)
						return false
					}
					a.atomic = true
					a.write = !strings.HasPrefix(fsel.Sel.Name, "Load")
				case *ast.AssignStmt:
					for _, l := range pn.Lhs {
						if l == ast.Expr(sel) {
							a.write = true
						}
					}
				case *ast.IncDecStmt:
					a.write = true
				}
				out = append(out, a)
				return true
			})
			if ferr != nil {
				return nil, ferr
			}
		}
	}
	if len(out) == 0 {
		return nil, fmt.Errorf("no access to vm.interrupted / vm.interruptVal found")
	}
	return out, nil
}

func c15Src(p *Pkg, n ast.Node) string {
	var b bytes.Buffer
	printer.Fprint(&b, p.Fset, n)
	return strings.Join(strings.Fields(b.String()), " ")
}

// translate the skip condition to Lean
func c15Cond(p *Pkg, e ast.Expr, consts map[string]string) (string, error) {
	switch x := e.(type) {
	case *ast.ParenExpr:
		return c15Cond(p, x.X, consts)
	case *ast.BinaryExpr:
		if id, ok := x.X.(*ast.Ident); ok && id.Name == "ex" {
			if y, ok := x.Y.(*ast.Ident); ok && y.Name == "nil" {
				if x.Op == token.EQL {
					return "exNil", nil
				}
				if x.Op == token.NEQ {
					return "(!exNil)", nil
				}
			}
		}
		op := map[token.Token]string{token.LAND: "&&", token.LOR: "||", token.EQL: "==", token.NEQ: "!=", token.GEQ: "≥", token.LSS: "<"}[x.Op]
		if op == "" {
			return "", fmt.Errorf("operator %s", x.Op)
		}
		l, err := c15Cond(p, x.X, consts)
		if err != nil {
			return "", err
		}
		r, err := c15Cond(p, x.Y, consts)
		if err != nil {
			return "", err
		}
		return "(" + l + " " + op + " " + r + ")", nil
	case *ast.SelectorExpr:
		if id, ok := x.X.(*ast.Ident); ok && id.Name == "tf" && (x.Sel.Name == "catchPos" || x.Sel.Name == "finallyPos") {
			return x.Sel.Name, nil
		}
	case *ast.UnaryExpr:
		if lit, ok := x.X.(*ast.BasicLit); ok && x.Op == token.SUB && lit.Kind == token.INT {
			return "(-" + lit.Value + " : Int)", nil
		}
	case *ast.BasicLit:
		if x.Kind == token.INT {
			return "(" + x.Value + " : Int)", nil
		}
	case *ast.Ident:
		if v, ok := consts[x.Name]; ok {
			return v, nil
		}
	}
	return "", fmt.Errorf("expression %s outside the translatable subset", c15Src(p, e))
}

func c15LoopShape(p *Pkg, fd *ast.FuncDecl) ([]string, []string, error) {
	var loop *ast.ForStmt
	var after *ast.IfStmt
	for _, st := range fd.Body.List {
		if f, ok := st.(*ast.ForStmt); ok && loop == nil && f.Cond == nil {
			loop = f
		} else if i, ok := st.(*ast.IfStmt); ok && loop != nil && c15Src(p, i.Cond) == "interrupted" {
			after = i
		}
	}
	if loop == nil {
		return nil, nil, fmt.Errorf("%s: no run loop", fd.Name.Name)
	}
	var shape []string
	for _, st := range loop.Body.List {
		src := c15Src(p, st)
		switch {
		case strings.HasPrefix(src, "if count == 0"):
			shape = append(shape, "count")
		case strings.HasPrefix(src, "if interrupted = atomic.LoadUint32(&vm.interrupted) != 0; interrupted { break }"):
			shape = append(shape, "poll-break")
		case strings.HasPrefix(src, "if interrupted = atomic.LoadUint32(&vm.interrupted) != 0; interrupted { return true }"):
			shape = append(shape, "poll-return")
		case src == "pc := vm.pc":
			shape = append(shape, "pc")
		case src == "if pc < 0 || pc >= len(vm.prg.code) { break }":
			shape = append(shape, "halt-break")
		case src == "vm.prg.code[pc].exec(vm)":
			shape = append(shape, "exec")
		default:
			shape = append(shape, "other")
		}
		if shape[len(shape)-1] == "exec" {
			break
		}
	}
	var raise []string
	if after != nil {
		for _, st := range after.Body.List {
			src := c15Src(p, st)
			switch {
			case src == "vm.interruptLock.Lock()":
				raise = append(raise, "lock")
			case src == "vm.interruptLock.Unlock()":
				raise = append(raise, "unlock")
			case src == "v := &InterruptedError{ iface: vm.interruptVal, }":
				raise = append(raise, "err=interruptVal")
			case src == "panic(v)":
				raise = append(raise, "panic")
			default:
				raise = append(raise, "other")
			}
		}
	}
	return shape, raise, nil
}

func c15StmtList(p *Pkg, fd *ast.FuncDecl) []string {
	var out []string
	for _, st := range fd.Body.List {
		out = append(out, c15Src(p, st))
	}
	return out
}

func c15Recover(p *Pkg, fd *ast.FuncDecl) (string, error) {
	var found string
	ast.Inspect(fd.Body, func(n ast.Node) bool {
		if i, ok := n.(*ast.IfStmt); ok && i.Init != nil && strings.HasPrefix(c15Src(p, i.Init), "ex := asUncatchableException(x)") {
			found = strings.ReplaceAll(c15Src(p, i), "r.vm.callStack", "vm.callStack")
			return false
		}
		return true
	})
	if found == "" {
		return "", fmt.Errorf("%s: recover block not found", fd.Name.Name)
	}
	return found, nil
}

func leanStrList(ss []string) string {
	q := make([]string, len(ss))
	for i, s := range ss {
		q[i] = LeanString(s)
	}
	return "[" + strings.Join(q, ", ") + "]"
}

func genC15(p *Pkg) (map[string]string, error) {
	acc, err := c15Accesses(p)
	if err != nil {
		return nil, err
	}
	var b strings.Builder
	b.WriteString("-- GENERATED by extract/c15.go from the Go sources; do not edit.\nimport GojaModel.C15.Drf\nnamespace GojaModel.Generated.C15\nopen GojaModel.C15.Drf\n\n")
	b.WriteString("def accessTable : List Access := [\n")
	for i, a := range acc {
		cell := "Cell.flag"
		if a.cell == "interruptVal" {
			cell = "Cell.val"
		}
		sep := ","
		if i == len(acc)-1 {
			sep = ""
		}
		pos := p.Fset.Position(a.pos)
		fmt.Fprintf(&b, "  ⟨%s, %s, %v, %v, %v⟩%s  -- %s:%d\n", LeanString(a.fn), cell, a.write, a.atomic, a.locked, sep, a.file, pos.Line)
	}
	b.WriteString("]\n\n")

	// handleThrow skip condition
	ht := p.FuncDecl("vm", "handleThrow")
	if ht == nil {
		return nil, fmt.Errorf("handleThrow not found")
	}
	consts := map[string]string{}
	for _, f := range p.Files {
		for _, d := range f.Decls {
			if gd, ok := d.(*ast.GenDecl); ok && gd.Tok == token.CONST {
				for _, sp := range gd.Specs {
					vs := sp.(*ast.ValueSpec)
					for i, n := range vs.Names {
						if n.Name == "tryPanicMarker" && i < len(vs.Values) {
							v, err := c15Cond(p, vs.Values[i], nil)
							if err != nil {
								return nil, err
							}
							consts["tryPanicMarker"] = v
						}
					}
				}
			}
		}
	}
	var cond ast.Expr
	ast.Inspect(ht.Body, func(n ast.Node) bool {
		if i, ok := n.(*ast.IfStmt); ok && cond == nil {
			src := c15Src(p, i.Body)
			if strings.Contains(src, "vm.popTryFrame()") && strings.HasSuffix(src, "continue }") {
				cond = i.Cond
				return false
			}
		}
		return true
	})
	if cond == nil {
		return nil, fmt.Errorf("handleThrow: frame-skipping branch not found")
	}
	cs, err := c15Cond(p, cond, consts)
	if err != nil {
		return nil, fmt.Errorf("handleThrow: %v", err)
	}
	fmt.Fprintf(&b, "/-- vm.go handleThrow: `if %s { ...popTryFrame(); continue }` -/\ndef skipCond (catchPos finallyPos : Int) (exNil : Bool) : Bool :=\n  %s\n\n", c15Src(p, cond), cs)

	for _, name := range []string{"run", "runWithProfiler"} {
		fd := p.FuncDecl("vm", name)
		if fd == nil {
			return nil, fmt.Errorf("%s not found", name)
		}
		shape, raise, err := c15LoopShape(p, fd)
		if err != nil {
			return nil, err
		}
		fmt.Fprintf(&b, "def %sLoop : List String := %s\n", name, leanStrList(shape))
		if name == "run" {
			fmt.Fprintf(&b, "def runRaise : List String := %s\n", leanStrList(raise))
		}
	}
	for _, it := range [][2]string{{"vm", "Interrupt"}, {"vm", "ClearInterrupt"}, {"Runtime", "leaveAbrupt"}} {
		fd := p.FuncDecl(it[0], it[1])
		if fd == nil {
			return nil, fmt.Errorf("%s not found", it[1])
		}
		fmt.Fprintf(&b, "def body%s : List String := %s\n", it[1], leanStrList(c15StmtList(p, fd)))
	}
	for _, name := range []string{"RunProgram", "runWrapped"} {
		fd := p.FuncDecl("Runtime", name)
		if fd == nil {
			return nil, fmt.Errorf("%s not found", name)
		}
		r, err := c15Recover(p, fd)
		if err != nil {
			return nil, err
		}
		fmt.Fprintf(&b, "def recover%s : String := %s\n", strings.ToUpper(name[:1])+name[1:], LeanString(r))
	}
	// statements located by prefix inside a function: `what` = (receiver, function, prefix, lean name)
	for _, it := range [][4]string{
		{"vm", "handleThrow", "_ = vm._restoreStacks(", "handleThrowRestore"},
		{"generator", "step", "defer func()", "generatorStepDefer"},
		{"Runtime", "Try", "defer func()", "tryDefer"},
	} {
		fd := p.FuncDecl(it[0], it[1])
		if fd == nil {
			return nil, fmt.Errorf("%s.%s not found", it[0], it[1])
		}
		found := ""
		ast.Inspect(fd.Body, func(n ast.Node) bool {
			if st, ok := n.(ast.Stmt); ok && found == "" {
				if src := c15Src(p, st); strings.HasPrefix(src, it[2]) {
					found = src
					return false
				}
			}
			return true
		})
		if found == "" {
			// the function exists but has no such statement: that is a fact (the Tie theorem naming it stops checking),
			// not an untranslatable shape
			found = "<absent>"
		}
		fmt.Fprintf(&b, "def %s : String := %s\n", it[3], LeanString(found))
	}
	// ---------------- decision structure (robust against unrelated edits of the same functions) ----------------
	norm := func(x string) string {
		x = strings.ReplaceAll(x, "r.vm.callStack", "callStack")
		x = strings.ReplaceAll(x, "vm.callStack", "callStack")
		return x
	}
	// (a) every call site of leaveAbrupt: is it guarded by "call stack empty" and by "payload is uncatchable"; how many args
	type laSite struct {
		fn                  string
		emptyCS, uncatch    bool
		nargs               int
	}
	var laSites []laSite
	for _, fname := range func() []string {
		ns := make([]string, 0, len(p.Files))
		for n := range p.Files {
			ns = append(ns, n)
		}
		sort.Strings(ns)
		return ns
	}() {
		for _, d := range p.Files[fname].Decls {
			fd, ok := d.(*ast.FuncDecl)
			if !ok || fd.Body == nil {
				continue
			}
			var stack []ast.Node
			ast.Inspect(fd.Body, func(n ast.Node) bool {
				if n == nil {
					stack = stack[:len(stack)-1]
					return true
				}
				stack = append(stack, n)
				call, ok := n.(*ast.CallExpr)
				if !ok {
					return true
				}
				sel, ok := call.Fun.(*ast.SelectorExpr)
				if !ok || sel.Sel.Name != "leaveAbrupt" {
					return true
				}
				site := laSite{fn: fd.Name.Name, nargs: len(call.Args)}
				for i := len(stack) - 2; i >= 0; i-- {
					if _, isFn := stack[i].(*ast.FuncLit); isFn {
						break
					}
					ifs, ok := stack[i].(*ast.IfStmt)
					if !ok {
						continue
					}
					// the call must be in the THEN branch
					if !(call.Pos() >= ifs.Body.Pos() && call.End() <= ifs.Body.End()) {
						continue
					}
					init := ""
					if ifs.Init != nil {
						init = c15Src(p, ifs.Init)
					}
					for _, cj := range strings.Split(norm(c15Src(p, ifs.Cond)), "&&") {
						cj = strings.TrimSpace(cj)
						if cj == "len(callStack) == 0" {
							site.emptyCS = true
						}
						if cj == "asUncatchableException(x) != nil" || (cj == "ex != nil" && strings.HasPrefix(init, "ex := asUncatchableException(x)")) {
							site.uncatch = true
						}
					}
				}
				laSites = append(laSites, site)
				return true
			})
		}
	}
	b.WriteString("/-- call sites of leaveAbrupt: (function, guarded by `len(callStack) == 0`, guarded by `payload is uncatchable`, #args) -/\n")
	b.WriteString("def leaveAbruptSites : List (String × Bool × Bool × Nat) := [")
	for i, st := range laSites {
		if i > 0 {
			b.WriteString(", ")
		}
		fmt.Fprintf(&b, "(%s, %v, %v, %d)", LeanString(st.fn), st.emptyCS, st.uncatch, st.nargs)
	}
	b.WriteString("]\n")
	// (b) leaveAbrupt's unconditional effects
	{
		fd := p.FuncDecl("Runtime", "leaveAbrupt")
		drops, clears := false, false
		for _, st := range fd.Body.List {
			switch c15Src(p, st) {
			case "r.jobQueue = nil":
				drops = true
			case "r.ClearInterrupt()", "r.vm.ClearInterrupt()":
				clears = true
			}
		}
		fmt.Fprintf(&b, "/-- leaveAbrupt, unconditional top-level statements: drops the job queue, clears the interrupt flag; #params -/\n")
		fmt.Fprintf(&b, "def leaveAbruptEffects : Bool × Bool × Nat := (%v, %v, %d)\n", drops, clears, fd.Type.Params.NumFields())
	}
	// (c) order of the classified statements (unknown statements are ignored)
	classify := func(fd *ast.FuncDecl, list []ast.Stmt, table [][2]string) []string {
		var out []string
		for _, st := range list {
			src := c15Src(p, st)
			for _, kv := range table {
				if strings.HasPrefix(src, kv[0]) {
					out = append(out, kv[1])
					break
				}
			}
		}
		return out
	}
	{
		fd := p.FuncDecl("vm", "Interrupt")
		fmt.Fprintf(&b, "def interruptOrder : List String := %s\n", leanStrList(classify(fd, fd.Body.List, [][2]string{
			{"vm.interruptLock.Lock()", "lock"}, {"vm.interruptVal = v", "val"},
			{"atomic.StoreUint32(&vm.interrupted, 1)", "store"}, {"vm.interruptLock.Unlock()", "unlock"}})))
		fd = p.FuncDecl("vm", "ClearInterrupt")
		fmt.Fprintf(&b, "def clearOrder : List String := %s\n", leanStrList(classify(fd, fd.Body.List, [][2]string{
			{"atomic.StoreUint32(&vm.interrupted, 0)", "store0"}, {"vm.interruptLock", "lock?"}, {"vm.interruptVal", "val?"}})))
	}
	for _, name := range []string{"run", "runWithProfiler"} {
		fd := p.FuncDecl("vm", name)
		var loop *ast.ForStmt
		var after *ast.IfStmt
		for _, st := range fd.Body.List {
			if f, ok := st.(*ast.ForStmt); ok && loop == nil && f.Cond == nil {
				loop = f
			} else if i, ok := st.(*ast.IfStmt); ok && loop != nil && c15Src(p, i.Cond) == "interrupted" {
				after = i
			}
		}
		if loop == nil {
			return nil, fmt.Errorf("%s: no run loop", name)
		}
		fmt.Fprintf(&b, "def %sOrder : List String := %s\n", name, leanStrList(classify(fd, loop.Body.List, [][2]string{
			{"if interrupted = atomic.LoadUint32(&vm.interrupted) != 0; interrupted {", "poll"},
			{"if pc < 0 || pc >= len(vm.prg.code) { break }", "halt"}, {"vm.prg.code[pc].exec(vm)", "exec"}})))
		if name == "run" {
			var lst []ast.Stmt
			if after != nil {
				lst = after.Body.List
			}
			fmt.Fprintf(&b, "def raiseOrder : List String := %s\n", leanStrList(classify(fd, lst, [][2]string{
				{"vm.interruptLock.Lock()", "lock"}, {"v := &InterruptedError{ iface: vm.interruptVal", "err=interruptVal"},
				{"vm.interruptVal", "val?"}, {"vm.interruptLock.Unlock()", "unlock"}, {"panic(v)", "panic"},
				{"atomic.StoreUint32(&vm.interrupted", "flag?"}})))
		}
	}
	// (d) handleThrow: the condition under which open iterators are closed
	{
		fd := p.FuncDecl("vm", "handleThrow")
		arg := "<absent>"
		ast.Inspect(fd.Body, func(n ast.Node) bool {
			if call, ok := n.(*ast.CallExpr); ok {
				if sel, ok := call.Fun.(*ast.SelectorExpr); ok && sel.Sel.Name == "_restoreStacks" && len(call.Args) == 3 {
					arg = c15Src(p, call.Args[2])
					return false
				}
			}
			return true
		})
		fmt.Fprintf(&b, "def handleThrowClosesItersIff : String := %s\n", LeanString(arg))
	}

	// vm.curAsyncRunner: per function that assigns it — does it set a non-nil value, does it reset it to nil inside a
	// defer, does it reset it in a plain statement
	type carInfo struct{ nonNil, deferredNil, plainNil bool }
	carFns := map[string]*carInfo{}
	var carOrder []string
	fnames := make([]string, 0, len(p.Files))
	for n := range p.Files {
		fnames = append(fnames, n)
	}
	sort.Strings(fnames)
	for _, fname := range fnames {
		for _, d := range p.Files[fname].Decls {
			fd, ok := d.(*ast.FuncDecl)
			if !ok || fd.Body == nil {
				continue
			}
			var stack []ast.Node
			ast.Inspect(fd.Body, func(n ast.Node) bool {
				if n == nil {
					stack = stack[:len(stack)-1]
					return true
				}
				stack = append(stack, n)
				as, ok := n.(*ast.AssignStmt)
				if !ok {
					return true
				}
				for i, l := range as.Lhs {
					sel, ok := l.(*ast.SelectorExpr)
					if !ok || sel.Sel.Name != "curAsyncRunner" || i >= len(as.Rhs) {
						continue
					}
					ci := carFns[fd.Name.Name]
					if ci == nil {
						ci = &carInfo{}
						carFns[fd.Name.Name] = ci
						carOrder = append(carOrder, fd.Name.Name)
					}
					inDefer := false
					for _, a := range stack {
						if _, ok := a.(*ast.DeferStmt); ok {
							inDefer = true
						}
					}
					if id, ok := as.Rhs[i].(*ast.Ident); ok && id.Name == "nil" {
						if inDefer {
							ci.deferredNil = true
						} else {
							ci.plainNil = true
						}
					} else {
						ci.nonNil = true
					}
				}
				return true
			})
		}
	}
	if len(carOrder) == 0 {
		return nil, fmt.Errorf("no assignment to vm.curAsyncRunner found")
	}
	b.WriteString("/-- functions assigning vm.curAsyncRunner: (name, sets non-nil, resets to nil in a defer, resets to nil in a plain statement) -/\n")
	b.WriteString("def curAsyncRunnerWriters : List (String × Bool × Bool × Bool) := [")
	for i, n := range carOrder {
		if i > 0 {
			b.WriteString(", ")
		}
		ci := carFns[n]
		fmt.Fprintf(&b, "(%s, %v, %v, %v)", LeanString(n), ci.nonNil, ci.deferredNil, ci.plainNil)
	}
	b.WriteString("]\n")
	// captureStack: the condition under which frames of awaiting async functions are appended
	capFd := p.FuncDecl("vm", "captureStack")
	if capFd == nil {
		return nil, fmt.Errorf("captureStack not found")
	}
	asyncCond := "<absent>"
	ast.Inspect(capFd.Body, func(n ast.Node) bool {
		if i, ok := n.(*ast.IfStmt); ok && strings.Contains(c15Src(p, i.Body), "captureAsyncStack(") {
			asyncCond = c15Src(p, i.Cond)
			return false
		}
		return true
	})
	fmt.Fprintf(&b, "def captureStackAsyncCond : String := %s\n", LeanString(asyncCond))
	b.WriteString("\nend GojaModel.Generated.C15\n")
	return map[string]string{"C15_Facts.lean": b.String()}, nil
}
