module verifextract

go 1.25
