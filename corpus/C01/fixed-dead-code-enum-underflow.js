[];function f(){}g=function(){};class C1{constructor(){}}try{for(k2 in arr){const bl1=((y));if(((0)-0))continue}}catch{}
