function f(){ for (var i=0;i<2;i++){ try { let x = i; if (x) return x; continue; } catch(e) { return -1 } finally { i += 0 } } return 9 }
var r = f(); L: { try { break L } finally { r++ } } r
