for(var n=0;n<2;n++){ switch(1){ default: try{}finally{ if (n<5) continue; break } } }
