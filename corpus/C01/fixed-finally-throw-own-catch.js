var s=""; try { try { s+="t" } catch(e) { s+="c" } finally { s+="f"; if (s.length<5) throw 1 } } catch(e2) { s+="o" } s
