throw {__proto__: null}
