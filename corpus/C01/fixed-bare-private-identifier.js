#p
