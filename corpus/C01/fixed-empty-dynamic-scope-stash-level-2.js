(function(){ let y=0; (class { [y](){ } m(){ eval("1") } }); })()
