var o = {#p: 2};
