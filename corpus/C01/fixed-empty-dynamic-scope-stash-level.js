(function(){ var a=1; { const [] = []; (function(){ eval("1") }); return a } })()
