o={y:{}};function f(){}class C1{constructor(){}}try{try{(((f))([]))}catch{if([])for(o of[[]]){break;class Object{#p3(){}constructor(){([])}[undefined](){}[0](){({f,[0x10]:[]}[[]])}}}}}catch{}
