var a={b(...x){return x.length}}; (a?.b)(...[function(){}]);
