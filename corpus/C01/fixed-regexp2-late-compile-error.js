"\uD83D".match(RegExp("(\\p)", "gu"))
