(function f(){ var r = [1,(f = 5, 2)]; return r })()
