for (var o of [[]]) { break; class X {} }
