var r = 0; switch (3) { case 3: let v = 1; r = eval("v + 1"); } r
