function* g(){ var x = yield 1; try { yield* [2,3]; } finally { x = 4 } return x }
var a = [...g()]; Math.max(...a, ...[5], 6); new Date(...[2020, 1]); a
