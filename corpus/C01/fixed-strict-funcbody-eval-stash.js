"use strict"; function f(a, ...r) { eval(""); return a; } f(1, 1)
