(function(){ return (() => arguments.length)() })(1,2)
