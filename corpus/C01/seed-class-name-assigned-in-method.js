(function(o){ return new (class f { m(){ try { f = 1 } catch(e) {} return o } })().m() })(3)
