try { throw {toString(){ throw new Error("inner") }} } finally { }
