function f(a){ var r=[1,(0 && a, 2)] }; f(5)
