o={x:1,y:{z:2},f(){}};arr=[];function f(){}g=function(){};class C1{constructor(){}}try{L1:try{if(0.5);else try{(x)(0||undefined)}catch({["a"]:p3}){(b)}finally{break L1}}finally{}}catch(e0){}
