var u; u?.()();
