class K { #p; m(o){ return #p in o || 1 } }
